#!/bin/bash
# Offline build of the whole framework (MANIFEST.setup_cmd).
set -eu
cd /verif/mc
export CARGO_NET_OFFLINE=true
cargo build --release --offline
echo "setup ok"
