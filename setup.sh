#!/bin/bash
# Offline build of the whole framework (MANIFEST.setup_cmd).
set -eu
cd /verif/mc
export CARGO_NET_OFFLINE=true
cargo build --release --offline
cargo build --release --offline -p c18loom
cargo check --offline -p c18gate
echo "setup ok"
