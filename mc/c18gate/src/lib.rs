//! C18, type-level half: this crate compiles only if the public types are Send + Sync and the
//! evaluation futures are Send.  Decided by rustc, not by exploration (see DESIGN §3 C18).
#![allow(dead_code)]
use reval::prelude::*;

fn send<T: Send>() {}
fn sync<T: Sync>() {}
fn send_val<T: Send>(_: &T) {}

fn types() {
    send::<RuleSet>();
    sync::<RuleSet>();
    send::<Rule>();
    sync::<Rule>();
    send::<Expr>();
    sync::<Expr>();
    send::<Value>();
    sync::<Value>();
    send::<Symbols>();
    sync::<Symbols>();
    send::<reval::Error>();
    sync::<reval::Error>();
    send::<reval::ruleset::Outcome<'static>>();
    sync::<reval::ruleset::Outcome<'static>>();
    send::<reval::parse::Error>();
    sync::<reval::parse::Error>();
    send::<Builder>();
}

fn futures(rs: &RuleSet, e: &Expr, v: &Value) {
    send_val(&e.evaluate(v));
    send_val(&rs.evaluate_value(v));
    // any shareable (Sync) serializable input
    send_val(&rs.evaluate(&5u8));
    send_val(&rs.evaluate(v_as_serializable(&())));
    #[derive(serde::Serialize)]
    struct Facts {
        a: u8,
        b: Vec<String>,
    }
    let f = Facts { a: 1, b: vec![] };
    send_val(&rs.evaluate(&f));
}

fn v_as_serializable<T: serde::Serialize + Sync>(t: &T) -> &T {
    t
}

/// spawning on a multi-threaded executor requires exactly this
fn spawnable(rs: std::sync::Arc<RuleSet>, v: Value) -> std::pin::Pin<Box<dyn std::future::Future<Output = usize> + Send + 'static>> {
    Box::pin(async move { rs.evaluate_value(&v).await.map(|o| o.len()).unwrap_or(0) })
}
