//! C10 — names and access paths resolve to exactly the addressed data.
//! Product of nested inputs (every leaf a distinct integer) x access paths x symbol tables,
//! evaluated through one ruleset per symbol table holding every path as a rule.
use super::probe::*;
use crate::engine::exec::block_on;
use crate::engine::panic::catch;
use crate::engine::report::{Acc, Report, Tier, Violation};
use crate::spec::eval::*;
use crate::spec::re::*;
use crate::spec::rv::*;
use rayon::prelude::*;
use reval::prelude::*;
use serde_json::json;
use std::collections::BTreeMap;
use std::sync::Arc;

/// templates of nested values; leaves are renumbered when a template is instantiated
#[derive(Clone, Debug)]
enum Tpl {
    Leaf,
    None,
    List(Vec<Tpl>),
    Map(Vec<(&'static str, Tpl)>),
}

const KEYSETS: [&[&str]; 4] = [&[], &["a"], &["a", "A"], &["a", "A", "ab", "facts"]];

fn templates(depth: usize) -> Vec<Tpl> {
    if depth == 0 {
        return vec![Tpl::Leaf];
    }
    let sub = templates(depth - 1);
    let mut out = vec![Tpl::Leaf, Tpl::None];
    for t in &sub {
        for len in 0..=2 {
            if len == 0 && !matches!(t, Tpl::Leaf) {
                continue;
            }
            out.push(Tpl::List(vec![t.clone(); len]));
        }
        for ks in KEYSETS {
            if ks.is_empty() && !matches!(t, Tpl::Leaf) {
                continue;
            }
            out.push(Tpl::Map(ks.iter().map(|k| (*k, t.clone())).collect()));
        }
    }
    out
}

fn instantiate(t: &Tpl, next: &mut i128) -> RV {
    match t {
        Tpl::Leaf => {
            *next += 1;
            RV::Int(*next)
        }
        Tpl::None => RV::None,
        Tpl::List(v) => RV::List(v.iter().map(|x| instantiate(x, next)).collect()),
        Tpl::Map(m) => RV::Map(m.iter().map(|(k, x)| (k.to_string(), instantiate(x, next))).collect()),
    }
}

#[derive(Clone, Debug)]
enum Step {
    F(&'static str),
    N(usize),
}

fn steps() -> Vec<Step> {
    vec![Step::F("a"), Step::F("A"), Step::F("ab"), Step::F("b"), Step::F("facts"), Step::N(0), Step::N(1), Step::N(2), Step::N(usize::MAX), Step::N(11), Step::N(12), Step::F("k1"), Step::F("k10")]
}

fn roots() -> Vec<RE> {
    vec![
        RE::reff("a"),
        RE::reff("A"),
        RE::reff("ab"),
        RE::reff("b"),
        RE::reff("facts"),
        RE::Sym("s".into()),
        RE::Sym("S".into()),
        RE::Sym("zz".into()),
        RE::Sym("a".into()),
        RE::call("f", RE::Val(RV::Int(1))),
        RE::call("zz", RE::Val(RV::Int(1))),
    ]
}

fn paths(max_steps: usize) -> Vec<RE> {
    let st = steps();
    let mut out = Vec::new();
    let mut frontier: Vec<RE> = roots();
    out.extend(frontier.iter().cloned());
    for _ in 0..max_steps {
        let mut next = Vec::new();
        for p in &frontier {
            for s in &st {
                next.push(match s {
                    Step::F(f) => RE::idxf(p.clone(), f),
                    Step::N(n) => RE::idxn(p.clone(), *n),
                });
            }
        }
        out.extend(next.iter().cloned());
        frontier = next;
    }
    out
}

struct PathEnv {
    facts: RV,
    syms: BTreeMap<String, RV>,
    fval: RV,
}

impl Env for PathEnv {
    fn facts(&self) -> &RV {
        &self.facts
    }
    fn symbol(&self, n: &str) -> Option<RV> {
        self.syms.get(n).cloned()
    }
    fn call(&mut self, name: &str, _arg: &RV) -> RRes {
        if name == "f" {
            Ok(self.fval.clone())
        } else {
            Err(RErr::UnknownUserFunction(name.to_string()))
        }
    }
}

fn symbol_tables() -> Vec<(&'static str, BTreeMap<String, RV>)> {
    let mut n = 5000;
    let deep = Tpl::Map(vec![("a", Tpl::List(vec![Tpl::Leaf, Tpl::Map(vec![("a", Tpl::Leaf), ("A", Tpl::Leaf)])])), ("A", Tpl::Leaf), ("facts", Tpl::Leaf), ("0", Tpl::Leaf), ("ab", Tpl::Map(vec![("0", Tpl::Leaf), ("1", Tpl::None), ("a", Tpl::None)]))]);
    let s_val = instantiate(&deep, &mut n);
    let big_s = instantiate(&deep, &mut n);
    vec![
        ("empty", BTreeMap::new()),
        ("s", [("s".to_string(), s_val.clone())].into_iter().collect()),
        ("s+S", [("s".to_string(), s_val.clone()), ("S".to_string(), big_s.clone())].into_iter().collect()),
        // a symbol named like an input field: `:a.x` and `a.x` must stay apart
        ("s+S+a", [("s".to_string(), s_val), ("S".to_string(), big_s), ("a".to_string(), instantiate(&deep, &mut n))].into_iter().collect()),
    ]
}

fn function_value() -> RV {
    let mut n = 9000;
    instantiate(&Tpl::Map(vec![("a", Tpl::List(vec![Tpl::Leaf, Tpl::Leaf])), ("A", Tpl::Map(vec![("a", Tpl::Leaf), ("0", Tpl::Leaf), ("1", Tpl::Leaf)])), ("ab", Tpl::None), ("0", Tpl::Leaf)]), &mut n)
}

/// names that rule text cannot spell, reached through the constructors: a reference names an input
/// field, a symbol names a registered symbol, whatever characters the name is made of
fn api_names_leg(acc: &mut Acc) {
    // plain non-identifier names, then one base name decorated with every ASCII punctuation
    // character / blank as a prefix and as a suffix, its case variants and the base name itself:
    // all registered at once, each must resolve to its own value (a registration or lookup that
    // trims, strips a sigil or folds case makes two of them meet)
    let mut names: Vec<String> = ["first-name", "2fa", "", "a b", "é", "max-age", "x.y", "if", "none", "i5", "f.5", "\"q\"", "a\nb", "_", "facts "].iter().map(|s| s.to_string()).collect();
    names.extend(["limit", "Limit", "LIMIT", "lımıt", "limit\u{301}", "ｌimit", "l\u{200b}imit"].iter().map(|s| s.to_string()));
    for c in (0x20u8..0x7f).map(|b| b as char).filter(|c| !c.is_ascii_alphanumeric()).chain(['\t', '\n', '\0', '\u{a0}', '\u{feff}']) {
        names.push(format!("{c}limit"));
        names.push(format!("limit{c}"));
        names.push(format!("{c}limit{c}"));
        names.push(format!("{c}{c}limit"));
    }
    names.sort();
    names.dedup();
    let names: Vec<&str> = names.iter().map(|s| s.as_str()).collect();
    for (present, route) in [(true, 0), (true, 1), (true, 2), (true, 3), (false, 0)] {
        let facts = if present { Value::Map(names.iter().enumerate().map(|(i, n)| (n.to_string(), Value::Int(i as i128))).collect()) } else { Value::Map([("other".to_string(), Value::Int(1))].into_iter().collect()) };
        let mut b = ruleset();
        if present {
            // registration routes: with_symbol one by one (forwards / backwards), Symbols::insert +
            // with_symbols, Symbols::append + with_symbols
            match route {
                0 => {
                    for (i, n) in names.iter().enumerate() {
                        b = b.with_symbol(*n, Value::Int(100 + i as i128));
                    }
                }
                1 => {
                    for (i, n) in names.iter().enumerate().rev() {
                        b = b.with_symbol(*n, Value::Int(100 + i as i128));
                    }
                }
                2 => {
                    let mut syms = Symbols::default();
                    for (i, n) in names.iter().enumerate() {
                        syms.insert(*n, Value::Int(100 + i as i128));
                    }
                    b = match b.with_symbols(syms) {
                        Ok(b) => b,
                        Err(e) => return acc.machinery(format!("api-names: {e}")),
                    };
                }
                _ => {
                    let mut syms = Symbols::default();
                    syms.append(names.iter().enumerate().map(|(i, n)| (n.to_string(), Value::Int(100 + i as i128))));
                    b = match b.with_symbols(syms) {
                        Ok(b) => b,
                        Err(e) => return acc.machinery(format!("api-names: {e}")),
                    };
                }
            }
        }
        for (i, n) in names.iter().enumerate() {
            b = match b.with_rule(Rule::new(format!("ref{i}"), BTreeMap::new(), Expr::reff(*n))).and_then(|b| b.with_rule(Rule::new(format!("sym{i}"), BTreeMap::new(), Expr::symbol(*n)))) {
                Ok(b) => b,
                Err(e) => return acc.machinery(format!("api-names: {e}")),
            };
        }
        let rs = b.build();
        acc.count("executions", 1);
        match catch(|| block_on(rs.evaluate_value(&facts))) {
            Ok(Ok(Ok(out))) => {
                for (k, o) in out.iter().enumerate() {
                    let (i, is_ref) = (k / 2, k % 2 == 0);
                    let n = names[i];
                    let got = observe(Ok(match &o.value {
                        Ok(v) => Ok(v.clone()),
                        Err(e) => Err(reval_error_clone(e)),
                    }));
                    let want: RRes = match (present, is_ref) {
                        (true, true) => Ok(RV::Int(i as i128)),
                        (true, false) => Ok(RV::Int(100 + i as i128)),
                        (false, true) => Err(RErr::UnknownRef(n.to_string())),
                        (false, false) => Err(RErr::InvalidSymbol(n.to_string())),
                    };
                    // the word `facts` itself is the whole input; every other name is a plain name
                    if conforms(&want, &got) == Some(false) {
                        acc.violation(Violation {
                            sig: format!("api-name/{}/{}/route{route}", if is_ref { "reference" } else { "symbol" }, got.class()),
                            what: format!("{} {n:?} built through the constructor ({}, registration route {route}): observed {}, expected {}", if is_ref { "reference" } else { "symbol" }, if present { "present" } else { "absent" }, got.show(), show_exp(&want)),
                            case: json!({"kind": "api-step", "name": n}),
                            size: n.len(),
                        });
                    }
                }
                acc.outcome("api-names");
            }
            Ok(other) => acc.machinery(format!("api-names: {:?}", other.map(|r| r.map(|o| o.len()).map_err(|e| e.to_string())))),
            Err(p) => acc.violation(Violation { sig: "api-name/panic".into(), what: format!("evaluating references / symbols with names that are not identifiers panicked: {p}"), case: json!({"kind": "api-step"}), size: 1 }),
        }
    }
    // many symbols: every one of 400 000 registered names resolves to its own value (a table keyed by
    // anything shorter than the name collides somewhere)
    let n = 400_000usize;
    // random-looking names (sequential ones spread too evenly under common hash functions)
    let name = |i: usize| -> String {
        let mut x = (i as u64).wrapping_mul(0x9E37_79B9_7F4A_7C15).wrapping_add(0x0123_4567);
        let mut t = String::new();
        while x > 0 {
            t.insert(0, char::from_digit((x % 36) as u32, 36).unwrap());
            x /= 36;
        }
        format!("w{t}")
    };
    let mut b = ruleset();
    let mut syms = Symbols::default();
    for i in 0..n {
        syms.insert(name(i), Value::Int(i as i128));
    }
    b = match b.with_symbols(syms) {
        Ok(b) => b,
        Err(e) => return acc.machinery(format!("many-symbols: {e}")),
    };
    let all = Expr::Vec((0..n).map(|i| Expr::symbol(name(i))).collect());
    let unknown = Expr::Vec(vec![Expr::symbol("w300000"), Expr::symbol("W0")]);
    let rs = match b.with_rule(Rule::new("all", BTreeMap::new(), all)).and_then(|b| b.with_rule(Rule::new("unknown", BTreeMap::new(), unknown))) {
        Ok(b) => b.build(),
        Err(e) => return acc.machinery(format!("many-symbols: {e}")),
    };
    acc.count("executions", 1);
    match catch(|| block_on(rs.evaluate_value(&Value::None))) {
        Ok(Ok(Ok(out))) => {
            let bad = match &out[0].value {
                Ok(Value::Vec(items)) if items.len() == n => items.iter().enumerate().find(|(i, v)| **v != Value::Int(*i as i128)).map(|(i, v)| format!(":{} (registered as i{i}) resolves to {v:?}", name(i))),
                other => Some(format!("outcome {:?}", other.as_ref().map(|_| "..").map_err(|e| e.to_string()))),
            };
            let unknown_ok = matches!(&out[1].value, Err(reval::Error::InvalidSymbol(s)) if s == "w300000");
            if let Some(d) = bad {
                acc.violation(Violation { sig: "many-symbols/wrong-value".into(), what: format!("{n} symbols registered: {d}"), case: json!({"kind": "api-step"}), size: 1 });
            } else if !unknown_ok {
                acc.violation(Violation { sig: "many-symbols/unknown".into(), what: format!("{n} symbols registered: the unknown symbol :w300000 gives {:?}", out[1].value.as_ref().map_err(|e| e.to_string())), case: json!({"kind": "api-step"}), size: 1 });
            }
            acc.outcome("many-symbols");
        }
        Ok(other) => acc.machinery(format!("many-symbols: {:?}", other.map(|r| r.map(|o| o.len()).map_err(|e| e.to_string())))),
        Err(p) => acc.violation(Violation { sig: "many-symbols/panic".into(), what: format!("panicked: {p}"), case: json!({"kind": "api-step"}), size: 1 }),
    }
    // the same for input fields: an input with 100 000 random-looking keys (and field steps into a
    // nested map of 2 000): every reference / field step returns its own entry, an
    // absent name is an unknown reference / none
    let nf = 100_000usize;
    // (a field step clones the map it steps into, so the nested map is kept at 2 000 entries)
    let ni = 2_000usize;
    let inner: BTreeMap<String, Value> = (0..ni).map(|i| (name(i), Value::Int(-(i as i128)))).collect();
    let mut top: BTreeMap<String, Value> = (0..nf).map(|i| (name(i), Value::Int(i as i128))).collect();
    top.insert("inner".into(), Value::Map(inner));
    let facts = Value::Map(top);
    let refs = Expr::Vec((0..nf).map(|i| Expr::reff(name(i))).collect());
    let steps = Expr::Vec((0..ni).map(|i| Expr::index(Expr::reff("inner"), reval::expr::Index::Map(name(i)))).collect());
    let absent = Expr::Vec(vec![Expr::index(Expr::reff("inner"), reval::expr::Index::Map(name(nf + 1))), Expr::index(Expr::reff("facts"), reval::expr::Index::Map(name(nf + 2)))]);
    let absent_ref = Expr::reff(name(nf + 3));
    let rs = match ruleset().with_rules([Rule::new("refs", BTreeMap::new(), refs), Rule::new("steps", BTreeMap::new(), steps), Rule::new("absent", BTreeMap::new(), absent), Rule::new("absent-ref", BTreeMap::new(), absent_ref)]) {
        Ok(b) => b.build(),
        Err(e) => return acc.machinery(format!("many-fields: {e}")),
    };
    acc.count("executions", 1);
    match catch(|| block_on(rs.evaluate_value(&facts))) {
        Ok(Ok(Ok(out))) if out.len() == 4 => {
            let wrong = |o: &reval::Result<Value>, sign: i128| -> Option<String> {
                match o {
                    Ok(Value::Vec(items)) if items.len() == (if sign > 0 { nf } else { ni }) => items.iter().enumerate().find(|(i, v)| **v != Value::Int(sign * *i as i128)).map(|(i, v)| format!("`{}` (holding i{}) resolves to {v:?}", name(i), sign * i as i128)),
                    other => Some(format!("outcome {:?}", other.as_ref().map(|_| "..").map_err(|e| e.to_string()))),
                }
            };
            if let Some(d) = wrong(&out[0].value, 1).or_else(|| wrong(&out[1].value, -1)) {
                acc.violation(Violation { sig: "many-fields/wrong-value".into(), what: format!("input with {nf} fields: {d}"), case: json!({"kind": "api-step"}), size: 1 });
            } else if !matches!(&out[2].value, Ok(Value::Vec(items)) if *items == vec![Value::None, Value::None]) || !matches!(&out[3].value, Err(reval::Error::UnknownRef(s)) if *s == name(nf + 3)) {
                acc.violation(Violation {
                    sig: "many-fields/absent".into(),
                    what: format!("input with {nf} fields: absent field steps give {:?}, an absent reference gives {:?}", out[2].value.as_ref().map_err(|e| e.to_string()), out[3].value.as_ref().map_err(|e| e.to_string())),
                    case: json!({"kind": "api-step"}),
                    size: 1,
                });
            }
            acc.outcome("many-fields");
        }
        Ok(other) => acc.machinery(format!("many-fields: {:?}", other.map(|r| r.map(|o| o.len()).map_err(|e| e.to_string())))),
        Err(p) => acc.violation(Violation { sig: "many-fields/panic".into(), what: format!("panicked: {p}"), case: json!({"kind": "api-step"}), size: 1 }),
    }
}

fn reval_error_clone(e: &reval::Error) -> reval::Error {
    match e {
        reval::Error::UnknownRef(n) => reval::Error::UnknownRef(n.clone()),
        reval::Error::InvalidSymbol(n) => reval::Error::InvalidSymbol(n.clone()),
        reval::Error::InvalidType => reval::Error::InvalidType,
        other => reval::Error::UnknownRef(format!("<{other}>")),
    }
}

/// steps that only exist as text or only through the API
fn special_steps_leg(acc: &mut Acc) {
    api_names_leg(acc);
    let list = RV::List((0..3).map(|i| RV::Str(format!("item{i}"))).collect());
    let digits = RV::map(&[("0", RV::str("zero")), ("1", RV::str("one")), ("007", RV::str("bond")), ("+1", RV::str("plus")), ("2024", RV::str("year")), ("a", RV::str("letter")), (" 1", RV::str("space"))]);
    let facts = RV::map(&[("list", list.clone()), ("by_id", digits.clone())]).to_value();
    // (a) a numeric step beyond the platform's index range addresses nothing: the text is not a
    // path at all (it must not wrap around to a small position)
    for d in ["18446744073709551616", "18446744073709551617", "18446744073709551618", "36893488147419103232", "340282366920938463463374607431768211456", "170141183460469231731687303715884105728"] {
        for text in [format!("list.{d}"), format!("by_id.{d}"), format!("facts.list.{d}")] {
            acc.count("executions", 1);
            if let Ok(Ok(e)) = super::common::parse_expr(&text) {
                let got = super::common::eval_expr(&e, &facts);
                acc.violation(Violation {
                    sig: format!("out-of-range-step/{}", got.class()),
                    what: format!("path `{text}` names a position no list has, yet it is accepted and resolves to {}", got.show()),
                    case: json!({"kind": "text-path", "text": text}),
                    size: text.len(),
                });
            }
            acc.outcome("out-of-range-step");
        }
    }
    // (b) a field step built through the API addresses the key with exactly that spelling,
    // whichever conversion produced the step (From<&str>, From<String>, Index::Map)
    for key in ["0", "1", "007", "+1", "2024", "a", " 1", "7", ""] {
        use reval::expr::Index;
        let steps: [(&str, Index); 3] = [("From<&str>", key.into()), ("From<String>", key.to_string().into()), ("Index::Map", Index::Map(key.to_string()))];
        for (how, step) in steps {
            for (root, rootv) in [("by_id", &digits), ("list", &list)] {
                acc.count("executions", 1);
                let e = Expr::index(Expr::reff(root), step.clone());
                let got = super::common::eval_expr(&e, &facts);
                let want: RRes = apply_index_field(rootv, key);
                if conforms(&want, &got) == Some(false) {
                    acc.violation(Violation {
                        sig: format!("api-field-step/{how}/{}", got.class()),
                        what: format!("field step {key:?} built with {how} on `{root}`: observed {}, the key with that spelling gives {}", got.show(), show_exp(&want)),
                        case: json!({"kind": "api-step", "key": key, "how": how, "root": root}),
                        size: key.len(),
                    });
                }
                acc.outcome("api-field-step");
            }
        }
        // and a positional step built from a number stays positional
        if let Ok(n) = key.parse::<usize>() {
            for (root, rootv) in [("by_id", &digits), ("list", &list)] {
                acc.count("executions", 1);
                let e = Expr::index(Expr::reff(root), n.into());
                let got = super::common::eval_expr(&e, &facts);
                let want: RRes = apply_index_pos(rootv, n);
                if conforms(&want, &got) == Some(false) {
                    acc.violation(Violation {
                        sig: format!("api-position-step/{}", got.class()),
                        what: format!("positional step {n} built with From<usize> on `{root}`: observed {}, expected {}", got.show(), show_exp(&want)),
                        case: json!({"kind": "api-step", "key": key, "how": "From<usize>", "root": root}),
                        size: key.len(),
                    });
                }
            }
        }
    }
}

pub fn run(tier: Tier) -> i32 {
    let mut rep = Report::new("C10", tier);
    let depth = tier.pick(3, 4);
    let tpls = templates(depth);
    let mut inputs: Vec<RV> = tpls
        .iter()
        .map(|t| {
            let mut n = 100;
            instantiate(t, &mut n)
        })
        .collect();
    // moderate size: a map with 12 keys whose values are 12-element lists of maps
    {
        let mut n = 50_000;
        let wide_list = Tpl::List((0..12).map(|_| Tpl::Map(vec![("a", Tpl::Leaf), ("A", Tpl::Leaf)])).collect());
        let keys = ["a", "A", "ab", "abc", "b", "facts", "k0", "k1", "k10", "k11", "k2", "z"];
        inputs.push(instantiate(&Tpl::Map(keys.iter().map(|k| (*k, wide_list.clone())).collect()), &mut n));
        inputs.push(instantiate(&Tpl::List((0..12).map(|_| wide_list.clone()).collect()), &mut n));
    }
    // maps whose keys are spelled like positions: a numeric step never addresses them
    {
        let mut n = 70_000;
        let digits = Tpl::Map(vec![("0", Tpl::Leaf), ("1", Tpl::Leaf), ("2", Tpl::Leaf), ("11", Tpl::Leaf), ("a", Tpl::Leaf), ("18446744073709551615", Tpl::Leaf)]);
        inputs.push(instantiate(&Tpl::Map(vec![("a", digits.clone()), ("A", Tpl::List(vec![digits.clone(), Tpl::Leaf])), ("0", Tpl::Leaf), ("1", Tpl::List(vec![Tpl::Leaf, Tpl::Leaf])), ("ab", Tpl::Map(vec![("0", digits.clone())]))]), &mut n));
    }
    inputs.push(RV::Str("scalar".into()));
    inputs.push(RV::Bool(true));
    let max_steps = 3;
    let ps = paths(max_steps);
    rep.bound("input_depth", depth);
    rep.bound("inputs", inputs.len());
    rep.bound("paths", ps.len());
    rep.bound("max_steps", max_steps);
    let symtabs = symbol_tables();
    let fval = function_value();
    rep.bound("symbol_tables", symtabs.len());

    // every path also parsed from its text: the parsed tree must be the built tree
    let mut acc0 = Acc::new();
    let parsed_ok: Vec<bool> = ps
        .par_iter()
        .map(|p| match p.unparse() {
            Some(text) => matches!(super::common::parse_expr(&text), Ok(Ok(e)) if RE::from_expr(&e) == *p),
            None => false,
        })
        .collect();
    let n_parsed = parsed_ok.iter().filter(|b| **b).count();
    acc0.count("paths_also_reached_by_parsing", n_parsed as u64);
    if n_parsed * 10 < ps.len() * 9 {
        acc0.machinery(format!("only {n_parsed} of {} path texts parse to the built tree", ps.len()));
    }
    rep.absorb(acc0);

    {
        let mut acc = Acc::new();
        special_steps_leg(&mut acc);
        rep.absorb(acc);
    }

    for (tname, syms) in &symtabs {
        // one ruleset holding every path as a rule
        let fv = fval.clone();
        let h: Handler = Arc::new(move |_, _| (Ok(fv.to_value()), 0));
        let mut b = ruleset();
        for (i, p) in ps.iter().enumerate() {
            b = match b.with_rule(Rule::new(format!("p{i}"), BTreeMap::new(), p.to_expr())) {
                Ok(b) => b,
                Err(e) => {
                    rep.acc.machinery(format!("with_rule: {e}"));
                    return rep.finish();
                }
            };
        }
        b = b.with_function(probe("f", true, &h)).expect("function f");
        // every symbol is first registered with a stale value through with_symbol and then
        // re-registered with its real value through one with_symbols batch (latest wins)
        let mut batch = Symbols::default();
        for (k, v) in syms {
            b = b.with_symbol(k, Value::String("stale".into()));
            batch.insert(k, v.to_value());
        }
        batch.insert("unrelated1", Value::Int(1));
        batch.insert("unrelated2", Value::Int(2));
        b = match b.with_symbols(batch) {
            Ok(b) => b,
            Err(e) => {
                rep.acc.machinery(format!("with_symbols: {e}"));
                return rep.finish();
            }
        };
        let rs = b.build();
        // symbol- and function-rooted paths do not depend on the input: check them against one input only
        let acc = inputs
            .par_iter()
            .enumerate()
            .map(|(ii, input)| {
                let mut acc = Acc::new();
                let facts = input.to_value();
                let out = match catch(|| block_on(rs.evaluate_value(&facts))) {
                    Ok(Ok(Ok(o))) => o,
                    other => {
                        acc.violation(Violation {
                            sig: "whole-evaluation".into(),
                            what: format!("evaluate_value on input {} did not return outcomes: {:?}", input.show(), other.map(|r| r.map(|x| x.map(|o| o.len()).map_err(|e| e.to_string())))),
                            case: json!({"kind": "input", "input": input.to_json()}),
                            size: 1,
                        });
                        return acc;
                    }
                };
                if out.len() != ps.len() {
                    acc.machinery(format!("{} outcomes for {} rules", out.len(), ps.len()));
                    return acc;
                }
                for (pi, (p, o)) in ps.iter().zip(out).enumerate() {
                    let input_independent = !matches!(root_of(p), RE::Ref(_));
                    if input_independent && ii != 0 {
                        continue;
                    }
                    let obs = observe(Ok(o.value));
                    let mut env = PathEnv { facts: input.clone(), syms: syms.clone(), fval: fval.clone() };
                    let exp = eval(p, &mut env);
                    acc.count("executions", 1);
                    acc.outcome(format!("{}:{}", root_label(p), obs.class()));
                    if conforms(&exp, &obs) == Some(false) {
                        let path_text = p.unparse().unwrap_or_else(|| format!("{p:?}"));
                        acc.violation(Violation {
                            sig: format!("{}/{}", path_shape(p), obs.class()),
                            what: format!("path `{path_text}` on input {} (symbols {tname}): observed {}, reference resolver gives {}", input.show(), obs.show(), show_exp(&exp)),
                            case: json!({"kind": "path", "path": pi, "input": input.to_json(), "symbols": tname}),
                            size: path_text.len() * 1000 + input.show().len(),
                        });
                    }
                }
                if ii % 97 == 3 {
                    acc.sample("input", 2, || json!(input.show()));
                }
                acc
            })
            .reduce(Acc::new, |a, b| a.merge(b));
        rep.absorb(acc);
    }
    rep.acc.sample("path", 3, || json!(ps[ps.len() / 3].unparse()));
    rep.states = inputs.len() as u64 * symtabs.len() as u64;
    rep.transitions = rep.acc.get("executions");
    rep.traces = rep.acc.get("executions");
    rep.rule = "product enumeration: every nested input built from templates to the stated depth (maps over key sets {}, {a}, {a,A}, {a,A,ab,facts}, lists of length 0..2, None, every leaf a distinct integer) plus scalar inputs x every access path (10 roots: fields incl. near-miss names, `facts`, symbols, function calls; <= 3 steps over 13 field/index steps incl. usize::MAX) x 3 symbol tables; each path is a rule of one ruleset, every outcome compared with the reference resolver; every path text also parsed and compared with the built tree".into();
    rep.assume("map templates use the same sub-template under every key (leaves still distinct), which keeps the input space polynomial");
    rep.finish()
}

fn root_of(p: &RE) -> &RE {
    match p {
        RE::IdxF(x, _) | RE::IdxN(x, _) => root_of(x),
        other => other,
    }
}

fn root_label(p: &RE) -> String {
    match root_of(p) {
        RE::Ref(n) => format!("ref:{n}"),
        RE::Sym(n) => format!("sym:{n}"),
        RE::Call(n, _) => format!("call:{n}"),
        _ => "other".into(),
    }
}

fn path_shape(p: &RE) -> String {
    match p {
        RE::IdxF(x, f) => format!("{}.{f}", path_shape(x)),
        RE::IdxN(x, n) => format!("{}.{}", path_shape(x), if *n == usize::MAX { "MAX".to_string() } else { n.to_string() }),
        other => root_label(other),
    }
}

pub fn replay(case: &serde_json::Value) -> i32 {
    if matches!(case.get("kind").and_then(|k| k.as_str()), Some("text-path") | Some("api-step")) {
        let mut acc = Acc::new();
        special_steps_leg(&mut acc);
        return if acc.violations.is_empty() {
            println!("verdict: holds");
            0
        } else {
            for v in acc.violations.values() {
                println!("verdict: VIOLATED — {}", v.what);
            }
            1
        };
    }
    let ps = paths(3);
    let pi = case.get("path").and_then(|p| p.as_u64()).unwrap_or(0) as usize;
    let input = case.get("input").and_then(RV::from_json).unwrap_or(RV::None);
    let tname = case.get("symbols").and_then(|s| s.as_str()).unwrap_or("empty");
    let syms = symbol_tables().into_iter().find(|(n, _)| *n == tname).map(|(_, s)| s).unwrap_or_default();
    let p = match ps.get(pi) {
        Some(p) => p,
        None => return 2,
    };
    let fval = function_value();
    let fv = fval.clone();
    let h: Handler = Arc::new(move |_, _| (Ok(fv.to_value()), 0));
    let mut b = ruleset().with_rule(Rule::new("p", BTreeMap::new(), p.to_expr())).unwrap().with_function(probe("f", true, &h)).unwrap();
    for (k, v) in &syms {
        b = b.with_symbol(k, v.to_value());
    }
    let rs = b.build();
    let obs = match catch(|| block_on(rs.evaluate_value(&input.to_value()))) {
        Ok(Ok(Ok(mut o))) if o.len() == 1 => observe(Ok(o.remove(0).value)),
        other => Obs::Panic(format!("{:?}", other.map(|r| r.map(|x| x.map(|o| o.len()).map_err(|e| e.to_string()))))),
    };
    let mut env = PathEnv { facts: input.clone(), syms, fval };
    let exp = eval(p, &mut env);
    println!("path     : {}", p.unparse().unwrap_or_default());
    println!("input    : {}", input.show());
    println!("reference: {}", show_exp(&exp));
    println!("observed : {}", obs.show());
    if conforms(&exp, &obs) == Some(false) {
        println!("verdict  : VIOLATED");
        1
    } else {
        println!("verdict  : holds");
        0
    }
}
