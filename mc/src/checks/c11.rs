//! C11 — user-function caching is transparent, per evaluation and per argument.
//! E1 over call histories: every sequence of calls (function x argument), every split over rules,
//! every success/failure choice at each *actual* invocation, several consecutive evaluations.
//! Each successful invocation returns a fresh token, so a reused result names its origin.
use super::probe::*;
use crate::engine::choice::{explore, SharedChooser, TreeStats};
use crate::engine::exec::block_on;
use crate::engine::panic::catch;
use crate::engine::report::{Acc, Report, Tier, Violation};
use crate::spec::eval::*;
use crate::spec::re::*;
use crate::spec::rv::*;
use rayon::prelude::*;
use reval::prelude::*;
use serde_json::json;
use std::collections::BTreeMap;
use std::sync::{Arc, Mutex};

const FUNCS: [(&str, bool); 7] = [("c1", true), ("c2", true), ("n1", false), ("mc", true), ("mn", false), ("cz", true), ("nz", false)];
/// the functions of the classic legs (the last two return containers and are used by the embedding leg)
const CLASSIC: usize = 3;

/// how a call is embedded in its rule (embedding leg)
const WRAPS: [&str; 10] = ["bare", ".k", ".l.0", ".zz", "is_some", "[..]", "{x: ..}", "if true", "== i0", ".k + i1"];

fn wrap(w: usize, call: RE) -> RE {
    match w {
        1 => RE::idxf(call, "k"),
        2 => RE::idxn(RE::idxf(call, "l"), 0),
        3 => RE::idxf(call, "zz"),
        4 => RE::un(UnOp::IsSome, call),
        5 => RE::List(vec![call]),
        6 => RE::Map([("x".to_string(), call)].into_iter().collect()),
        7 => RE::iff(RE::Val(RV::Bool(true)), call, RE::Val(RV::Int(0))),
        8 => RE::bin(BinOp::Eq, call, RE::Val(RV::Int(0))),
        9 => RE::bin(BinOp::Add, RE::idxf(call, "k"), RE::Val(RV::Int(1))),
        _ => call,
    }
}

/// what an invocation returns: a fresh token, wrapped in a container for the m-functions
fn result_value(name: &str, t: u64) -> RV {
    if name.starts_with('m') {
        RV::map(&[("k", token_value(t)), ("l", RV::List(vec![token_value(t)]))])
    } else if name.ends_with('z') {
        // functions whose successful result is `none` (a cached none is still a cached result)
        RV::None
    } else {
        token_value(t)
    }
}

fn dec(mant: u128, scale: u32) -> RV {
    RV::Dec(RDec { neg: false, mant, scale })
}

/// argument expressions (as reference trees); index = alphabet symbol
fn args(_tier: Tier) -> Vec<RE> {
    let mut v = vec![
        RE::Val(RV::Int(1)),
        RE::Val(RV::str("1")),
        RE::Val(RV::str("i1")),
        RE::List(vec![RE::Val(RV::Int(1))]),
        RE::Val(dec(1, 0)),
        RE::Val(dec(10, 1)),
        RE::Val(RV::float(0.0)),
        RE::Val(RV::float(-0.0)),
    ];
    {
        v.push(RE::Val(RV::float(1.0)));
        v.push(RE::Val(RV::None));
        v.push(RE::Map([("a".to_string(), RE::Val(RV::Int(1)))].into_iter().collect()));
        v.push(RE::call("c1", RE::Val(RV::Int(1)))); // nested call as argument
        // arguments taken from the input: two different maps whose keys are chosen so that a
        // rendering without quoting would coincide
        v.push(RE::reff("m1"));
        v.push(RE::reff("m2"));
        // dates and durations that differ only below the millisecond, alone and inside a list
        v.push(RE::reff("t1"));
        v.push(RE::reff("t2"));
        v.push(RE::reff("u1"));
        v.push(RE::reff("u2"));
        v.push(RE::List(vec![RE::reff("t1"), RE::reff("u1")]));
        v.push(RE::List(vec![RE::reff("t2"), RE::reff("u2")]));
    }
    v
}


#[derive(Default)]
struct World {
    chooser: Option<SharedChooser>,
    /// global invocation counter = token source
    next: u64,
    log: Vec<(String, RV, bool)>,
}

fn facts_rv() -> RV {
    RV::map(&[
        ("m1", RV::map(&[("a", RV::Int(1)), ("b", RV::Int(2))])),
        ("m2", RV::map(&[("a: i1, b", RV::Int(2))])),
        ("t1", RV::Dt(951_825_600, 123_000_000)),
        ("t2", RV::Dt(951_825_600, 123_000_001)),
        ("u1", RV::Dur(1_500_000_000)),
        ("u2", RV::Dur(1_500_000_999)),
    ])
}

fn facts_value() -> Value {
    facts_rv().to_value()
}

fn token_value(t: u64) -> RV {
    RV::Int(1000 + t as i128)
}

fn handler(world: &Arc<Mutex<World>>) -> Handler {
    let w = world.clone();
    Arc::new(move |name, param| {
        let mut g = w.lock().unwrap();
        let t = g.next;
        g.next += 1;
        let fail = match &g.chooser {
            Some(c) => c.lock().unwrap().choose(2) == 1,
            None => false,
        };
        g.log.push((name.to_string(), RV::from_value(&param), fail));
        if fail && t % 2 == 1 {
            // the failure of a user function that itself evaluated an inner ruleset and propagated
            // its outcome with `?`: a reval error naming the *inner* function
            let inner = reval::Error::UserFunctionError { function: format!("inner#{t}"), error: anyhow::anyhow!("inner failure") };
            (Err(anyhow::Error::new(inner)), 0)
        } else if fail {
            (Err(anyhow::Error::new(Injected(t))), 0)
        } else {
            (Ok(result_value(name, t).to_value()), 0)
        }
    })
}

/// reference cache model (one per evaluation)
struct CacheEnv<'a> {
    facts: RV,
    cache: BTreeMap<(String, RV), RV>,
    next: &'a mut u64,
    script: &'a [bool],
    pos: &'a mut usize,
    log: Vec<(String, RV)>,
    overrun: &'a mut bool,
}

impl Env for CacheEnv<'_> {
    fn facts(&self) -> &RV {
        &self.facts
    }
    fn symbol(&self, _: &str) -> Option<RV> {
        None
    }
    fn call(&mut self, name: &str, arg: &RV) -> RRes {
        let cacheable = match FUNCS.iter().find(|(n, _)| *n == name) {
            Some((_, c)) => *c,
            None => return Err(RErr::UnknownUserFunction(name.to_string())),
        };
        let key = (name.to_string(), arg.clone());
        if cacheable {
            if let Some(v) = self.cache.get(&key) {
                return Ok(v.clone());
            }
        }
        // actual invocation
        let t = *self.next;
        *self.next += 1;
        self.log.push(key.clone());
        let fail = match self.script.get(*self.pos) {
            Some(f) => *f,
            None => {
                *self.overrun = true;
                false
            }
        };
        *self.pos += 1;
        if fail {
            Err(RErr::UserFunctionError(name.to_string(), t))
        } else {
            let v = result_value(name, t);
            if cacheable {
                self.cache.insert(key, v.clone());
            }
            Ok(v)
        }
    }
}

/// all ways to cut a sequence of n calls into 1..=3 consecutive non-empty groups
fn splits(n: usize) -> Vec<Vec<usize>> {
    let mut out = Vec::new();
    if n == 0 {
        return vec![vec![]];
    }
    out.push(vec![n]);
    for a in 1..n {
        out.push(vec![a, n - a]);
        for b in 1..(n - a) {
            out.push(vec![a, b, n - a - b]);
        }
    }
    out
}

struct Case {
    calls: Vec<(usize, usize)>, // (function index, argument index)
    split: Vec<usize>,
    /// embedding of each call (index into WRAPS); empty = all bare
    wraps: Vec<usize>,
}

fn build_case(case: &Case, argv: &[RE], world: &Arc<Mutex<World>>) -> Result<(RuleSet, Vec<RE>), String> {
    let h = handler(world);
    let mut b = ruleset();
    let mut trees = Vec::new();
    let mut k = 0;
    for (ri, len) in case.split.iter().enumerate() {
        let items: Vec<RE> = case.calls[k..k + len].iter().enumerate().map(|(j, (f, a))| wrap(case.wraps.get(k + j).copied().unwrap_or(0), RE::call(FUNCS[*f].0, argv[*a].clone()))).collect();
        k += len;
        let tree = RE::List(items);
        let expr = tree.try_to_expr().map_err(|p| format!("constructor panicked: {p}"))?;
        b = b.with_rule(Rule::new(format!("r{ri}"), BTreeMap::new(), expr)).map_err(|e| e.to_string())?;
        trees.push(tree);
    }
    // c1 through with_function, c2 and n1 through the boxed entry point with_functions
    b = b.with_function(probe(FUNCS[0].0, FUNCS[0].1, &h)).map_err(|e| e.to_string())?;
    let boxed: Vec<Box<dyn UserFunction + Send + Sync + 'static>> = FUNCS[1..].iter().map(|(n, c)| Box::new(probe(n, *c, &h)) as Box<dyn UserFunction + Send + Sync + 'static>).collect();
    b = b.with_functions(boxed).map_err(|e| e.to_string())?;
    Ok((b.build(), trees))
}

fn label(case: &Case, argv: &[RE]) -> String {
    let mut parts = Vec::new();
    let mut k = 0;
    for len in &case.split {
        let items: Vec<String> = case.calls[k..k + len]
            .iter()
            .enumerate()
            .map(|(j, (f, a))| {
                let w = case.wraps.get(k + j).copied().unwrap_or(0);
                format!("{}({}){}", FUNCS[*f].0, argv[*a].unparse().unwrap_or_default(), if w == 0 { String::new() } else { format!("<{}>", WRAPS[w]) })
            })
            .collect();
        k += len;
        parts.push(format!("[{}]", items.join(", ")));
    }
    parts.join(" ; ")
}

fn check_case(case: &Case, argv: &[RE], evaluations: usize, dev: Option<u32>, acc: &mut Acc) -> TreeStats {
    let world = Arc::new(Mutex::new(World::default()));
    let (rs, trees) = match build_case(case, argv, &world) {
        Ok(x) => x,
        Err(m) => {
            acc.machinery(m);
            return TreeStats::default();
        }
    };
    let lbl = label(case, argv);
    let res = explore(&[], dev, 5_000_000, |ch, _| {
        {
            let mut g = world.lock().unwrap();
            g.chooser = Some(ch.clone());
            g.next = 0;
            g.log.clear();
        }
        // run the evaluations one after another on the same ruleset
        let mut observed: Vec<Result<Vec<Obs>, String>> = Vec::new();
        for _ in 0..evaluations {
            let r = catch(|| block_on(rs.evaluate_value(&facts_value())));
            observed.push(match r {
                Err(p) => Err(format!("PANIC: {p}")),
                Ok(Err(m)) => Err(format!("MACHINERY: {m}")),
                Ok(Ok(Err(e))) => Err(format!("evaluate_value failed: {e}")),
                Ok(Ok(Ok(out))) => Ok(out.into_iter().map(|o| observe(Ok(o.value))).collect()),
            });
        }
        let log = {
            let mut g = world.lock().unwrap();
            g.chooser = None;
            std::mem::take(&mut g.log)
        };
        acc.count("executions", 1);
        acc.outcome(format!("invocations={} failures={}", log.len(), log.iter().filter(|l| l.2).count()));
        // reference
        let script: Vec<bool> = log.iter().map(|l| l.2).collect();
        let mut next = 0u64;
        let mut pos = 0usize;
        let mut overrun = false;
        let mut ref_log: Vec<(String, RV)> = Vec::new();
        let mut problem: Option<(String, String)> = None;
        'outer: for (ei, ob) in observed.iter().enumerate() {
            let mut env = CacheEnv { facts: facts_rv(), cache: BTreeMap::new(), next: &mut next, script: &script, pos: &mut pos, log: Vec::new(), overrun: &mut overrun };
            let obs = match ob {
                Ok(o) => o,
                Err(m) => {
                    problem = Some(("crash".into(), m.clone()));
                    break;
                }
            };
            if obs.len() != trees.len() {
                problem = Some(("count".into(), format!("{} outcomes for {} rules", obs.len(), trees.len())));
                break;
            }
            for (ri, t) in trees.iter().enumerate() {
                let exp = eval(t, &mut env);
                if conforms(&exp, &obs[ri]) == Some(false) {
                    problem = Some((
                        "value".into(),
                        format!("evaluation {ei}, rule {ri}: observed {}, cache model predicts {}", obs[ri].show(), show_exp(&exp)),
                    ));
                    ref_log.extend(env.log.drain(..));
                    break 'outer;
                }
            }
            ref_log.extend(env.log.drain(..));
        }
        if problem.is_none() {
            let got: Vec<(String, RV)> = log.iter().map(|l| (l.0.clone(), l.1.clone())).collect();
            if overrun || got != ref_log {
                let f = |l: &[(String, RV)]| l.iter().map(|(n, a)| format!("{n}({})", a.show())).collect::<Vec<_>>().join(" ");
                problem = Some(("invocations".into(), format!("invocations [{}], cache model predicts [{}]", f(&got), f(&ref_log))));
            }
        }
        if let Some((which, desc)) = problem {
            acc.violation(Violation {
                sig: format!("{lbl}/{which}"),
                what: format!("rules {lbl}, failure pattern {:?}, {evaluations} evaluations: {desc}", script),
                case: json!({"kind": "history", "calls": case.calls, "split": case.split, "wraps": case.wraps, "evaluations": evaluations}),
                size: case.calls.len() * 100 + case.split.len() * 10 + script.iter().filter(|b| **b).count(),
            });
        }
    });
    acc.sample("history", 4, || json!({"rules": lbl, "evaluations": evaluations}));
    match res {
        Ok(s) => s,
        Err((s, m)) => {
            acc.machinery(format!("{lbl}: {m}"));
            s
        }
    }
}

fn cases(n_args: usize, max_len: usize) -> Vec<Case> {
    let alphabet: Vec<(usize, usize)> = (0..CLASSIC).flat_map(|f| (0..n_args).map(move |a| (f, a))).collect();
    let mut seqs: Vec<Vec<(usize, usize)>> = vec![vec![]];
    let mut frontier = seqs.clone();
    for _ in 0..max_len {
        let mut next = Vec::new();
        for s in &frontier {
            for c in &alphabet {
                let mut t = s.clone();
                t.push(*c);
                next.push(t);
            }
        }
        seqs.extend(next.iter().cloned());
        frontier = next;
    }
    let mut out = Vec::new();
    for s in seqs {
        for sp in splits(s.len()) {
            out.push(Case { calls: s.clone(), split: sp, wraps: vec![] });
        }
    }
    out
}

const SCRIPT_SHAPES: usize = 3;

fn script_shape(si: usize) -> (&'static str, Vec<i128>) {
    match si {
        0 => ("[t(i1), t(i1), t(i2), t(i1)]", vec![1, 1, 2, 1]),
        1 => ("[t(i1), t(t(i1).0)]", vec![]),
        _ => ("[t(i1).0, t(i1).0]", vec![1, 1]),
    }
}

/// one run of the `cacheable()`-script leg
fn run_script(si: usize, script: &[bool], acc: &mut Acc) {
    use std::sync::atomic::{AtomicUsize, Ordering};
    let (text, arg_seq) = script_shape(si);
    let arg_seq = &arg_seq;
    let script: Vec<bool> = script.to_vec();
    let script = &script;
    let queries = Arc::new(AtomicUsize::new(0));
    let log: Arc<Mutex<Vec<(RV, i128)>>> = Arc::new(Mutex::new(Vec::new()));
    let l2 = log.clone();
    let h: Handler = Arc::new(move |_name, p| {
        let mut g = l2.lock().unwrap();
        let tok = 1000 + g.len() as i128;
        g.push((RV::from_value(&p), tok));
        // shapes 1 and 2 index the result
        (Ok(if si == 0 { Value::Int(tok) } else { Value::Vec(vec![Value::Int(tok)]) }), 0)
    });
    let mut t = probe("t", true, &h);
    let (sc, q) = (script.clone(), queries.clone());
    t.cacheable_script = Some(Arc::new(move || {
        let i = q.fetch_add(1, Ordering::SeqCst);
        *sc.get(i).unwrap_or(sc.last().unwrap())
    }));
    let rs = match ruleset().with_rule(Rule::new("r", BTreeMap::new(), Expr::parse(text).unwrap())).and_then(|b| b.with_function(t)) {
        Ok(b) => b.build(),
        Err(e) => {
            acc.machinery(format!("script leg: {e}"));
            return;
        }
    };
    acc.count("executions", 1);
    acc.count("cacheable_script_runs", 1);
    let res = catch(|| block_on(rs.evaluate_value(&Value::None)).map(|r| r.map(|o| o.into_iter().map(|x| x.value.map_err(|e| e.to_string())).collect::<Vec<_>>()).map_err(|e| e.to_string())));
    let calls = log.lock().unwrap().clone();
    let problem: Option<String> = match res {
        Err(p) => Some(format!("panic: {p}")),
        Ok(Err(m)) => Some(format!("machinery: {m}")),
        Ok(Ok(Err(e))) => Some(format!("evaluation failed: {e}")),
        Ok(Ok(Ok(vals))) => match vals.first() {
            Some(Ok(Value::Vec(items))) => {
                let mut bad = None;
                if !arg_seq.is_empty() {
                    for (i, (item, arg)) in items.iter().zip(arg_seq.iter()).enumerate() {
                        let ok = calls.iter().any(|(a, tok)| *a == RV::Int(*arg) && Value::Int(*tok) == *item);
                        if !ok {
                            bad = Some(format!("item {i} = {item:?} is not the result of an invocation for argument i{arg} (invocations {calls:?})"));
                        }
                    }
                    let distinct: std::collections::BTreeSet<i128> = arg_seq.iter().cloned().collect();
                    if calls.len() < distinct.len() || calls.len() > arg_seq.len() {
                        bad = Some(format!("{} invocations for {} calls over {} distinct arguments", calls.len(), arg_seq.len(), distinct.len()));
                    }
                }
                bad
            }
            other => Some(format!("outcome {other:?}")),
        },
    };
    acc.outcome(format!("script-shape{si}:invocations={}", calls.len()));
    if let Some(desc) = problem {
        acc.violation(Violation {
            sig: format!("cacheable-script/{si}/{}", desc.split(':').next().unwrap_or("")),
            what: format!("rule `{text}`, cacheable() answers {script:?} (last repeated): {desc}"),
            case: json!({"kind": "cacheable-script", "shape": si, "script": script}),
            size: script.len(),
        });
    }
}

/// zero-sized function types: every sequence of <= 4 calls over three unit-struct functions and two
/// arguments; each call yields its own function's result, cacheable ones are invoked once per
/// argument, the non-cacheable one on every call.  (One process-wide counter set: run serially.)
pub fn zst_leg() -> (Acc, u64) {
    use super::probe::zst;
    let mut acc = Acc::new();
    let names = ["zd", "zt", "zn"];
    let args = [7i128, 8];
    let alphabet: Vec<(usize, usize)> = (0..3).flat_map(|f| (0..2).map(move |a| (f, a))).collect();
    let mut seqs: Vec<Vec<(usize, usize)>> = Vec::new();
    let mut frontier: Vec<Vec<(usize, usize)>> = vec![vec![]];
    for _ in 0..4 {
        let mut next = Vec::new();
        for s in &frontier {
            for c in &alphabet {
                let mut t = s.clone();
                t.push(*c);
                next.push(t);
            }
        }
        seqs.extend(next.iter().cloned());
        frontier = next;
    }
    let n = seqs.len() as u64;
    for calls in &seqs {
        for both_orders in [false, true] {
            acc.count("executions", 1);
            let text = format!("[{}]", calls.iter().map(|(f, a)| format!("{}(i{})", names[*f], args[*a])).collect::<Vec<_>>().join(", "));
            let b = ruleset().with_rule(Rule::new("r", BTreeMap::new(), Expr::parse(&text).unwrap()));
            let b = if both_orders {
                b.and_then(|b| b.with_function(zst::ZNegate)).and_then(|b| b.with_function(zst::ZTriple)).and_then(|b| b.with_function(zst::ZDouble))
            } else {
                b.and_then(|b| b.with_function(zst::ZDouble)).and_then(|b| b.with_functions(vec![Box::new(zst::ZTriple) as Box<dyn UserFunction + Send + Sync>, Box::new(zst::ZNegate)]))
            };
            let rs = match b {
                Ok(b) => b.build(),
                Err(e) => {
                    acc.machinery(format!("zst leg: {e}"));
                    continue;
                }
            };
            zst::reset();
            let got = catch(|| block_on(rs.evaluate_value(&Value::None)));
            let made = zst::calls();
            let want: Vec<Value> = calls.iter().map(|(f, a)| Value::Int(match f { 0 => args[*a] * 2, 1 => args[*a] * 3, _ => -args[*a] })).collect();
            let mut want_calls = [0usize; 3];
            for f in 0..2 {
                want_calls[f] = (0..2).filter(|a| calls.contains(&(f, *a))).count();
            }
            want_calls[2] = calls.iter().filter(|c| c.0 == 2).count();
            let ok = matches!(&got, Ok(Ok(Ok(o))) if o.len() == 1 && matches!(&o[0].value, Ok(Value::Vec(items)) if *items == want));
            if !ok || made != want_calls {
                acc.violation(Violation {
                    sig: format!("zero-sized-functions/{}", if ok { "invocations" } else { "result" }),
                    what: format!(
                        "rule {text} with zero-sized function types zd (x2), zt (x3), zn (negate, not cacheable): result {:?}, invocations {made:?}; expected {want:?}, invocations {want_calls:?}",
                        got.as_ref().map(|r| r.as_ref().map(|x| x.as_ref().map(|o| o.iter().map(|y| y.value.as_ref().map_err(|e| e.to_string()).cloned()).collect::<Vec<_>>()).map_err(|e| e.to_string())))
                    ),
                    case: json!({"kind": "zero-sized-functions"}),
                    size: text.len(),
                });
            }
            acc.outcome("zero-sized-functions");
        }
    }
    (acc, n)
}


/// textually identical calls as the operands of one node: a non-cacheable function is invoked for
/// every one of them, a cacheable one once
fn identical_operands_leg() -> (Acc, u64) {
    use std::sync::atomic::{AtomicU64, Ordering};
    let mut acc = Acc::new();
    let texts: [(&str, u64); 12] = [
        ("F(i1) and F(i1)", 2),
        ("!F(i1) or !F(i1)", 2),
        ("F(i1) == F(i1)", 2),
        ("F(i1) != F(i1)", 2),
        ("[F(i1), F(i1)]", 2),
        ("{a: F(i1), b: F(i1)}", 2),
        ("if F(i1) then F(i1) else F(i1)", 2),
        ("F(i1) and F(i1) and F(i1)", 3),
        ("F(i1) & F(i1)", 2),
        ("F(i1) | F(i1)", 2),
        ("[F(i1)] contains F(i1)", 2),
        ("(F(i1) and F(i1)) == (F(i1) and F(i1))", 4),
    ];
    let mut n = 0;
    for (tmpl, calls) in texts {
        for (fname, cacheable) in [("yes", false), ("cyes", true)] {
            let text = tmpl.replace('F', fname);
            let count = Arc::new(AtomicU64::new(0));
            let c2 = count.clone();
            let h: Handler = Arc::new(move |_n, _p| {
                c2.fetch_add(1, Ordering::SeqCst);
                (Ok(Value::Bool(true)), 0)
            });
            let rs = Expr::parse(&text)
                .map_err(|e| e.to_string())
                .and_then(|e| ruleset().with_rule(Rule::new("r", BTreeMap::new(), e)).and_then(|b| b.with_function(probe(if cacheable { "cyes" } else { "yes" }, cacheable, &h))).map_err(|e| e.to_string()));
            let rs = match rs {
                Ok(b) => b.build(),
                Err(m) => {
                    acc.machinery(format!("identical-operands leg: {text}: {m}"));
                    continue;
                }
            };
            n += 1;
            acc.count("executions", 1);
            let out = catch(|| block_on(rs.evaluate_value(&Value::None)));
            let made = count.load(Ordering::SeqCst);
            let want = if cacheable { 1 } else { calls };
            let fine = matches!(&out, Ok(Ok(Ok(o))) if o.len() == 1 && o[0].value.is_ok());
            if !fine || made != want {
                acc.violation(Violation {
                    sig: format!("identical-operands/{}", if cacheable { "cacheable" } else { "non-cacheable" }),
                    what: format!("`{text}` with a {} function that returns true: {made} invocation(s), expected {want}; outcome {:?}", if cacheable { "cacheable" } else { "non-cacheable" }, out.map(|r| r.map(|x| x.map(|o| o.iter().map(|y| y.value.as_ref().map(|v| v.to_string()).map_err(|e| e.to_string())).collect::<Vec<_>>()).map_err(|e| e.to_string())))),
                    case: json!({"kind": "identical-operands"}),
                    size: text.len(),
                });
            }
            acc.outcome("identical-operands");
        }
    }
    (acc, n)
}

/// see the comment at the call site
fn nan_leg() -> (Acc, u64) {
    fn bits_of(v: &Value) -> Value {
        match v {
            Value::Float(f) => Value::Int(f.to_bits() as i128),
            Value::Vec(items) => Value::Vec(items.iter().map(bits_of).collect()),
            other => other.clone(),
        }
    }
    let arg_texts = ["q1", "q2", "q3", "[q1]", "[q3]", "[q1, q3]", "[q3, q1]", "z1", "z2"];
    let facts = Value::Map(
        [("q1", 0x7ff8_0000_0000_0000u64), ("q2", 0x7ff8_0000_0000_0001), ("q3", 0xfff8_0000_0000_0000), ("z1", 0), ("z2", 0x8000_0000_0000_0000)]
            .into_iter()
            .map(|(k, b)| (k.to_string(), Value::Float(f64::from_bits(b))))
            .collect(),
    );
    let alphabet: Vec<(usize, usize)> = (0..2usize).flat_map(|f| (0..arg_texts.len()).map(move |a| (f, a))).collect();
    let mut seqs: Vec<Vec<(usize, usize)>> = Vec::new();
    let mut frontier: Vec<Vec<(usize, usize)>> = vec![vec![]];
    for len in 0..3 {
        let mut next = Vec::new();
        for s in &frontier {
            for c in &alphabet {
                if len == 2 && c.0 != s[0].0 {
                    continue;
                }
                let mut t = s.clone();
                t.push(*c);
                next.push(t);
            }
        }
        seqs.extend(next.iter().cloned());
        frontier = next;
    }
    let cases: Vec<(Vec<(usize, usize)>, Vec<usize>)> = seqs.iter().flat_map(|s| splits(s.len()).into_iter().map(move |sp| (s.clone(), sp))).collect();
    let n = cases.len() as u64;
    let acc = cases
        .par_iter()
        .map(|(calls, split)| {
            let mut acc = Acc::new();
            acc.count("executions", 1);
            let log: Arc<Mutex<Vec<(String, Value)>>> = Arc::new(Mutex::new(Vec::new()));
            let l2 = log.clone();
            let h: Handler = Arc::new(move |name, p| {
                let b = bits_of(&p);
                l2.lock().unwrap().push((name.to_string(), b.clone()));
                (Ok(b), 0)
            });
            let names = ["b1", "b2"];
            let mut b = ruleset();
            let mut k = 0;
            let mut texts = Vec::new();
            for (ri, len) in split.iter().enumerate() {
                let items: Vec<String> = calls[k..k + len].iter().map(|(f, a)| format!("{}({})", names[*f], arg_texts[*a])).collect();
                k += len;
                let text = format!("[{}]", items.join(", "));
                b = match Expr::parse(&text).map_err(|e| e.to_string()).and_then(|e| b.with_rule(Rule::new(format!("r{ri}"), BTreeMap::new(), e)).map_err(|e| e.to_string())) {
                    Ok(b) => b,
                    Err(m) => {
                        acc.machinery(format!("nan leg: {m}"));
                        return acc;
                    }
                };
                texts.push(text);
            }
            let rs = match b.with_function(probe("b1", true, &h)).and_then(|b| b.with_function(probe("b2", true, &h))) {
                Ok(b) => b.build(),
                Err(e) => {
                    acc.machinery(format!("nan leg: {e}"));
                    return acc;
                }
            };
            let out = catch(|| block_on(rs.evaluate_value(&facts)));
            let got: Vec<Value> = match out {
                Ok(Ok(Ok(o))) => o.into_iter().flat_map(|x| match x.value {
                    Ok(Value::Vec(items)) => items,
                    other => vec![Value::String(format!("{other:?}"))],
                })
                .collect(),
                other => vec![Value::String(format!("{:?}", other.map(|r| r.map(|x| x.map(|o| o.len()).map_err(|e| e.to_string()))))); calls.len().max(1)],
            };
            // expected: the bits of each call's own argument
            let arg_value = |a: usize| -> Value {
                let lookup = |n: &str| match &facts {
                    Value::Map(m) => m.get(n).cloned().unwrap_or(Value::None),
                    _ => Value::None,
                };
                let t = arg_texts[a];
                if let Some(inner) = t.strip_prefix('[') {
                    Value::Vec(inner.trim_end_matches(']').split(", ").map(lookup).collect())
                } else {
                    lookup(t)
                }
            };
            let want: Vec<Value> = calls.iter().map(|(_, a)| bits_of(&arg_value(*a))).collect();
            let distinct: std::collections::BTreeSet<(usize, String)> = calls.iter().map(|(f, a)| (*f, format!("{:?}", bits_of(&arg_value(*a))))).collect();
            let invoked = log.lock().unwrap().len();
            let label = texts.join(" ; ");
            if got != want {
                acc.violation(Violation {
                    sig: format!("nan-argument/result/{}", calls.len()),
                    what: format!("rules {label} with q1/q2/q3 = NaNs of different sign / payload: results {got:?}, each call's own argument gives {want:?}"),
                    case: json!({"kind": "nan-arguments"}),
                    size: label.len(),
                });
            } else if invoked != distinct.len() {
                acc.violation(Violation {
                    sig: format!("nan-argument/invocations/{}", calls.len()),
                    what: format!("rules {label}: {invoked} invocations for {} distinct (function, argument bits) pairs", distinct.len()),
                    case: json!({"kind": "nan-arguments"}),
                    size: label.len(),
                });
            }
            acc.outcome(format!("nan-arguments:invocations={invoked}"));
            acc
        })
        .reduce(Acc::new, |a, b| a.merge(b));
    (acc, n)
}

/// every `cacheable()` answer script up to the tier's length, over the rule shapes; with
/// `only_panics` the violations other than panics are dropped (used by C01)
pub fn script_leg(tier: Tier, only_panics: bool) -> (Acc, usize) {
    let mut scripts: Vec<Vec<bool>> = Vec::new();
    for len in 1..=tier.pick(8usize, 12usize) {
        for bits in 0..(1u32 << len) {
            scripts.push((0..len).map(|i| bits >> i & 1 == 1).collect());
        }
    }
    let mut acc = scripts
        .par_iter()
        .map(|script| {
            let mut acc = Acc::new();
            for si in 0..SCRIPT_SHAPES {
                run_script(si, script, &mut acc);
            }
            acc
        })
        .reduce(Acc::new, |a, b| a.merge(b));
    if only_panics {
        acc.violations.retain(|_, v| v.what.contains("panic: "));
    }
    (acc, scripts.len())
}

pub fn run(tier: Tier) -> i32 {
    let mut rep = Report::new("C11", tier);
    let argv = args(Tier::Thorough);
    // legs: (arguments used, call-sequence lengths, consecutive evaluations, bound on failing invocations)
    let legs: Vec<(usize, std::ops::RangeInclusive<usize>, usize, Option<u32>)> = match tier {
        Tier::Quick => vec![(8, 0..=3, 2, None), (20, 2..=2, 1, None)],
        Tier::Thorough => vec![(20, 0..=3, 2, None), (8, 0..=3, 3, None), (6, 4..=4, 2, Some(2))],
    };
    rep.bound("functions", "c1, c2 (cacheable), n1 (not cacheable)");
    rep.bound("arguments", argv.iter().map(|a| a.unparse().unwrap_or_default()).collect::<Vec<_>>());
    rep.bound(
        "legs",
        legs.iter()
            .map(|(a, l, e, d)| format!("first {a} arguments, {}..{} calls, {e} consecutive evaluations, failing invocations {}", l.start(), l.end(), d.map(|d| format!("<= {d}")).unwrap_or("unbounded".into())))
            .collect::<Vec<_>>(),
    );
    let mut stats = TreeStats::default();
    let mut n_cases = 0u64;
    for (n_args, lens, evaluations, dev) in legs {
        let cs: Vec<Case> = cases(n_args, *lens.end()).into_iter().filter(|c| lens.contains(&c.calls.len())).collect();
        n_cases += cs.len() as u64;
        let (acc, st) = cs
            .par_iter()
            .map(|c| {
                let mut acc = Acc::new();
                let st = check_case(c, &argv, evaluations, dev, &mut acc);
                (acc, st)
            })
            .reduce(
                || (Acc::new(), TreeStats::default()),
                |(a, mut sa), (b, sb)| {
                    sa.add(&sb);
                    (a.merge(b), sa)
                },
            );
        rep.absorb(acc);
        stats.add(&st);
    }
    // moderate size: 40 distinct arguments in one rule, the same 40 again in a second rule, and a
    // third rule mixing old and new ones; deterministic single history per failure-free run
    {
        let mut big: Vec<RE> = (0..40).map(|i| RE::Val(RV::Int(100 + i))).collect();
        big.extend((0..10).map(|i| RE::Val(RV::Str(format!("s{i}")))));
        let argv_big: Vec<RE> = big;
        let n = argv_big.len();
        let mut calls: Vec<(usize, usize)> = (0..n).map(|a| (0usize, a)).collect();
        calls.extend((0..n).map(|a| (0usize, a)));
        calls.extend((0..n).rev().map(|a| (a % 2, a)));
        let case = Case { calls, split: vec![n, n, n], wraps: vec![] };
        let mut acc = Acc::new();
        let st = check_case(&case, &argv_big, 2, Some(0), &mut acc);
        acc.count("wide_histories", 1);
        rep.absorb(acc);
        stats.add(&st);
        n_cases += 1;
    }
    // embedding leg: container-returning functions (one cacheable, one not) whose calls sit directly
    // under an index step, a built-in, a constructor, a conditional or an operator; every sequence
    // of (function, argument, embedding) up to the bound, every split, every failure choice
    {
        let m_args: Vec<usize> = vec![0, 1, 12]; // i1, "1", m1
        let alphabet: Vec<(usize, usize, usize)> = (CLASSIC..CLASSIC + 2).flat_map(|f| m_args.iter().flat_map(move |a| (0..WRAPS.len()).map(move |w| (f, *a, w)))).collect();
        let max_len = tier.pick(2usize, 3usize);
        let mut seqs: Vec<Vec<(usize, usize, usize)>> = vec![vec![]];
        let mut frontier = seqs.clone();
        for len in 0..max_len {
            let mut next = Vec::new();
            for s in &frontier {
                for c in &alphabet {
                    // length 3 (thorough): same function and argument throughout, embeddings free
                    if len >= 2 && (s[0].0 != c.0 || s[0].1 != c.1) {
                        continue;
                    }
                    let mut t = s.clone();
                    t.push(*c);
                    next.push(t);
                }
            }
            seqs.extend(next.iter().cloned());
            frontier = next;
        }
        let mut cs: Vec<Case> = Vec::new();
        for s in &seqs {
            for sp in splits(s.len()) {
                cs.push(Case { calls: s.iter().map(|c| (c.0, c.1)).collect(), split: sp, wraps: s.iter().map(|c| c.2).collect() });
            }
        }
        n_cases += cs.len() as u64;
        rep.bound("embedding_leg", format!("functions mc (cacheable) / mn (not) returning {{k: token, l: [token]}}, 3 arguments, embeddings {:?}, sequences up to {max_len}, all splits, 2 evaluations", WRAPS));
        let (acc, st) = cs
            .par_iter()
            .map(|c| {
                let mut acc = Acc::new();
                let st = check_case(c, &argv, 2, Some(1), &mut acc);
                acc.count("embedded_histories", 1);
                (acc, st)
            })
            .reduce(
                || (Acc::new(), TreeStats::default()),
                |(a, mut sa), (b, sb)| {
                    sa.add(&sb);
                    (a.merge(b), sa)
                },
            );
        rep.absorb(acc);
        stats.add(&st);
    }
    // NaN arguments that differ in sign / payload are different arguments (a function can tell them
    // apart).  The reference value type of this harness deliberately ignores NaN payloads, so this
    // leg has its own oracle: two pure cacheable functions return the bit pattern(s) of their
    // argument; every sequence of <= 3 calls over three NaNs, lists of them and f0.0 / f-0.0, all
    // splits over rules: every call yields the bits of its own argument, and each function is
    // invoked once per distinct bit pattern
    {
        let (acc, n) = nan_leg();
        n_cases += n;
        rep.bound("nan_argument_leg", format!("{n} histories over three NaNs differing in sign / payload, lists of them, f0.0 and f-0.0"));
        rep.absorb(acc);
    }
    {
        let (acc, n) = identical_operands_leg();
        n_cases += n;
        rep.bound("identical_operands_leg", format!("{n} rules whose operands are the same call text, cacheable and non-cacheable"));
        rep.absorb(acc);
    }
    {
        let (acc, n) = zst_leg();
        n_cases += n;
        rep.bound("zero_sized_function_leg", format!("{n} call sequences <= 4 over three unit-struct functions x two arguments, two registration orders"));
        rep.absorb(acc);
    }
    // argument crowd (see crowd.rs): one evaluation, one call of a cacheable identity function per
    // member of a pool of pairwise different arguments built from the value pools, the near-equal
    // families and the enumerated forgeries; front to back and back to front
    {
        let mut members = 0;
        for reverse in [false, true] {
            let r = crate::checks::crowd::run_crowd("C11", usize::MAX, reverse);
            members = r.members;
            n_cases += 1;
            rep.absorb(r.acc);
        }
        rep.bound("argument_crowd", format!("{members} pairwise different arguments (value pools, near-equal families x 6 wrappings, forged strings / keys over 7 entry separators x 5 key separators x 6 quotings x spellings of 5 scalars), one call each in one evaluation, both orders"));
    }
    // functions that return none: cached like any other result, counted by the invocation log
    {
        let fs = [0usize, 5, 6];
        let alphabet: Vec<(usize, usize)> = fs.iter().flat_map(|f| [0usize, 1, 9].into_iter().map(move |a| (*f, a))).collect();
        let mut seqs: Vec<Vec<(usize, usize)>> = vec![vec![]];
        let mut frontier = seqs.clone();
        for _ in 0..3 {
            let mut next = Vec::new();
            for s in &frontier {
                for c in &alphabet {
                    let mut t = s.clone();
                    t.push(*c);
                    next.push(t);
                }
            }
            seqs.extend(next.iter().cloned());
            frontier = next;
        }
        let cs: Vec<Case> = seqs.iter().filter(|s| s.iter().any(|c| c.0 >= 5)).flat_map(|s| splits(s.len()).into_iter().map(move |sp| Case { calls: s.clone(), split: sp, wraps: vec![] })).collect();
        n_cases += cs.len() as u64;
        rep.bound("none_result_leg", format!("functions c1, cz (cacheable, returns none), nz (not cacheable, returns none) x arguments i1 / \"1\" / none, sequences <= 3, all splits, 2 evaluations: {} histories", cs.len()));
        let (acc, st) = cs
            .par_iter()
            .map(|c| {
                let mut acc = Acc::new();
                let st = check_case(c, &argv, 2, None, &mut acc);
                (acc, st)
            })
            .reduce(
                || (Acc::new(), TreeStats::default()),
                |(a, mut sa), (b, sb)| {
                    sa.add(&sb);
                    (a.merge(b), sa)
                },
            );
        rep.absorb(acc);
        stats.add(&st);
    }
    // `cacheable()` as an environment answer: every script of answers (true/false per query, the
    // last one repeated) up to 8 queries, over three rule shapes.  The statement fixes the result
    // only for a constant answer, so the oracle here is the part that holds for any script: no
    // panic, no error, every result is the token of an invocation made for that very argument at or
    // before that call, at least one invocation per distinct argument and at most one per call.
    {
        let (acc, n) = script_leg(tier, false);
        rep.bound("cacheable_answer_scripts", n);
        rep.absorb(acc);
    }
    // a function whose `cacheable()` answer changes from true to false between two calls of one
    // evaluation: once it declares itself non-cacheable it is invoked on every call
    {
        use std::sync::atomic::{AtomicBool, AtomicU64, Ordering};
        let flag = Arc::new(AtomicBool::new(true));
        let count = Arc::new(AtomicU64::new(0));
        let (f2, c2) = (flag.clone(), count.clone());
        let h: Handler = Arc::new(move |name, _p| {
            if name == "flip" {
                f2.store(false, Ordering::SeqCst);
                return (Ok(Value::None), 0);
            }
            let n = c2.fetch_add(1, Ordering::SeqCst);
            (Ok(Value::Int(n as i128)), 0)
        });
        let mut t = probe("t", true, &h);
        t.cacheable_flag = Some(flag.clone());
        let build = || -> Result<RuleSet, String> {
            ruleset()
                .with_rule(Rule::new("r0", BTreeMap::new(), Expr::parse("[t(i1), t(i1)]").map_err(|e| e.to_string())?))
                .and_then(|b| b.with_rule(Rule::new("r1", BTreeMap::new(), Expr::parse("flip(i0)").unwrap())))
                .and_then(|b| b.with_rule(Rule::new("r2", BTreeMap::new(), Expr::parse("[t(i1), t(i1)]").unwrap())))
                .map_err(|e| e.to_string())
                .map(|b| b)
                .and_then(|b| Ok(b))
                .map(|b| b.build())
        };
        let _ = build; // the functions are registered below (probe objects are moved into the builder)
        let rs = ruleset()
            .with_rule(Rule::new("r0", BTreeMap::new(), Expr::parse("[t(i1), t(i1)]").unwrap()))
            .and_then(|b| b.with_rule(Rule::new("r1", BTreeMap::new(), Expr::parse("flip(i0)").unwrap())))
            .and_then(|b| b.with_rule(Rule::new("r2", BTreeMap::new(), Expr::parse("[t(i1), t(i1)]").unwrap())))
            .and_then(|b| b.with_function(t))
            .and_then(|b| b.with_function(probe("flip", false, &h)))
            .map(|b| b.build());
        let mut acc = Acc::new();
        acc.count("executions", 1);
        match rs {
            Err(e) => acc.machinery(e.to_string()),
            Ok(rs) => match catch(|| block_on(rs.evaluate_value(&Value::None))) {
                Ok(Ok(Ok(out))) => {
                    let got: Vec<String> = out.iter().map(|o| format!("{:?}", o.value.as_ref().map(|v| RV::from_value(v).show()).map_err(|e| e.to_string()))).collect();
                    let want = vec!["Ok(\"[i0, i0]\")".to_string(), "Ok(\"none\")".to_string(), "Ok(\"[i1, i2]\")".to_string()];
                    if got != want {
                        acc.violation(Violation {
                            sig: "cacheable-flips".into(),
                            what: format!("function that turns non-cacheable in the middle of an evaluation: outcomes {got:?}, expected {want:?} (cached while cacheable, invoked on every call afterwards)"),
                            case: json!({"kind": "flip"}),
                            size: 1,
                        });
                    }
                    acc.outcome("cacheable-flip");
                }
                other => acc.machinery(format!("flip leg: {:?}", other.map(|r| r.map(|x| x.map(|o| o.len()).map_err(|e| e.to_string()))))),
            },
        }
        rep.absorb(acc);
    }
    // ten rules, each calling the same function once with its own argument: every failure
    // pattern (2^10), so long failure streaks followed by successes are covered
    {
        let argv10: Vec<RE> = (0..10).map(|i| RE::Val(RV::Int(200 + i))).collect();
        for f in 0..2usize {
            let case = Case { calls: (0..10).map(|a| (f * 2, a)).collect(), split: vec![1; 10], wraps: vec![] };
            let mut acc = Acc::new();
            let st = check_case(&case, &argv10, 1, None, &mut acc);
            rep.absorb(acc);
            stats.add(&st);
            n_cases += 1;
        }
    }
    rep.bound("histories", n_cases);
    rep.states = stats.nodes + n_cases;
    rep.transitions = stats.edges + n_cases;
    rep.traces = rep.acc.get("executions");
    rep.rule = "E1: every call sequence (function x argument) up to the bound, every split over <= 3 rules, every success/failure choice at each actual invocation, several consecutive evaluations of the same ruleset; oracle = reference cache model predicting the exact invocation log and every value (fresh token per invocation)".into();
    rep.assume("arguments are compared exactly (d1 and d1.0, f0.0 and f-0.0 are different arguments; the statement says 'distinct-but-similar')");
    rep.finish()
}

pub fn replay(case: &serde_json::Value) -> i32 {
    if case.get("kind").and_then(|k| k.as_str()) == Some("argument-crowd") {
        return crate::checks::crowd::replay(case);
    }
    if case.get("kind").and_then(|k| k.as_str()) == Some("identical-operands") {
        let (acc, n) = identical_operands_leg();
        println!("re-ran the {n} identical-operand rules");
        return if acc.violations.is_empty() {
            println!("verdict: holds");
            0
        } else {
            for v in acc.violations.values() {
                println!("verdict: VIOLATED — {}", v.what);
            }
            1
        };
    }
    if case.get("kind").and_then(|k| k.as_str()) == Some("zero-sized-functions") {
        let (acc, n) = zst_leg();
        println!("re-ran the {n} zero-sized-function sequences");
        return if acc.violations.is_empty() {
            println!("verdict: holds");
            0
        } else {
            for v in acc.violations.values() {
                println!("verdict: VIOLATED — {}", v.what);
            }
            1
        };
    }
    if case.get("kind").and_then(|k| k.as_str()) == Some("nan-arguments") {
        let (acc, n) = nan_leg();
        println!("re-ran the {n} NaN-argument histories");
        return if acc.violations.is_empty() {
            println!("verdict: holds");
            0
        } else {
            for v in acc.violations.values() {
                println!("verdict: VIOLATED — {}", v.what);
            }
            1
        };
    }
    if case.get("kind").and_then(|k| k.as_str()) == Some("cacheable-script") {
        let si = case.get("shape").and_then(|x| x.as_u64()).unwrap_or(0) as usize;
        let script: Vec<bool> = case.get("script").and_then(|a| a.as_array()).map(|a| a.iter().filter_map(|b| b.as_bool()).collect()).unwrap_or_default();
        if script.is_empty() || si >= SCRIPT_SHAPES {
            println!("cannot decode case");
            return 2;
        }
        println!("rule `{}` with cacheable() answering {script:?} (last answer repeated)", script_shape(si).0);
        let mut acc = Acc::new();
        run_script(si, &script, &mut acc);
        return if acc.violations.is_empty() {
            println!("verdict: holds");
            0
        } else {
            for v in acc.violations.values() {
                println!("verdict: VIOLATED — {}", v.what);
            }
            1
        };
    }
    let calls: Vec<(usize, usize)> = case
        .get("calls")
        .and_then(|a| a.as_array())
        .map(|a| {
            a.iter()
                .filter_map(|p| {
                    let p = p.as_array()?;
                    Some((p.first()?.as_u64()? as usize, p.get(1)?.as_u64()? as usize))
                })
                .collect()
        })
        .unwrap_or_default();
    let split: Vec<usize> = case
        .get("split")
        .and_then(|a| a.as_array())
        .map(|a| a.iter().filter_map(|x| x.as_u64().map(|v| v as usize)).collect())
        .unwrap_or_default();
    let evaluations = case.get("evaluations").and_then(|e| e.as_u64()).unwrap_or(2) as usize;
    let argv = args(Tier::Thorough);
    if calls.iter().any(|(f, a)| *f >= FUNCS.len() || *a >= argv.len()) || split.iter().sum::<usize>() != calls.len() {
        println!("cannot decode case");
        return 2;
    }
    let wraps: Vec<usize> = case.get("wraps").and_then(|a| a.as_array()).map(|a| a.iter().filter_map(|x| x.as_u64().map(|v| v as usize)).collect()).unwrap_or_default();
    let c = Case { calls, split, wraps };
    println!("history: {} ({} evaluations, all failure patterns)", label(&c, &argv), evaluations);
    let mut acc = Acc::new();
    check_case(&c, &argv, evaluations, None, &mut acc);
    if acc.violations.is_empty() {
        println!("verdict: holds");
        0
    } else {
        for v in acc.violations.values() {
            println!("verdict: VIOLATED — {}", v.what);
        }
        1
    }
}
