//! C08 — literals denote exactly what is written; layout and comments are insignificant.
use super::syntax::*;
use crate::engine::report::{Acc, Report, Tier, Violation};
use crate::spec::grammar::*;
use crate::spec::re::RE;
use crate::spec::rv::*;
use rayon::prelude::*;
use serde_json::json;

pub const C08_KINDS: [DisKind; 5] = [DisKind::Tree, DisKind::OverAccept, DisKind::OverReject, DisKind::Position, DisKind::AcceptsBadLiteral];

/// compare a batch `[l1, l2, ...]`; on disagreement fall back to one literal at a time so the
/// replay file names the single literal
fn check_batch(g: &Grammar, lits: &[String], expected: Option<&[RV]>, acc: &mut Acc) {
    let text = format!("[{}]", lits.join(", "));
    acc.count("literals", lits.len() as u64);
    let cmp = compare_expr(g, &text);
    // the reference itself must denote the intended values (generator/reference consistency)
    if let Some(exp) = expected {
        match reference_parse_expr(g, &text) {
            RefParse::Accept(RE::List(items)) if items.len() == exp.len() && items.iter().zip(exp).all(|(i, e)| *i == RE::Val(e.clone())) => {}
            other => {
                let s = format!("{other:?}");
                acc.machinery(format!("reference does not denote the generated values for batch starting {:?}: {}", lits[0], &s[..s.len().min(200)]));
                return;
            }
        }
    }
    match cmp {
        Cmp::Agree(c) => {
            acc.count("executions", 1);
            acc.count(&format!("class_{c:?}"), 1);
            acc.outcome(format!("batch:{c:?}"));
        }
        _ => {
            for l in lits {
                record(acc, "C08", l, "Expr::parse", compare_expr(g, l), &C08_KINDS);
            }
        }
    }
}

fn int_values() -> Vec<i128> {
    let mut v: Vec<i128> = (-4096..=4096).collect();
    for k in 0..127u32 {
        let p = 1i128 << k;
        for x in [p - 1, p, p + 1] {
            v.push(x);
            v.push(-x);
        }
    }
    v.push(i128::MAX);
    v.push(i128::MAX - 1);
    v.push(i128::MIN);
    v.push(i128::MIN + 1);
    let mut p: i128 = 1;
    for _ in 0..38 {
        for x in [p - 1, p, p + 1] {
            v.push(x);
            v.push(-x);
        }
        p *= 10;
    }
    v.sort();
    v.dedup();
    v
}

fn int_leg(g: &Grammar) -> Acc {
    let vals = int_values();
    let mut lits: Vec<(String, RV)> = Vec::new();
    for &v in &vals {
        lits.push((format!("i{v}"), RV::Int(v)));
        let mag = v.unsigned_abs();
        if v >= 0 {
            lits.push((format!("i+{v}"), RV::Int(v)));
            lits.push((format!("i00{v}"), RV::Int(v)));
            lits.push((format!("0x{v:x}"), RV::Int(v)));
            lits.push((format!("0x{v:X}"), RV::Int(v)));
            lits.push((format!("0x000{v:x}"), RV::Int(v)));
            lits.push((format!("0o{v:o}"), RV::Int(v)));
            lits.push((format!("0b{v:b}"), RV::Int(v)));
            lits.push((format!("0b0{v:b}"), RV::Int(v)));
        } else {
            lits.push((format!("i-000{mag}"), RV::Int(v)));
        }
    }
    // zero padding up to and beyond the number of digits the widest value has in each radix
    // (32 hex / 43 octal / 127 binary / 39 decimal): padding never changes the value
    for v in [0i128, 1, 255, i64::MAX as i128, u64::MAX as i128, (1i128 << 96) + 7, i128::MAX - 1, i128::MAX] {
        for w in [31usize, 32, 33, 34, 40, 43, 44, 45, 64, 65, 126, 127, 128, 129, 130, 200, 300] {
            lits.push((format!("0x{v:0w$x}"), RV::Int(v)));
            lits.push((format!("0o{v:0w$o}"), RV::Int(v)));
            lits.push((format!("0b{v:0w$b}"), RV::Int(v)));
            lits.push((format!("i{v:0w$}"), RV::Int(v)));
            lits.push((format!("i-{v:0w$}"), RV::Int(-v)));
        }
    }
    let mut acc = lits
        .par_chunks(200)
        .map(|chunk| {
            let mut acc = Acc::new();
            let texts: Vec<String> = chunk.iter().map(|(t, _)| t.clone()).collect();
            let exp: Vec<RV> = chunk.iter().map(|(_, v)| v.clone()).collect();
            check_batch(g, &texts, Some(&exp), &mut acc);
            acc
        })
        .reduce(Acc::new, |a, b| a.merge(b));
    // first values beyond each limit must be rejected, not wrapped
    for t in [
        "i170141183460469231731687303715884105728",
        "i-170141183460469231731687303715884105729",
        "i+170141183460469231731687303715884105728",
        "i340282366920938463463374607431768211456",
        "0x80000000000000000000000000000000",
        "0xffffffffffffffffffffffffffffffff",
        "0x100000000000000000000000000000000",
        "0o2000000000000000000000000000000000000000000",
        "0o8",
        "0o18",
        &format!("0b1{}", "0".repeat(127)),
        &format!("0b{}", "1".repeat(128)),
    ] {
        record(&mut acc, "C08", t, "Expr::parse", compare_expr(g, t), &C08_KINDS);
        let wrapped = format!("[i1, {t}]");
        record(&mut acc, "C08", &wrapped, "Expr::parse", compare_expr(g, &wrapped), &C08_KINDS);
    }
    acc.sample("int-literal", 1, || json!(["i-4096", "0x7fffffffffffffffffffffffffffffff", "0b0101", "i+170141183460469231731687303715884105727"]));
    acc
}

/// index steps: every position 0..4096, every 2^k and 10^k with neighbours up to 2^130, zero-padded
/// spellings; in range they denote that position, beyond the platform's range nothing
fn index_leg(g: &Grammar) -> Acc {
    let mut vals: Vec<u128> = (0..=4096u128).collect();
    for k in 0..=127u32 {
        let p = 1u128 << k;
        vals.extend([p - 1, p, p + 1]);
    }
    let mut p = 1u128;
    for _ in 0..38 {
        vals.extend([p - 1, p, p + 1]);
        p *= 10;
    }
    vals.extend([u64::MAX as u128 + 2, (u64::MAX as u128) * 2, (u64::MAX as u128) * 2 + 1, i128::MAX as u128, i128::MAX as u128 + 1, u128::MAX]);
    vals.sort();
    vals.dedup();
    let mut texts: Vec<String> = Vec::new();
    for v in &vals {
        texts.push(format!("x.{v}"));
        texts.push(format!("x.00{v}"));
        texts.push(format!("[x].{v}.a"));
        texts.push(format!("x.a.{v} == i1"));
    }
    for big in ["340282366920938463463374607431768211456", "999999999999999999999999999999999999999999", "18446744073709551616000"] {
        texts.push(format!("x.{big}"));
        texts.push(format!("x.1.{big}"));
    }
    texts
        .par_chunks(256)
        .map(|chunk| {
            let mut acc = Acc::new();
            for t in chunk {
                record(&mut acc, "C08", t, "Expr::parse", compare_expr(g, t), &C08_KINDS);
                acc.count("literals", 1);
                acc.count("index_literals", 1);
            }
            acc
        })
        .reduce(Acc::new, |a, b| a.merge(b))
}

fn float_leg(g: &Grammar, tier: Tier) -> Acc {
    let mant_step = tier.pick(1usize, 1usize);
    let mut lits: Vec<String> = Vec::new();
    for m in (0..1000usize).step_by(mant_step) {
        let ds = m.to_string();
        for p in 0..=3usize {
            // p fractional digits
            let body = if p == 0 {
                ds.clone()
            } else {
                let padded = format!("{:0>width$}", ds, width = p);
                let (ip, fp) = padded.split_at(padded.len() - p);
                format!("{ip}.{fp}")
            };
            for e in -22..=22i32 {
                match (m + p + (e + 22) as usize) % 6 {
                    0 => lits.push(format!("f{body}e{e}")),
                    1 => lits.push(format!("f{body}E{e:+}")),
                    2 => lits.push(format!("f-{body}e{e}")),
                    3 => lits.push(format!("f+{body}E{e}")),
                    4 => lits.push(if e == 0 { format!("f{body}") } else { format!("f{body}e{e}") }),
                    _ => lits.push(format!("f-{body}E{e:+}")),
                }
            }
        }
    }
    // long significands with large exponents (outside the fast-path family: compared with std's
    // correctly rounded parser)
    let sigs: [&str; 24] = [
        "1234567890", "12345678901", "123456789012", "1234567890123", "12345678901234", "123456789012345", "1234567890123456", "12345678901234567", "9007199254740992",
        "9007199254740993", "9007199254740991", "4503599627370497", "9999999999999999", "99999999999999999", "1000000000000001", "10000000000000001", "17976931348623157",
        "22250738585072014", "4940656458412465", "18014398509481985", "7205759403792793", "2718281828459045", "3141592653589793", "6022140760000000",
    ];
    for s in sigs {
        for e in -45..=45i32 {
            lits.push(format!("f{s}e{e}"));
            lits.push(format!("f-{}.{}E{e:+}", &s[..1], &s[1..]));
            if e % 9 == 0 {
                lits.push(format!("f0.{s}e{e}"));
            }
        }
    }
    // the whole exponent range, into the subnormals and up to the last finite decade (beyond it the
    // literal overflows, which is left unspecified)
    for e in -330..=308i32 {
        for m in ["1", "2", "5", "9", "1.5", "9.999999999999999", "0.0001", "17.25"] {
            let t = format!("{m}e{e}");
            if t.parse::<f64>().map(|x| x.is_finite()).unwrap_or(false) {
                lits.push(format!("f{t}"));
                lits.push(format!("f-{m}E{e:+}"));
            }
        }
    }
    // exact midpoints between adjacent doubles, written out in full and nudged by a digit far
    // beyond the 17th significant one (a parser that cuts the digit string rounds these wrongly):
    // integers 2^j + (2k+1)*ulp/2 for j = 53..62, and 1 + (2k+1)*2^-53 with its 53-digit fraction
    {
        let mut mids: Vec<String> = Vec::new();
        for j in 53..=62u32 {
            let ulp = 1u128 << (j - 52);
            for k in [0u128, 1, 2, 3, 1000, (1u128 << 51) - 1] {
                let base = (1u128 << j) + k * ulp;
                mids.push((base + ulp / 2).to_string());
            }
        }
        let five53: u128 = 5u128.pow(53);
        for k in [0u128, 1, 2, 3, 4, 7, 12] {
            // (2k+1) * 2^-53 = (2k+1) * 5^53 / 10^53
            let frac = (2 * k + 1) * five53;
            mids.push(format!("1.{frac:053}"));
            mids.push(format!("0.{frac:053}e1"));
        }
        for m in &mids {
            let (ip, fp) = match m.split_once('.') {
                Some((i, f)) => (i.to_string(), f.to_string()),
                None => (m.clone(), String::new()),
            };
            let (fp_digits, exp) = match fp.split_once('e') {
                Some((f, e)) => (f.to_string(), format!("e{e}")),
                None => (fp.clone(), String::new()),
            };
            // the tie itself, just above and just below it, with short and long tails
            lits.push(format!("f{ip}.{fp_digits}{exp}"));
            lits.push(format!("f{ip}.{fp_digits}0{exp}"));
            lits.push(format!("f{ip}.{fp_digits}0000000001{exp}"));
            lits.push(format!("f{ip}.{fp_digits}{}1{exp}", "0".repeat(40)));
            lits.push(format!("f-{ip}.{fp_digits}{}1{exp}", "0".repeat(25)));
            if fp_digits.is_empty() {
                if let Ok(i) = ip.parse::<u128>() {
                    lits.push(format!("f{}.9999999999{exp}", i - 1));
                    lits.push(format!("f{}.{}9{exp}", i - 1, "9".repeat(40)));
                    lits.push(format!("f{}.5{exp}", i - 1));
                }
            } else {
                // below the tie: last digit of the exact expansion lowered by one, followed by nines
                let mut below = fp_digits.clone();
                if let Some(last) = below.pop() {
                    let d = last.to_digit(10).unwrap_or(5);
                    if d > 0 {
                        below.push(char::from_digit(d - 1, 10).unwrap());
                        lits.push(format!("f{ip}.{below}{}{exp}", "9".repeat(30)));
                        lits.push(format!("f{ip}.{below}9{exp}"));
                    }
                }
            }
        }
    }
    // positional spellings: every mantissa below 1000 (and a few long ones) written with 4..45
    // fractional digits, without an exponent (the digit count is what a table-driven parser indexes)
    {
        let long = ["9007199254740991", "9007199254740993", "4503599627370497", "123456789012345", "1", "3", "7", "9"];
        for k in 4..=45usize {
            for m in (1..1000usize).map(|m| m.to_string()).chain(long.iter().map(|s| s.to_string())) {
                if m.len() > k {
                    continue;
                }
                let frac = format!("{}{m}", "0".repeat(k - m.len()));
                lits.push(format!("f0.{frac}"));
                match (k + m.len()) % 4 {
                    0 => lits.push(format!("f-.{frac}")),
                    1 => lits.push(format!("f{m}.{frac}")),
                    2 => lits.push(format!("f+0.{frac}")),
                    _ => lits.push(format!("f-{m}.{frac}")),
                }
            }
        }
    }
    // plain spellings
    for m in 0..1000usize {
        lits.push(format!("f{m}"));
        lits.push(format!("f-{m}"));
        lits.push(format!("f{m}.0"));
        lits.push(format!("f.{m:03}"));
        lits.push(format!("f0.{m:03}"));
        lits.push(format!("f{m}.{m}"));
    }
    let mut acc = lits
        .par_chunks(200)
        .map(|chunk| {
            let mut acc = Acc::new();
            // only literals inside the exactly-checkable family count as independently verified
            let fast = chunk.iter().filter(|t| crate::spec::literal::float_fast_path(&t[1..]).is_some()).count();
            acc.count("float_literals_checked_by_fast_path", fast as u64);
            acc.count("float_literals_checked_against_std_parser", (chunk.len() - fast) as u64);
            check_batch(g, chunk, None, &mut acc);
            acc
        })
        .reduce(Acc::new, |a, b| a.merge(b));
    // hard cases with their known bit patterns (independent of any parser in this process)
    // constants cross-checked with CPython's correctly rounded float parser
    let hard: [(&str, u64); 19] = [
        ("f0.1", 0x3FB999999999999A),
        ("f0.3", 0x3FD3333333333333),
        ("f1e23", 0x44B52D02C7E14AF6),
        ("f9007199254740993", 0x4340000000000000),
        ("f9007199254740995", 0x4340000000000002),
        ("f1.7976931348623157e308", 0x7FEFFFFFFFFFFFFF),
        ("f2.2250738585072014e-308", 0x0010000000000000),
        ("f2.2250738585072011e-308", 0x000FFFFFFFFFFFFF),
        ("f4.9e-324", 0x0000000000000001),
        ("f5e-324", 0x0000000000000001),
        ("f2.4703282292062327e-324", 0x0000000000000000),
        ("f2.4703282292062328e-324", 0x0000000000000001),
        ("f-0", 0x8000000000000000),
        ("f-0.0e0", 0x8000000000000000),
        ("f123456789012345678", 0x437B69B4BA630F35),
        ("f0.000001", 0x3EB0C6F7A0B5ED8D),
        ("f8.41e21", 0x447C7E83209E90B2),
        ("f3.5844466002796428e298", 0x7DEB67769DB917D9),
        ("f9.5e-27", 0x3A878557213FA753),
    ];
    for (t, bits) in hard {
        acc.count("executions", 1);
        acc.count("float_hard_cases", 1);
        match impl_parse_expr(t) {
            ImplParse::Ok(RE::Val(RV::Float(b))) if b == bits => acc.outcome("hard-float:ok"),
            other => acc.violation(Violation {
                sig: format!("hard-float/{t}"),
                what: format!("{t} must denote the double with bits {bits:016x}, parser gave {other:?}"),
                case: json!({"kind": "text", "entry": "Expr::parse", "text": t, "property": "C08"}),
                size: t.len(),
            }),
        }
    }
    acc.sample("float-literal", 1, || json!(["f1.25e-3", "f-999E+22", "f.5", "f2.2250738585072011e-308"]));
    acc
}

fn decimal_leg(g: &Grammar) -> Acc {
    let mut lits: Vec<(String, RV)> = Vec::new();
    for m in 0..1000u128 {
        for scale in 0..=28u32 {
            let d = RDec { neg: false, mant: m, scale };
            let t = d.to_text();
            lits.push((format!("d{t}"), RV::Dec(d.clone())));
            lits.push((format!("d-{t}"), RV::Dec(RDec { neg: m != 0, mant: m, scale })));
            if scale == 3 {
                lits.push((format!("d+{t}"), RV::Dec(d.clone())));
                lits.push((format!("d00{t}"), RV::Dec(d)));
            }
        }
    }
    let max: u128 = (1u128 << 96) - 1;
    for scale in 0..=28u32 {
        for m in [max, max - 1, 1u128 << 95, 10u128.pow(28), 10u128.pow(28) - 1] {
            let d = RDec { neg: false, mant: m, scale };
            lits.push((format!("d{}", d.to_text()), RV::Dec(d.clone())));
            lits.push((format!("d-{}", d.to_text()), RV::Dec(RDec { neg: true, ..d })));
        }
    }
    let mut acc = lits
        .par_chunks(200)
        .map(|chunk| {
            let mut acc = Acc::new();
            let texts: Vec<String> = chunk.iter().map(|(t, _)| t.clone()).collect();
            let exp: Vec<RV> = chunk.iter().map(|(_, v)| v.clone()).collect();
            check_batch(g, &texts, Some(&exp), &mut acc);
            acc
        })
        .reduce(Acc::new, |a, b| a.merge(b));
    // more fractional digits than the type holds: short mantissas written with 29..45 fractional
    // digits, as leading zeros (rounded: the result is left open, but nothing may panic) and as
    // trailing zeros (nothing to round: value and scale 28 are fixed)
    {
        // (a list literal is only as specified as its least specified item, so the two families go
        // into separate batches)
        let mut open: Vec<String> = Vec::new();
        let mut fixed: Vec<String> = Vec::new();
        for k in 27..=45usize {
            for m in ["1", "5", "15", "123", "999", "4999", "5000", "5001", "123456789012345678", "1234567890123456789"] {
                if m.len() <= k {
                    open.push(format!("d0.{}{m}", "0".repeat(k - m.len())));
                    open.push(format!("d-0.{}{m}", "0".repeat(k - m.len())));
                    fixed.push(format!("d0.{m}{}", "0".repeat(k - m.len())));
                    open.push(format!("d{m}.{m}{}", "0".repeat(k - m.len()))); // needs more than 96 bits at scale 28
                    fixed.push(format!("d-1.{m}{}", "0".repeat(k - m.len())));
                }
            }
            fixed.push(format!("d1.5{}", "0".repeat(k)));
            open.push(format!("d10.{}", "0".repeat(k)));
            fixed.push(format!("d7.{}", "0".repeat(k)));
            fixed.push(format!("d-7.5{}", "0".repeat(k)));
            fixed.push(format!("d0.{}", "0".repeat(k)));
            open.push(format!("d7.{}", "9".repeat(k)));
        }
        let acc2 = open
            .par_chunks(50)
            .chain(fixed.par_chunks(50))
            .map(|chunk| {
                let mut a = Acc::new();
                check_batch(g, chunk, None, &mut a);
                a
            })
            .reduce(Acc::new, |a, b| a.merge(b));
        acc = acc.merge(acc2);
    }
    for t in [
        "d79228162514264337593543950336",
        "d-79228162514264337593543950336",
        "d99999999999999999999999999999999",
        "d.5",
        "d-.5",
        "d0.00000000000000000000000000001",
        "d0.12345678901234567890123456789",
        "d7.92281625142643375935439503351",
        "d1.",
        "d",
        "d1.5e3",
    ] {
        record(&mut acc, "C08", t, "Expr::parse", compare_expr(g, t), &C08_KINDS);
    }
    acc.sample("decimal-literal", 1, || json!(["d0.050", "d-999.0000000000000000000000000", "d79228162514264337593543950335"]));
    acc
}

fn string_scalar_leg(g: &Grammar) -> Acc {
    let scalars: Vec<u32> = (0u32..=0x10FFFF).filter(|c| !(0xD800..=0xDFFF).contains(c)).collect();
    scalars
        .par_chunks(500)
        .map(|chunk| {
            let mut acc = Acc::new();
            let mut raw: Vec<String> = Vec::new();
            let mut esc_l: Vec<String> = Vec::new();
            let mut esc_u: Vec<String> = Vec::new();
            let mut exp_raw: Vec<RV> = Vec::new();
            let mut exp_all: Vec<RV> = Vec::new();
            for &c in chunk {
                let ch = char::from_u32(c).unwrap();
                if ch != '"' && ch != '\\' {
                    raw.push(format!("\"{ch}\""));
                    exp_raw.push(RV::Str(ch.to_string()));
                }
                esc_l.push(format!("\"\\u{{{c:x}}}\""));
                esc_u.push(format!("\"a\\u{{{c:04X}}}b\""));
                exp_all.push(RV::Str(ch.to_string()));
            }
            let exp_u: Vec<RV> = chunk.iter().map(|&c| RV::Str(format!("a{}b", char::from_u32(c).unwrap()))).collect();
            check_batch(g, &raw, Some(&exp_raw), &mut acc);
            check_batch(g, &esc_l, Some(&exp_all), &mut acc);
            check_batch(g, &esc_u, Some(&exp_u), &mut acc);
            acc.count("unicode_scalars", chunk.len() as u64);
            acc
        })
        .reduce(Acc::new, |a, b| a.merge(b))
}

fn string_atoms_leg(g: &Grammar, piece_len: usize) -> Acc {
    let atoms: Vec<(&str, &str)> = vec![
        ("\\n", "\n"), ("\\r", "\r"), ("\\t", "\t"), ("\\\\", "\\"), ("\\'", "'"), ("\\\"", "\""), ("\\u{41}", "A"), ("\\u{1F600}", "😀"), ("a", "a"),
        ("\n", "\n"), ("\t", "\t"), ("😀", "😀"), ("é", "é"), ("'", "'"), ("//", "//"), (" ", " "), ("\r\n", "\r\n"), ("\u{0}", "\u{0}"),
    ];
    let mut acc = Acc::new();
    let mut lits = Vec::new();
    let mut exp = Vec::new();
    // zero-padded escapes of every width up to 12 hex digits
    for cp in [0x41u32, 0xe9, 0x3a3, 0x1F600, 0x10FFFF, 0x0] {
        for w in 1..=12usize {
            let h = format!("{cp:0w$x}");
            if h.len() == w {
                let c = char::from_u32(cp).unwrap();
                lits.push(format!("\"\\u{{{h}}}\""));
                exp.push(RV::Str(c.to_string()));
                lits.push(format!("\"a\\u{{{}}}b\\u{{{h}}}\"", h.to_uppercase()));
                exp.push(RV::Str(format!("a{c}b{c}")));
            }
        }
    }
    for (a, va) in &atoms {
        lits.push(format!("\"{a}\""));
        exp.push(RV::Str(va.to_string()));
        for (b, vb) in &atoms {
            lits.push(format!("\"{a}{b}\""));
            exp.push(RV::Str(format!("{va}{vb}")));
            for (c, vc) in &atoms {
                lits.push(format!("\"{a}{b}{c}\""));
                exp.push(RV::Str(format!("{va}{vb}{vc}")));
            }
        }
    }
    // below the level of whole escapes: every sequence of up to 5 pieces from an escaped backslash,
    // the characters an escape is made of (`u`, `{`, `}`, hex digits, `n`), complete escapes and a
    // plain letter — an escaped backslash followed by text that looks like an escape is just text
    {
        let pieces: [(&str, &str); 10] = [("\\\\", "\\"), ("u", "u"), ("{", "{"), ("}", "}"), ("41", "41"), ("\\u{41}", "A"), ("\\n", "\n"), ("\\\"", "\""), ("n", "n"), ("x", "x")];
        let mut plits: Vec<String> = Vec::new();
        let mut pexp: Vec<RV> = Vec::new();
        let mut frontier: Vec<(String, String)> = vec![(String::new(), String::new())];
        for _ in 0..piece_len {
            let mut next = Vec::with_capacity(frontier.len() * pieces.len());
            for (t, v) in &frontier {
                for (pt, pv) in pieces {
                    next.push((format!("{t}{pt}"), format!("{v}{pv}")));
                }
            }
            for (t, v) in &next {
                plits.push(format!("\"{t}\""));
                pexp.push(RV::Str(v.clone()));
            }
            frontier = next;
        }
        acc.count("escape_piece_sequences", plits.len() as u64);
        let acc_p = plits
            .par_chunks(100)
            .zip(pexp.par_chunks(100))
            .map(|(l, e)| {
                let mut a = Acc::new();
                check_batch(g, l, Some(e), &mut a);
                a
            })
            .reduce(Acc::new, |a, b| a.merge(b));
        acc = acc.merge(acc_p);
    }
    let acc_p = lits
        .par_chunks(200)
        .zip(exp.par_chunks(200))
        .map(|(l, e)| {
            let mut a = Acc::new();
            check_batch(g, l, Some(e), &mut a);
            a
        })
        .reduce(Acc::new, |a, b| a.merge(b));
    acc = acc.merge(acc_p);
    // the same literals through the rule-text front end: every character of a string literal is
    // kept verbatim there too (raw CR LF, a line of the literal that starts with //)
    let extra: Vec<String> = vec!["\"a\r\nb\"".into(), "\"a\n// not a comment\nb\"".into(), "\"\n//\"".into(), "\"// x\"".into(), "\"a\rb\"".into()];
    for l in lits.iter().chain(extra.iter()) {
        for text in [format!("// n\n{l}"), format!("// n\r\n@k: {l};\r\n[{l}, x]\r\n")] {
            record(&mut acc, "C08", &text, "Rule::parse", compare_rule_expr(g, &text), &C08_KINDS);
            acc.count("rule_string_texts", 1);
        }
    }
    // a string literal in the `@name` position denotes the rule's name, character for character
    for (l, e) in lits.iter().zip(exp.iter()) {
        let text = format!("@name: {l};\nx");
        acc.count("executions", 1);
        acc.count("name_literal_texts", 1);
        let want = match e {
            RV::Str(s) => s.clone(),
            _ => continue,
        };
        // ... and in the `@description` position the description (also read back through the metadata)
        let dtext = format!("// n\n@description: {l};\nx");
        let dgot = crate::engine::panic::catch(|| {
            reval::prelude::Rule::parse(&dtext)
                .map(|r| (r.description().map(|d| d.to_string()), r.get_metadata("description").cloned()))
                .map_err(|e| e.to_string())
        });
        let dok = matches!(&dgot, Ok(Ok((Some(d), Some(reval::prelude::Value::String(m))))) if *d == want && *m == want);
        if !dok {
            acc.violation(Violation {
                sig: "description-literal/different".into(),
                what: format!("Rule::parse({dtext:?}): the description literal denotes {want:?}, got {dgot:?}"),
                case: json!({"kind": "name-literal", "text": dtext, "want": want}),
                size: dtext.len(),
            });
        }
        let got = crate::engine::panic::catch(|| reval::prelude::Rule::parse(&text).map(|r| r.name().to_string()).map_err(|e| e.to_string()));
        let ok = matches!(&got, Ok(Ok(n)) if *n == want);
        if !ok {
            acc.violation(Violation {
                sig: format!("name-literal/{}", if matches!(got, Ok(Ok(_))) { "different" } else { "rejected" }),
                what: format!("Rule::parse({text:?}): the name literal denotes {want:?}, got {got:?}"),
                case: json!({"kind": "name-literal", "text": text, "want": want}),
                size: text.len(),
            });
        }
    }
    acc.sample("string-literal", 1, || json!(["\"é\\n😀\"", "\"\\u{1F600}//\\\"\""]));
    acc
}

fn words_leg(g: &Grammar) -> Acc {
    let mut words: Vec<String> = Vec::new();
    for (k, _) in crate::spec::lex::KEYWORDS {
        words.push(k.to_string());
        for i in 1..k.len() {
            words.push(k[..i].to_string());
        }
        for s in ["_", "a", "0", "y", "_x", "1"] {
            words.push(format!("{k}{s}"));
        }
        words.push(k.to_uppercase());
        let mut c = k.to_string();
        c[..1].make_ascii_uppercase();
        words.push(c);
    }
    // reserved words that are not grammar keywords are plain identifiers
    for w in super::c15::RESERVED {
        words.push(w.to_string());
    }
    for w in [
        "i1_0", "i1_0x", "i_1", "i1__0", "i-1_0", "f1_0", "f1_0e5", "f1_5", "d1_0", "d2_50", "i0_", "x1_0", "0x1_f", "0b1_0", "1_0",
        "i5", "i5x", "i-5", "i-", "i+", "i", "int", "inty", "f1e", "f1e5", "f1e+", "f1e+5", "f.5", "f5.", "f", "d1", "d1x", "d", "0x1g", "0x", "0b12", "0o78", "0o79", "true1",
        "nonex", "x1", "x_1", "_x", "x-", "X", "e5", "f1.e5", "f1.5e", "d1.5e3", "i1e5", "i1.5", "0x1.5", "1x", "1", "01", "is_some", "is_", "date_time", "date_", "date",
        "to_upper", "to_", "to", "é", "xé", "x é",
    ] {
        words.push(w.to_string());
    }
    for n in [2usize, 9, 31, 32, 33, 64, 255, 256, 1000] {
        words.push("a".repeat(n));
        words.push(format!("a{}", "_9".repeat(n)));
        words.push(format!("i{}", "0".repeat(n)));
        words.push(format!("i{}7", "0".repeat(n)));
        words.push(format!("f{}.5", "0".repeat(n)));
        words.push(format!("d0.{}5", "0".repeat(n.min(27))));
        words.push(format!("0x{}f", "0".repeat(n)));
        words.push(format!("\"{}\"", "é😀a".repeat(n)));
        words.push(format!("x{}+{}y", " ".repeat(n), "\n".repeat(n)));
        words.push(format!("x{}+ y", " // c\n".repeat(n.min(64))));
    }
    words.sort();
    words.dedup();
    let mut texts = Vec::new();
    for w in &words {
        texts.push(w.clone());
        texts.push(format!("x.{w}"));
        texts.push(format!("{w}(y)"));
        texts.push(format!("{w} + {w}"));
        texts.push(format!(":{w}"));
        texts.push(format!("{{{w}: y}}"));
    }
    texts
        .par_chunks(128)
        .map(|chunk| {
            let mut acc = Acc::new();
            for t in chunk {
                record(&mut acc, "C08", t, "Expr::parse", compare_expr(g, t), &C08_KINDS);
                acc.count("word_texts", 1);
            }
            acc.sample("words", 1, || json!(chunk[0]));
            acc
        })
        .reduce(Acc::new, |a, b| a.merge(b))
}

const SEPARATORS: [&str; 7] = ["", " ", "\n", "\t\r\n", " // c\n", " // c\r", " // \"c\r\n"];

fn basis() -> Vec<Vec<&'static str>> {
    vec![
        vec!["x"], vec!["i1"], vec!["\"a//b\""], vec!["none"], vec!["true"], vec!["f1.5e3"], vec!["d1.50"], vec!["0x1F"],
        vec!["-", "x"], vec!["!", "x"], vec![":", "s"], vec!["[", "]"], vec!["{", "}"],
        vec!["x", "+", "y"], vec!["x", "-", "i1"], vec!["x", "==", "y"], vec!["x", "=", "y"], vec!["x", ">=", "y"], vec!["x", "<", "y"], vec!["x", "!=", "y"],
        vec!["x", "and", "y"], vec!["x", "or", "y"], vec!["x", "in", "y"], vec!["x", "contains", "y"], vec!["x", "/", "y"], vec!["x", "%", "y"], vec!["x", "&", "y"],
        vec!["x", "|", "y"], vec!["x", "^", "y"], vec!["x", "*", "y"], vec!["x", ".", "f"], vec!["x", ".", "0"], vec!["(", "x", ")"], vec!["[", "x", "]"],
        vec!["i1", "-", "i2"], vec!["f1", "-", "f2"], vec!["x", "-", "-", "y"], vec!["int", "(", "x", ")"], vec!["f", "(", "x", ")"], vec!["none", "(", "x", ")"],
        vec!["x", ".", "f", ".", "0"], vec!["[", "x", ",", "y", "]"], vec!["{", "a", ":", "x", "}"], vec!["x", "+", "y", "*", "z"], vec!["-", "x", ".", "f"],
        vec!["if", "a", "then", "b", "else", "c"], vec!["x", ">", "=", "y"], vec!["x", "=", "=", "y"], vec!["x", "!", "=", "y"], vec!["i", "1"], vec!["0", "x1"],
        vec!["\"a\"", "\"b\""], vec!["x", "/", "/", "y"],
    ]
}

fn layout_leg(g: &Grammar, full_product_tokens: usize) -> Acc {
    let sentences = basis();
    let mut jobs: Vec<(usize, Vec<usize>)> = Vec::new();
    let ns = SEPARATORS.len();
    for (si, s) in sentences.iter().enumerate() {
        let gaps = s.len() + 1;
        if s.len() <= full_product_tokens {
            // every assignment of a separator to every gap
            let total = ns.pow(gaps as u32);
            for code in 0..total {
                let mut c = code;
                let mut a = Vec::with_capacity(gaps);
                for _ in 0..gaps {
                    a.push(c % ns);
                    c /= ns;
                }
                jobs.push((si, a));
            }
        } else {
            // uniform separators, and one gap varied against a single space
            for k in 0..ns {
                jobs.push((si, vec![k; gaps]));
                for gpos in 0..gaps {
                    let mut a = vec![1; gaps];
                    a[gpos] = k;
                    jobs.push((si, a));
                    let mut b = vec![4; gaps];
                    b[gpos] = k;
                    jobs.push((si, b));
                }
            }
        }
    }
    jobs.par_chunks(256)
        .map(|chunk| {
            let mut acc = Acc::new();
            for (si, assign) in chunk {
                let s = &sentences[*si];
                let mut text = String::new();
                let mut merging = false;
                for (i, tok) in s.iter().enumerate() {
                    text.push_str(SEPARATORS[assign[i]]);
                    if i > 0 && assign[i] == 0 {
                        merging = true;
                    }
                    text.push_str(tok);
                }
                text.push_str(SEPARATORS[assign[s.len()]]);
                // when no two tokens are glued together, the reference tree must not depend on the layout
                if !merging {
                    let canon = s.join(" ");
                    let a = reference_parse_expr(g, &canon);
                    let b = reference_parse_expr(g, &text);
                    let same = match (&a, &b) {
                        (RefParse::Accept(x), RefParse::Accept(y)) => x == y,
                        (RefParse::Reject { .. }, RefParse::Reject { .. }) => true,
                        _ => false,
                    };
                    if !same {
                        acc.machinery(format!("reference is layout-sensitive: {canon:?} vs {text:?}"));
                    }
                }
                record(&mut acc, "C08", &text, "Expr::parse", compare_expr(g, &text), &C08_KINDS);
                acc.count("layout_texts", 1);
            }
            acc.sample("layout", 1, || json!(format!("{:?}", chunk[chunk.len() / 2])));
            acc
        })
        .reduce(Acc::new, |a, b| a.merge(b))
}

pub fn run(tier: Tier) -> i32 {
    let mut rep = Report::new("C08", tier);
    let g = Grammar::new();
    rep.absorb(int_leg(&g));
    rep.absorb(index_leg(&g));
    rep.absorb(float_leg(&g, tier));
    rep.absorb(decimal_leg(&g));
    rep.absorb(string_scalar_leg(&g));
    rep.absorb(string_atoms_leg(&g, tier.pick(5, 6)));
    rep.absorb(words_leg(&g));
    let fp = tier.pick(3, 5);
    rep.bound("layout_full_product_up_to_tokens", fp);
    rep.bound("separators", SEPARATORS.to_vec());
    rep.absorb(layout_leg(&g, fp));
    let str_len = tier.pick(3, 4);
    rep.bound("char_string_length", str_len);
    let (a, n) = super::c06::string_leg(&g, str_len, false, "C08", &C08_KINDS);
    rep.absorb(a);
    let lits = rep.acc.get("literals");
    rep.states = lits + n + rep.acc.get("word_texts") + rep.acc.get("layout_texts");
    rep.transitions = rep.states;
    rep.traces = rep.acc.get("executions");
    rep.rule = "exhaustive literal families (integers: window +-4096, all 2^k+-1 and 10^k+-1 in 4 radices and several spellings; floats: all <=3-digit mantissas x point positions x exponents -22..22, plus hard cases with known bit patterns; decimals: all <=3-digit mantissas x scales 0..28 plus the 96-bit limits; every Unicode scalar raw and escaped; escape/raw atom triples), keyword-prefix collisions, every separator assignment over a sentence basis, and every short character string, each parsed by the real parser (literals batched 200-500 per parse, bisected on disagreement) and compared with the reference lexer/grammar/literal denotation".into();
    rep.assume("floats outside the Clinger fast-path family are compared with std's float parser (trusted), except the listed hard cases whose bit patterns are constants");
    rep.assume("decimals with more than 28 fractional digits or beyond 96 bits with a fraction, unterminated \\u{, and float literals overflowing to infinity are left unspecified (DESIGN §5)");
    rep.finish()
}

pub fn replay(case: &serde_json::Value) -> i32 {
    if case.get("kind").and_then(|k| k.as_str()) == Some("name-literal") {
        let text = case.get("text").and_then(|t| t.as_str()).unwrap_or("");
        let want = case.get("want").and_then(|t| t.as_str()).unwrap_or("");
        let run = || crate::engine::panic::catch(|| reval::prelude::Rule::parse(text).map(|r| r.name().to_string()).map_err(|e| e.to_string()));
        let (a, b) = (run(), run());
        if a != b {
            println!("replay not deterministic");
            return 2;
        }
        println!("text     : {text:?}\nexpected : name {want:?}\nobserved : {a:?}");
        return if matches!(&a, Ok(Ok(n)) if n == want) {
            println!("verdict  : holds");
            0
        } else {
            println!("verdict  : VIOLATED");
            1
        };
    }
    super::c07::replay(case)
}
