//! Helpers shared by the checks: calling reval under the panic boundary.
use crate::engine::exec::block_on;
use crate::engine::panic::catch;
use crate::spec::eval::{observe, Obs};
use crate::spec::re::RE;
use crate::spec::rv::RV;
use reval::prelude::*;
use std::collections::BTreeMap;

/// Evaluate a built expression through `Expr::evaluate`.
pub fn eval_expr(expr: &Expr, facts: &Value) -> Obs {
    let r = catch(|| block_on(expr.evaluate(facts)));
    match r {
        Err(p) => Obs::Panic(p),
        Ok(Err(m)) => Obs::Panic(format!("MACHINERY: {m}")),
        Ok(Ok(v)) => observe(Ok(v)),
    }
}

/// Evaluate through a one-rule ruleset (`RuleSet::evaluate_value`).
pub fn eval_via_ruleset(expr: &Expr, facts: &Value) -> Obs {
    let r = catch(|| {
        let rs = ruleset()
            .with_rule(Rule::new("r", BTreeMap::new(), expr.clone()))
            .map_err(|e| format!("with_rule failed: {e}"))?
            .build();
        let out = block_on(rs.evaluate_value(facts))?.map_err(|e| format!("evaluate_value failed: {e}"))?;
        if out.len() != 1 {
            return Err(format!("{} outcomes for one rule", out.len()));
        }
        let o = out.into_iter().next().unwrap();
        Ok::<_, String>(o.value)
    });
    match r {
        Err(p) => Obs::Panic(p),
        Ok(Err(m)) => Obs::Panic(format!("MACHINERY: {m}")),
        Ok(Ok(v)) => observe(Ok(v)),
    }
}

pub fn parse_expr(text: &str) -> Result<Result<Expr, String>, String> {
    catch(|| Expr::parse(text).map_err(|e| e.to_string()))
}

pub fn facts_of(items: &[(&str, &RV)]) -> Value {
    Value::Map(items.iter().map(|(k, v)| (k.to_string(), v.to_value())).collect())
}

pub fn re_json(e: &RE) -> serde_json::Value {
    serde_json::json!(format!("{e:?}"))
}

/// a reference value handed to reval as a serde type (`RuleSet::evaluate(&T)`); `none_as_unit`
/// chooses how a None is written (`()` / unit struct versus `Option::None`)
pub struct AsSerde<'a>(pub &'a RV, pub bool);

impl serde::Serialize for AsSerde<'_> {
    fn serialize<S: serde::Serializer>(&self, s: S) -> Result<S::Ok, S::Error> {
        use serde::ser::{SerializeMap, SerializeSeq};
        match self.0 {
            RV::None => {
                if self.1 {
                    s.serialize_unit()
                } else {
                    s.serialize_none()
                }
            }
            RV::Bool(b) => s.serialize_bool(*b),
            RV::Int(i) => match i64::try_from(*i) {
                Ok(x) => s.serialize_i64(x),
                Err(_) => s.serialize_i128(*i),
            },
            RV::Str(t) => s.serialize_str(t),
            RV::List(v) => {
                let mut q = s.serialize_seq(Some(v.len()))?;
                for x in v {
                    q.serialize_element(&AsSerde(x, self.1))?;
                }
                q.end()
            }
            RV::Map(m) => {
                let mut q = s.serialize_map(Some(m.len()))?;
                for (k, x) in m {
                    q.serialize_entry(k, &AsSerde(x, self.1))?;
                }
                q.end()
            }
            other => Err(serde::ser::Error::custom(format!("AsSerde does not cover {}", other.show()))),
        }
    }
}

/// Evaluate through a one-rule ruleset and `RuleSet::evaluate(&T)` (the serde entry point).
pub fn eval_via_serde(expr: &Expr, facts: &RV, none_as_unit: bool) -> Obs {
    let r = catch(|| {
        let rs = ruleset().with_rule(Rule::new("r", BTreeMap::new(), expr.clone())).map_err(|e| format!("with_rule failed: {e}"))?.build();
        let out = block_on(rs.evaluate(&AsSerde(facts, none_as_unit)))?.map_err(|e| format!("evaluate failed: {e}"))?;
        if out.len() != 1 {
            return Err(format!("{} outcomes for one rule", out.len()));
        }
        Ok::<_, String>(out.into_iter().next().unwrap().value)
    });
    match r {
        Err(p) => Obs::Panic(p),
        Ok(Err(m)) => Obs::Panic(format!("MACHINERY: {m}")),
        Ok(Ok(v)) => observe(Ok(v)),
    }
}
