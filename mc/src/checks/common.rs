//! Helpers shared by the checks: calling reval under the panic boundary.
use crate::engine::exec::block_on;
use crate::engine::panic::catch;
use crate::spec::eval::{observe, Obs};
use crate::spec::re::RE;
use crate::spec::rv::RV;
use reval::prelude::*;
use std::collections::BTreeMap;

/// Evaluate a built expression through `Expr::evaluate`.
pub fn eval_expr(expr: &Expr, facts: &Value) -> Obs {
    let r = catch(|| block_on(expr.evaluate(facts)));
    match r {
        Err(p) => Obs::Panic(p),
        Ok(Err(m)) => Obs::Panic(format!("MACHINERY: {m}")),
        Ok(Ok(v)) => observe(Ok(v)),
    }
}

/// Evaluate through a one-rule ruleset (`RuleSet::evaluate_value`).
pub fn eval_via_ruleset(expr: &Expr, facts: &Value) -> Obs {
    let r = catch(|| {
        let rs = ruleset()
            .with_rule(Rule::new("r", BTreeMap::new(), expr.clone()))
            .map_err(|e| format!("with_rule failed: {e}"))?
            .build();
        let out = block_on(rs.evaluate_value(facts))?.map_err(|e| format!("evaluate_value failed: {e}"))?;
        if out.len() != 1 {
            return Err(format!("{} outcomes for one rule", out.len()));
        }
        let o = out.into_iter().next().unwrap();
        Ok::<_, String>(o.value)
    });
    match r {
        Err(p) => Obs::Panic(p),
        Ok(Err(m)) => Obs::Panic(format!("MACHINERY: {m}")),
        Ok(Ok(v)) => observe(Ok(v)),
    }
}

pub fn parse_expr(text: &str) -> Result<Result<Expr, String>, String> {
    catch(|| Expr::parse(text).map_err(|e| e.to_string()))
}

pub fn facts_of(items: &[(&str, &RV)]) -> Value {
    Value::Map(items.iter().map(|(k, v)| (k.to_string(), v.to_value())).collect())
}

pub fn re_json(e: &RE) -> serde_json::Value {
    serde_json::json!(format!("{e:?}"))
}
