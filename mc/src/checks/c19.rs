//! C19 — deeply nested input cannot crash the host process.
//! E7: a grid of (recursive construct x operation x stack size x depth) runs, each in a child
//! process, so that a stack overflow (SIGSEGV/SIGABRT) is an observation instead of the end of the
//! harness.
use crate::engine::report::{Acc, KnownFindings, Report, Tier, Violation};
use rayon::prelude::*;
use reval::prelude::*;
use serde_json::json;
use std::process::Command;

pub const CONSTRUCTS: [&str; 33] = [
    "unary-chain",
    "not-chain",
    "paren-nest",
    "binary-chain",
    "nested-calls",
    "nested-lists",
    "nested-maps",
    "if-else-chain",
    "if-cond-chain",
    "access-chain",
    "access-chain-bad-index",
    "nested-user-calls",
    // length rather than nesting: flat texts must never exhaust the stack either
    "long-string-escapes",
    "long-string-raw",
    "long-list",
    "long-map",
    "long-ident",
    "long-number",
    "long-comment-run",
    "long-metadata",
    "cast-dec-long-zeros",
    "cast-dec-long-underscores",
    "cast-dec-long-fraction",
    "cast-int-long-zeros",
    "cast-float-long-digits",
    "cast-datetime-long-fraction",
    "long-decimal-literal",
    "long-int-literal",
    "meta-nested-lists",
    "meta-nested-maps",
    "binary-chain-then-error",
    "access-chain-then-error",
    "list-of-chain-then-error",
];

/// contexts covering every grammar production; `{}` is filled with a deep sub-expression.  These
/// are driven through the two parse entry points only (the tree operations on deep trees are
/// covered by the base constructs).
pub const CONTEXTS: [&str; 33] = [
    "{} + y", "y - {}", "{} * y", "y % {}", "{} & y", "y | {}", "{} == y", "y <= {}", "{} and y", "y or {}", "{} contains y", "y contains {}", "{} in y", "y in {}",
    "-{}", "!{}", "f({})", "int({})", "({}).b", "({}).0", "[y, {}, z]", "{k: {}, j: y}", "if {} then y else z", "if y then {} else z", "if y then z else {}", "(({}))", ":s + {}",
    "none({})", "[{}, {}]",
    "@k: {};\nx", "@k: [i1, {}];\nx", "@name: {};\nx", "@k: i1;\n@j: {k: {}};\n{}",
];

pub fn context_text(ctx: usize, filler: &str, n: usize) -> String {
    let deep = match filler {
        "access" => format!("m{}", ".a".repeat(n)),
        _ => format!("{}x", "-".repeat(n)),
    };
    CONTEXTS[ctx].replace("{}", &deep)
}

/// one level of nesting around `t` (parentheses leave no node, they only keep the text valid)
pub const WRAPPERS: [&str; 20] = [
    "neg", "not", "paren", "call", "user-call", "list1", "list40", "map1", "map40", "if-else", "if-then", "if-cond", "field", "pos", "add-left", "add-right", "and-left", "eq-left", "contains-left", "in-right",
];

fn wrap_once(w: &str, t: &str) -> String {
    match w {
        "neg" => format!("-({t})"),
        "not" => format!("!({t})"),
        "paren" => format!("({t})"),
        "call" => format!("is_some({t})"),
        "user-call" => format!("f({t})"),
        "list1" => format!("[{t}]"),
        "list40" => format!("[{t}{}]", ", x".repeat(39)),
        "map1" => format!("{{a: {t}}}"),
        "map40" => format!("{{a: {t}{}}}", (0..39).map(|i| format!(", k{i}: x")).collect::<String>()),
        "if-else" => format!("if b then x else ({t})"),
        "if-then" => format!("if b then ({t}) else x"),
        "if-cond" => format!("if ({t}) then b else b"),
        "field" => format!("({t}).a"),
        "pos" => format!("({t}).0"),
        "add-left" => format!("({t}) + x"),
        "add-right" => format!("x + ({t})"),
        "and-left" => format!("({t}) and b"),
        "eq-left" => format!("({t}) == x"),
        "contains-left" => format!("({t}) contains x"),
        "in-right" => format!("x in ({t})"),
        _ => t.to_string(),
    }
}

/// n levels around `x`, wrappers a and b taking turns (a outermost when n is odd)
pub fn alternation_text(a: &str, b: &str, n: usize) -> String {
    let mut t = String::from("x");
    for i in 0..n {
        t = wrap_once(if i % 2 == 0 { b } else { a }, &t);
    }
    t
}

pub const OPS: [&str; 9] = ["parse", "rule-parse", "display", "debug", "clone", "eq", "drop", "evaluate", "rule-eq"];

pub fn text_for(construct: &str, n: usize) -> String {
    if let Some(rest) = construct.strip_prefix("ctx") {
        // ctx<index>-<filler>
        if let Some((i, f)) = rest.split_once('-') {
            if let Ok(i) = i.parse::<usize>() {
                if i < CONTEXTS.len() {
                    return context_text(i, f, n);
                }
            }
        }
    }
    if let Some(rest) = construct.strip_prefix("alt:") {
        if let Some((a, b)) = rest.split_once(':') {
            return alternation_text(a, b, n);
        }
    }
    match construct {
        "unary-chain" => format!("{}x", "-".repeat(n)),
        "not-chain" => format!("{}b", "!".repeat(n)),
        "paren-nest" => format!("{}x{}", "(".repeat(n), ")".repeat(n)),
        "binary-chain" => {
            let mut s = String::from("x");
            for _ in 0..n {
                s.push_str(" + x");
            }
            s
        }
        "nested-calls" => format!("{}x{}", "is_some(".repeat(n), ")".repeat(n)),
        "nested-user-calls" => format!("{}x{}", "f(".repeat(n), ")".repeat(n)),
        "nested-lists" => format!("{}x{}", "[".repeat(n), "]".repeat(n)),
        "nested-maps" => format!("{}x{}", "{a: ".repeat(n), "}".repeat(n)),
        "if-else-chain" => format!("{}x", "if b then x else ".repeat(n)),
        "if-cond-chain" => format!("{}b{}", "if ".repeat(n), " then b else b".repeat(n)),
        "access-chain" => format!("m{}", ".a".repeat(n)),
        "long-string-escapes" => format!("\"{}\"", "\\n\\u{41}\\\\".repeat(n)),
        "long-string-raw" => format!("\"{}\"", "aé ".repeat(n)),
        "long-list" => format!("[{}]", vec!["x"; n].join(", ")),
        "long-map" => format!("{{{}}}", (0..n).map(|i| format!("k{i}: x")).collect::<Vec<_>>().join(", ")),
        "long-ident" => format!("x{}", "_a1".repeat(n)),
        "long-number" => format!("f0.{}1 + d0.{}", "0".repeat(n), "0".repeat(n.min(27))),
        "long-comment-run" => format!("x{}+ y", " // c\n".repeat(n)),
        "long-metadata" => format!("{}x", (0..n).map(|i| format!("@k{}: i1;\n", i % 7)).collect::<String>()),
        "access-chain-bad-index" => format!("m{}.99999999999999999999", ".a".repeat(n)),
        // casts of very long strings (flat text, long data): the digits / padding are in a literal
        "cast-dec-long-zeros" => format!("dec(\"{}1\")", "0".repeat(n)),
        "cast-dec-long-underscores" => format!("dec(\"1{}\")", "_".repeat(n)),
        "cast-dec-long-fraction" => format!("dec(\"0.{}1\")", "0".repeat(n)),
        "cast-int-long-zeros" => format!("int(\"{}1\")", "0".repeat(n)),
        "cast-float-long-digits" => format!("float(\"{}.{}e-5\")", "9".repeat(n), "1".repeat(n)),
        "cast-datetime-long-fraction" => format!("datetime(\"2015-07-30T03:26:13.{}Z\")", "1".repeat(n)),
        "long-decimal-literal" => format!("d{}1.5", "0".repeat(n)),
        "long-int-literal" => format!("i{}1", "0".repeat(n)),
        // flat chains that end in a syntax error: the parser has already folded them into a deep
        // tree, which it drops on its error path
        "binary-chain-then-error" => format!("x{} +", " + x".repeat(n)),
        "access-chain-then-error" => format!("m{}.", ".a".repeat(n)),
        "list-of-chain-then-error" => format!("[x{}, ", " + x".repeat(n)),
        // valid rules whose metadata value is nested deep (constant folding of metadata recurses)
        "meta-nested-lists" => format!("@k: {}i1{};\nx", "[".repeat(n), "]".repeat(n)),
        "meta-nested-maps" => format!("@k: {}i1{};\nx", "{a: ".repeat(n), "}".repeat(n)),
        // a flat list of n calls of one cacheable function with n different arguments (whatever
        // holds the cached results is built up and torn down without recursion)
        "many-cached-calls" => format!("[{}]", (0..n).map(|i| format!("cached(i{i})")).collect::<Vec<_>>().join(", ")),
        // a flat text whose evaluation moves a value nested n deep from one user function to another
        "deep-fn-value" => format!("audit(load(i{n}))"),
        "deep-fn-result" => format!("load(i{n})"),
        "deep-fn-value-in-list" => format!("[i1, audit(load(i{n})), audit(load(i{n}))]"),
        _ => String::from("x"),
    }
}

/// body of `mc c19-child <construct> <op> <depth> <stack-kib|main>`; never returns
pub fn child(args: &[String]) -> ! {
    let construct = args[0].clone();
    let op = args[1].clone();
    let depth: usize = args[2].parse().unwrap_or(1);
    let work = move || {
        let text = text_for(&construct, depth);
        let facts = Value::Map([("x".to_string(), Value::Int(1)), ("b".to_string(), Value::Bool(true)), ("m".to_string(), Value::None)].into_iter().collect());
        match op.as_str() {
            "parse" => {
                let r = Expr::parse(&text);
                std::mem::forget(r);
            }
            "rule-eq" => {
                // two rules with the same deep expression but different names / metadata
                let a = Rule::parse(&format!("// first\n{text}"));
                let b = Rule::parse(&format!("// second\n@k: i1;\n{text}"));
                if let (Ok(a), Ok(b)) = (&a, &b) {
                    if a == b {
                        std::process::exit(3);
                    }
                }
                std::mem::forget(a);
                std::mem::forget(b);
            }
            "rule-parse" => {
                let r = if text.starts_with('@') { Rule::parse(&format!("// n\n{text}")) } else { Rule::parse(&format!("// n\n{text}")) };
                std::mem::forget(r);
            }
            _ => {
                // operations on a tree: obtain it through the parser, never drop it implicitly
                let e = match Expr::parse(&text) {
                    Ok(e) => e,
                    Err(_) => std::process::exit(0), // nothing to operate on (rejected text)
                };
                match op.as_str() {
                    "display" => {
                        let s = e.to_string();
                        std::mem::forget(s);
                    }
                    "debug" => {
                        let s = format!("{e:?}");
                        std::mem::forget(s);
                    }
                    "clone" => {
                        let c = e.clone();
                        std::mem::forget(c);
                    }
                    "eq" => {
                        let e2 = Expr::parse(&text).unwrap();
                        let same = e == e2;
                        if !same {
                            std::process::exit(3);
                        }
                        std::mem::forget(e2);
                    }
                    "drop" => {
                        drop(e);
                        std::process::exit(0);
                    }
                    "evaluate" if construct == "many-cached-calls" => {
                        use crate::checks::probe::{probe, Handler};
                        let h: Handler = std::sync::Arc::new(|_, p| (Ok(p), 0));
                        let rs = match ruleset().with_rule(Rule::new("r", std::collections::BTreeMap::new(), e)).and_then(|b| b.with_function(probe("cached", true, &h))) {
                            Ok(b) => b.build(),
                            Err(_) => std::process::exit(2),
                        };
                        // everything is dropped normally here: tearing down the evaluation's state is
                        // part of the operation
                        let ok = matches!(crate::engine::exec::block_on(rs.evaluate_value(&facts)), Ok(Ok(o)) if o.len() == 1);
                        drop(rs);
                        std::process::exit(if ok { 0 } else { 3 });
                    }
                    "evaluate" if construct.starts_with("deep-fn-") => {
                        // `load` builds its deep result without recursion, `audit` takes its argument
                        // apart without recursion; neither is cacheable, so the evaluator only moves
                        // the value
                        use crate::checks::probe::{probe, Handler};
                        let h: Handler = std::sync::Arc::new(|name, p| {
                            if name == "load" {
                                let n = match p {
                                    Value::Int(n) => n as usize,
                                    _ => 0,
                                };
                                let mut v = Value::Int(1);
                                for _ in 0..n {
                                    v = Value::Vec(vec![v]);
                                }
                                (Ok(v), 0)
                            } else {
                                let mut v = p;
                                let mut depth = 0i128;
                                while let Value::Vec(mut items) = v {
                                    v = items.pop().unwrap_or(Value::None);
                                    depth += 1;
                                }
                                (Ok(Value::Int(depth)), 0)
                            }
                        });
                        let rs = ruleset()
                            .with_rule(Rule::new("r", std::collections::BTreeMap::new(), e))
                            .and_then(|b| b.with_function(probe("load", false, &h)))
                            .and_then(|b| b.with_function(probe("audit", false, &h)));
                        let rs = match rs {
                            Ok(b) => b.build(),
                            Err(_) => std::process::exit(2),
                        };
                        let r = crate::engine::exec::block_on(rs.evaluate_value(&facts));
                        std::mem::forget(r);
                        std::mem::forget(rs);
                        std::process::exit(0);
                    }
                    "evaluate" => {
                        let r = crate::engine::exec::block_on(e.evaluate(&facts));
                        std::mem::forget(r);
                    }
                    _ => std::process::exit(2),
                }
                std::mem::forget(e);
            }
        }
        std::process::exit(0);
    };
    if args[3] == "main" {
        work()
    } else {
        let kib: usize = args[3].parse().unwrap_or(2048);
        let h = std::thread::Builder::new().stack_size(kib * 1024).spawn(work).unwrap();
        let _ = h.join();
        std::process::exit(4)
    }
}

#[derive(Clone, Debug, PartialEq)]
enum Exit {
    Completed,
    Crashed(String),
    Hung(u64),
    Other(String),
}

/// like `run_child`, but the child is killed when it has not finished after `secs` seconds
fn run_child_limited(construct: &str, op: &str, depth: usize, stack: &str, secs: u64) -> Exit {
    use std::time::{Duration, Instant};
    let exe = std::env::current_exe().unwrap();
    let child = Command::new(exe)
        .args(["c19-child", construct, op, &depth.to_string(), stack])
        .env("RUST_BACKTRACE", "0")
        .stdout(std::process::Stdio::null())
        .stderr(std::process::Stdio::null())
        .spawn();
    let mut child = match child {
        Ok(c) => c,
        Err(e) => return Exit::Other(format!("cannot spawn: {e}")),
    };
    let start = Instant::now();
    loop {
        match child.try_wait() {
            Ok(Some(st)) => {
                use std::os::unix::process::ExitStatusExt;
                if let Some(sig) = st.signal() {
                    return Exit::Crashed(format!("signal {sig}"));
                }
                return match st.code() {
                    Some(0) => Exit::Completed,
                    Some(c) => Exit::Other(format!("exit {c}")),
                    None => Exit::Other("no exit code".into()),
                };
            }
            Ok(None) => {
                if start.elapsed() > Duration::from_secs(secs) {
                    let _ = child.kill();
                    let _ = child.wait();
                    return Exit::Hung(secs);
                }
                std::thread::sleep(Duration::from_millis(if start.elapsed() < Duration::from_millis(200) { 2 } else { 50 }));
            }
            Err(e) => return Exit::Other(e.to_string()),
        }
    }
}

pub const ALT_OPS: [&str; 8] = ["parse", "rule-parse", "display", "debug", "clone", "eq", "drop", "evaluate"];
pub const ALT_DEPTH: usize = 64;
pub const ALT_SECONDS: u64 = 30;

/// every ordered pair of wrappers taking turns for 64 levels (far below every crash threshold),
/// under every operation: the run completes within the time limit.  Work that doubles per level
/// (a renderer or evaluator that visits an operand twice) cannot: 2^32 visits do not fit.
fn alternation_leg(acc: &mut Acc) -> (u64, u64) {
    let mut cells: Vec<(String, &str)> = Vec::new();
    for a in WRAPPERS {
        for b in WRAPPERS {
            for o in ALT_OPS {
                cells.push((format!("alt:{a}:{b}"), o));
            }
        }
    }
    // a run that hits the limit is repeated once with four times the limit before it counts (a
    // starved machine must not look like a run that cannot complete; doubling work per level still
    // cannot finish 2^32 visits)
    let results: Vec<(usize, Exit)> = cells
        .par_iter()
        .enumerate()
        .map(|(i, (c, o))| {
            let r = match run_child_limited(c, o, ALT_DEPTH, "main", ALT_SECONDS) {
                Exit::Hung(_) => run_child_limited(c, o, ALT_DEPTH, "main", 4 * ALT_SECONDS),
                other => other,
            };
            (i, r)
        })
        .collect();
    let n = cells.len() as u64;
    for (i, r) in results {
        let (c, o) = &cells[i];
        match r {
            Exit::Completed => acc.outcome(format!("{o}:alternation-completes")),
            Exit::Other(m) if m == "exit 3" => acc.violation(Violation {
                sig: format!("alternation/{o}/{c}/unequal"),
                what: format!("{o} of {c} at depth {ALT_DEPTH}: the tree does not equal its own second parse"),
                case: json!({"kind": "alternation", "construct": c, "op": o, "depth": ALT_DEPTH}),
                size: ALT_DEPTH,
            }),
            Exit::Other(m) => acc.machinery(format!("alternation {c}/{o}: {m}")),
            Exit::Hung(secs) => acc.violation(Violation {
                sig: format!("alternation/{o}/{c}/does-not-complete"),
                what: format!("{o} of {ALT_DEPTH} levels of {c} (`{}...`, {} bytes) on the main thread does not complete within {secs} s; the same operation on each construct alone is immediate", alternation_text(c[4..].split(':').next().unwrap_or(""), c[4..].split(':').nth(1).unwrap_or(""), 3).chars().take(100).collect::<String>(), text_for(c, ALT_DEPTH).len()),
                case: json!({"kind": "alternation", "construct": c, "op": o, "depth": ALT_DEPTH}),
                size: ALT_DEPTH,
            }),
            Exit::Crashed(how) => acc.violation(Violation {
                sig: format!("alternation/{o}/{c}/crash"),
                what: format!("{o} of {ALT_DEPTH} levels of {c} on the main thread kills the process ({how})"),
                case: json!({"kind": "alternation", "construct": c, "op": o, "depth": ALT_DEPTH}),
                size: ALT_DEPTH,
            }),
        }
    }
    (n, n)
}

fn run_child(construct: &str, op: &str, depth: usize, stack: &str) -> Exit {
    let exe = std::env::current_exe().unwrap();
    let out = Command::new(exe).args(["c19-child", construct, op, &depth.to_string(), stack]).env("RUST_BACKTRACE", "0").output();
    match out {
        Err(e) => Exit::Other(format!("cannot spawn: {e}")),
        Ok(o) => {
            use std::os::unix::process::ExitStatusExt;
            if let Some(sig) = o.status.signal() {
                return Exit::Crashed(format!("signal {sig}"));
            }
            match o.status.code() {
                Some(0) => Exit::Completed,
                Some(c) => {
                    let err = String::from_utf8_lossy(&o.stderr);
                    if err.contains("overflowed its stack") {
                        Exit::Crashed(format!("exit {c}: stack overflow"))
                    } else {
                        Exit::Other(format!("exit {c}: {}", err.lines().next().unwrap_or("")))
                    }
                }
                None => Exit::Other("no exit code".into()),
            }
        }
    }
}

fn ladder() -> Vec<usize> {
    let mut v = Vec::new();
    let mut p = 10;
    while p <= 100_000 {
        for m in [1, 2, 5] {
            if p * m <= 100_000 {
                v.push(p * m);
            }
        }
        p *= 10;
    }
    // guard rung just beyond the stated range, so that cells whose threshold lies within a factor
    // two of 10^5 are known (and listed) rather than flipping with the size of the stack
    v.push(200_000);
    v
}

pub fn run(tier: Tier) -> i32 {
    let mut rep = Report::new("C19", tier);
    let known = KnownFindings::load();
    let stacks = ["main", "2048"];
    let mut depths = ladder();
    if tier == Tier::Thorough {
        depths.extend(1..=256);
        depths.sort();
        depths.dedup();
    }
    rep.bound("constructs", CONSTRUCTS.to_vec());
    rep.bound("operations", OPS.to_vec());
    rep.bound("stacks", vec!["main thread (process limit)", "worker thread, 2 MiB"]);
    rep.bound("depths", if tier == Tier::Quick { json!(depths) } else { json!("1..256 and 10,20,50,...,100000, plus bisection of every crash threshold") });
    let mut cells: Vec<(&str, &str, &str)> = Vec::new();
    for c in CONSTRUCTS {
        for o in OPS {
            for s in stacks {
                cells.push((c, o, s));
            }
        }
    }
    // every grammar production around a deep operand, through the parse entry points
    let ctx_names: Vec<String> = (0..CONTEXTS.len()).flat_map(|i| ["access", "unary"].into_iter().map(move |f| format!("ctx{i}-{f}"))).collect();
    for c in &ctx_names {
        for o in ["parse", "rule-parse"] {
            for s in stacks {
                cells.push((c.as_str(), o, s));
            }
        }
    }
    // deep *values* travelling between user functions during the evaluation of a flat text
    for c in ["deep-fn-value", "deep-fn-result", "deep-fn-value-in-list", "many-cached-calls"] {
        for s in stacks {
            cells.push((c, "evaluate", s));
        }
    }
    rep.bound("deep_value_constructs", vec!["deep-fn-value", "deep-fn-result", "deep-fn-value-in-list"]);
    rep.bound("context_constructs", CONTEXTS.to_vec());
    // per cell: run the ladder upwards until the first crash (stack use is monotone in depth)
    let results: Vec<(usize, Option<(usize, String)>, u64, Option<usize>, Vec<String>)> = cells
        .par_iter()
        .enumerate()
        .map(|(ci, (c, o, s))| {
            let mut runs = 0u64;
            let mut first_crash: Option<(usize, String)> = None;
            let mut last_ok: usize = 0;
            let mut other: Vec<String> = Vec::new();
            for &d in &depths {
                runs += 1;
                match run_child(c, o, d, s) {
                    Exit::Completed => last_ok = d,
                    Exit::Crashed(how) => {
                        first_crash = Some((d, how));
                        break;
                    }
                    Exit::Other(m) => {
                        other.push(format!("{c}/{o}/{s} depth {d}: {m}"));
                        break;
                    }
                    Exit::Hung(t) => {
                        other.push(format!("{c}/{o}/{s} depth {d}: no result after {t} s"));
                        break;
                    }
                }
            }
            // thorough: bisect the threshold between the last good and the first bad depth
            let mut threshold = None;
            if tier == Tier::Thorough {
                if let Some((bad, _)) = &first_crash {
                    let (mut lo, mut hi) = (last_ok, *bad);
                    while hi - lo > (hi / 50).max(1) {
                        let mid = (lo + hi) / 2;
                        runs += 1;
                        match run_child(c, o, mid, s) {
                            Exit::Completed => lo = mid,
                            _ => hi = mid,
                        }
                    }
                    threshold = Some(hi);
                }
            }
            (ci, first_crash, runs, threshold, other)
        })
        .collect();
    let mut acc = Acc::new();
    let mut thresholds = Vec::new();
    let mut total_runs = 0u64;
    for (ci, first_crash, runs, threshold, other) in results {
        let (c, o, s) = cells[ci];
        total_runs += runs;
        for m in other {
            acc.machinery(m);
        }
        let key = format!("{o}/{c}/{s}");
        match first_crash {
            None => acc.outcome(format!("{o}:survives-200000")),
            Some((d, how)) => {
                acc.outcome(format!("{o}:crashes"));
                thresholds.push(json!({"cell": key, "first_crashing_depth_on_ladder": d, "bisected_threshold": threshold, "how": how}));
                // a listed finding covers the cell as long as the crash does not start more than 4x
                // below the recorded depth
                let listed_min: Option<usize> = known
                    .lookup("C19", &key)
                    .and_then(|desc| desc.split(' ').find_map(|t| t.strip_prefix("min_depth=")).and_then(|v| v.parse().ok()));
                let seen = threshold.unwrap_or(d);
                let sig = match listed_min {
                    Some(m) if seen * 4 > m => key.clone(),
                    Some(m) => format!("{key}/regressed-to-{seen}-from-{m}"),
                    None => format!("{key}/first-crash-at-{d}"),
                };
                acc.violation(Violation {
                    sig,
                    what: format!("{o} of a {c} of depth {d} on the {} stack kills the process ({how})", if s == "main" { "main-thread".to_string() } else { format!("{s} KiB worker") }),
                    case: json!({"kind": "child", "construct": c, "op": o, "depth": d, "stack": s}),
                    size: d,
                });
            }
        }
    }
    let (alt_cells, alt_runs) = alternation_leg(&mut acc);
    total_runs += alt_runs;
    rep.bound("alternation_leg", format!("{} x {} ordered pairs of wrappers ({:?}) x {} operations at depth {ALT_DEPTH}, {ALT_SECONDS} s limit per run", WRAPPERS.len(), WRAPPERS.len(), WRAPPERS, ALT_OPS.len()));
    acc.count("executions", total_runs);
    acc.sample("child-run", 1, || json!({"construct": "if-cond-chain", "op": "evaluate", "depth": 2000, "stack": "main", "text_prefix": text_for("if-cond-chain", 2).chars().take(40).collect::<String>()}));
    rep.absorb(acc);
    rep.extra.insert("crash_thresholds".into(), json!(thresholds));
    rep.states = cells.len() as u64 + alt_cells;
    rep.transitions = total_runs;
    rep.traces = total_runs;
    rep.rule = "E7 process grid: every (recursive construct x operation x stack) cell is driven up a depth ladder (10, 20, 50, ... 100000; thorough additionally every depth 1..256 and a bisection of each crash threshold), each run in a child process whose exit status is the observation; states = cells, transitions = child runs".into();
    rep.assume("stack use is monotone in nesting depth for each construct, so a ladder plus bisection stands for all depths up to 10^5");
    rep.assume("trees for display/debug/clone/eq/drop/evaluate are obtained through the parser and leaked afterwards, so each run exercises exactly one operation");
    rep.finish()
}

pub fn replay(case: &serde_json::Value) -> i32 {
    let c = case.get("construct").and_then(|s| s.as_str()).unwrap_or("");
    let o = case.get("op").and_then(|s| s.as_str()).unwrap_or("");
    let d = case.get("depth").and_then(|s| s.as_u64()).unwrap_or(1) as usize;
    let s = case.get("stack").and_then(|s| s.as_str()).unwrap_or("main");
    if case.get("kind").and_then(|k| k.as_str()) == Some("alternation") {
        let r = run_child_limited(c, o, d, "main", ALT_SECONDS);
        println!("{o} on {c} depth {d}: {r:?}");
        return match r {
            Exit::Completed => 0,
            Exit::Hung(_) | Exit::Crashed(_) => 1,
            Exit::Other(m) if m == "exit 3" => 1,
            Exit::Other(_) => 2,
        };
    }
    let r1 = run_child(c, o, d, s);
    let r2 = run_child(c, o, d, s);
    println!("{o} on {c} depth {d} stack {s}: {r1:?}");
    if r1 != r2 {
        println!("not deterministic: {r2:?}");
        return 2;
    }
    match r1 {
        Exit::Completed => 0,
        Exit::Crashed(_) => 1,
        Exit::Other(_) | Exit::Hung(_) => 2,
    }
}
