//! C05 — lazy where specified, otherwise exactly once, left to right, first error wins.
//! E1: every node kind with call-logging probes in every child position; every answer a probe
//! gives is a choice made when it is actually called.
use super::probe::*;
use crate::engine::choice::{explore, SharedChooser, TreeStats};
use crate::engine::exec::block_on;
use crate::engine::panic::catch;
use crate::engine::report::{Acc, Report, Tier, Violation};
use crate::spec::eval::*;
use crate::spec::re::*;
use crate::spec::rv::*;
use rayon::prelude::*;
use reval::prelude::*;
use serde_json::json;
use std::collections::BTreeMap;
use std::sync::{Arc, Mutex};

const N_ANSWERS: u32 = 7;

fn answer(idx: u32, token: u64) -> Result<RV, RErr> {
    match idx {
        0 => Ok(RV::Bool(true)),
        1 => Ok(RV::Bool(false)),
        2 => Ok(RV::None),
        3 => Ok(RV::Int(7)),
        4 => Ok(RV::float(f64::NAN)),
        // 5: the harness's own error; 6: the error a function gets from `param.try_into()?` on none
        _ => Err(RErr::UserFunctionError(String::new(), token)),
    }
}

/// symbols registered in every C05 ruleset and fields of its input, by the same names
fn fixed_env() -> Vec<(&'static str, RV)> {
    vec![("on", RV::Bool(true)), ("off", RV::Bool(false)), ("nn", RV::None), ("n7", RV::Int(7)), ("st", RV::str("true")), ("sf", RV::str("false"))]
}

fn fixed_facts() -> RV {
    RV::Map(fixed_env().into_iter().map(|(k, v)| (k.to_string(), v)).collect())
}

fn fixed_container() -> RV {
    RV::map(&[("a", RV::Int(1)), ("l", RV::List(vec![RV::Int(2)]))])
}

#[derive(Default)]
struct World {
    /// every call suspends once before answering (order must not depend on it)
    suspend: bool,
    chooser: Option<SharedChooser>,
    log: Vec<(String, RV)>,
    answers: Vec<u32>,
}

/// kinds of parent nodes: (label, arity, builder)
#[derive(Clone)]
pub struct Kind {
    pub label: String,
    pub arity: usize,
    pub build: Arc<dyn Fn(Vec<RE>) -> RE + Send + Sync>,
}

pub fn kinds() -> Vec<Kind> {
    let mut v: Vec<Kind> = Vec::new();
    for op in ALL_UNOPS {
        v.push(Kind { label: format!("{op:?}"), arity: 1, build: Arc::new(move |mut c| RE::un(op, c.remove(0))) });
    }
    for op in ALL_BINOPS {
        v.push(Kind {
            label: format!("{op:?}"),
            arity: 2,
            build: Arc::new(move |mut c| {
                let l = c.remove(0);
                RE::bin(op, l, c.remove(0))
            }),
        });
    }
    v.push(Kind {
        label: "If".into(),
        arity: 3,
        build: Arc::new(|mut c| {
            let a = c.remove(0);
            let b = c.remove(0);
            RE::iff(a, b, c.remove(0))
        }),
    });
    v.push(Kind { label: "IndexField".into(), arity: 1, build: Arc::new(|mut c| RE::idxf(c.remove(0), "a")) });
    v.push(Kind { label: "IndexPos".into(), arity: 1, build: Arc::new(|mut c| RE::idxn(c.remove(0), 0)) });
    v.push(Kind { label: "List2".into(), arity: 2, build: Arc::new(RE::List) });
    v.push(Kind { label: "List3".into(), arity: 3, build: Arc::new(RE::List) });
    // map keys are written out of order: the first child gets the *last* key
    v.push(Kind {
        label: "Map2".into(),
        arity: 2,
        build: Arc::new(|c| RE::Map(["b", "a"].iter().map(|k| k.to_string()).zip(c).collect())),
    });
    v.push(Kind {
        label: "Map3".into(),
        arity: 3,
        build: Arc::new(|c| RE::Map(["m", "z", "a"].iter().map(|k| k.to_string()).zip(c).collect())),
    });
    v.push(Kind { label: "Call".into(), arity: 1, build: Arc::new(|mut c| RE::call("q", c.remove(0))) });
    v
}

/// kinds used by C05 only: a call of a function that is not registered still evaluates its
/// argument first (the argument's calls and errors come before the unknown-function error)
fn c05_only_kinds() -> Vec<Kind> {
    vec![Kind { label: "CallUnknown".into(), arity: 1, build: Arc::new(|mut c| RE::call("nosuchfn", c.remove(0))) }]
}

/// wider constructors, used at depth 1 only (6 probes: 5^6 histories each)
fn wide_kinds() -> Vec<Kind> {
    vec![
        Kind { label: "List6".into(), arity: 6, build: Arc::new(RE::List) },
        Kind {
            label: "Map6".into(),
            arity: 6,
            build: Arc::new(|c| RE::Map(["k10", "k2", "k1", "K", "z", "a"].iter().map(|k| k.to_string()).zip(c).collect())),
        },
        Kind {
            label: "IfChain".into(),
            arity: 5,
            build: Arc::new(|mut c| {
                let e = c.pop().unwrap();
                let t2 = c.pop().unwrap();
                let c2 = c.pop().unwrap();
                let t1 = c.pop().unwrap();
                let c1 = c.pop().unwrap();
                RE::iff(c1, t1, RE::iff(c2, t2, e))
            }),
        },
        Kind {
            label: "AndOrChain".into(),
            arity: 5,
            build: Arc::new(|mut c| {
                let e = c.pop().unwrap();
                let d = c.pop().unwrap();
                let cc = c.pop().unwrap();
                let b = c.pop().unwrap();
                let a = c.pop().unwrap();
                RE::bin(BinOp::Or, RE::bin(BinOp::And, RE::bin(BinOp::Or, a, b), RE::bin(BinOp::And, cc, d)), e)
            }),
        },
    ]
}

fn probe_leaf(n: &mut i128) -> RE {
    let e = RE::call("p", RE::Val(RV::Int(*n)));
    *n += 1;
    e
}

struct Shape {
    pub label: String,
    tree: RE,
}

fn shapes(tier: Tier) -> Vec<Shape> {
    let mut ks = kinds();
    ks.extend(c05_only_kinds());
    let mut out = Vec::new();
    // depth 1
    for k in &ks {
        let mut n = 0;
        let children: Vec<RE> = (0..k.arity).map(|_| probe_leaf(&mut n)).collect();
        out.push(Shape { label: k.label.clone(), tree: (k.build)(children) });
    }
    // the same cacheable call written twice around a non-cacheable probe
    for (label, tree) in [
        ("SameCacheableCallTwice/Add", RE::bin(BinOp::Add, RE::call("k", RE::call("p", RE::Val(RV::Int(0)))), RE::call("k", RE::call("p", RE::Val(RV::Int(0)))))),
        ("SameCacheableCallTwice/List", RE::List(vec![RE::call("k", RE::call("p", RE::Val(RV::Int(0)))), RE::call("q", RE::Val(RV::Int(1))), RE::call("k", RE::call("p", RE::Val(RV::Int(0))))])),
        ("SameCacheableCallTwice/If", RE::iff(RE::call("k", RE::call("p", RE::Val(RV::Int(0)))), RE::call("k", RE::call("p", RE::Val(RV::Int(0)))), RE::call("k", RE::call("q", RE::Val(RV::Int(0)))))),
        ("CacheableInsideNonCacheable", RE::List(vec![RE::call("q", RE::call("k", RE::Val(RV::Int(1)))), RE::call("q", RE::call("k", RE::Val(RV::Int(1)))), RE::call("k", RE::Val(RV::Int(2)))])),
        ("SameCacheableCallOnIndexedCall/List", RE::List(vec![RE::call("k", RE::idxf(RE::call("m", RE::Val(RV::Int(1))), "a")), RE::call("k", RE::idxf(RE::call("m", RE::Val(RV::Int(1))), "a"))])),
        ("SameCacheableCallOnIndexedCall/Add", RE::bin(BinOp::Add, RE::call("k", RE::idxn(RE::idxf(RE::call("m", RE::Val(RV::Int(1))), "l"), 0)), RE::call("k", RE::idxn(RE::idxf(RE::call("m", RE::Val(RV::Int(1))), "l"), 0)))),
        ("SameCacheableCallOnIndexedProbe", RE::List(vec![RE::call("k", RE::idxf(RE::call("p", RE::Val(RV::Int(0))), "a")), RE::call("k", RE::idxf(RE::call("p", RE::Val(RV::Int(0))), "a"))])),
        ("NestedThenSibling", RE::List(vec![RE::call("q", RE::call("p", RE::Val(RV::Int(1)))), RE::call("q", RE::Val(RV::Int(2))), RE::call("p", RE::Val(RV::Int(3)))])),
    ] {
        out.push(Shape { label: label.to_string(), tree });
    }
    // every operand the very same non-cacheable call (`p(i0) and p(i0)`): textually identical
    // operands are still evaluated one by one; also identical calls one level down
    for k in ks.iter().filter(|k| k.arity >= 2) {
        let same = || RE::call("p", RE::Val(RV::Int(0)));
        out.push(Shape { label: format!("{}/identical-operands", k.label), tree: (k.build)((0..k.arity).map(|_| same()).collect()) });
        let nested = || RE::un(UnOp::Not, RE::call("p", RE::Val(RV::Int(0))));
        out.push(Shape { label: format!("{}/identical-nested-operands", k.label), tree: (k.build)((0..k.arity).map(|_| nested()).collect()) });
        let q = || RE::call("q", RE::call("p", RE::Val(RV::Int(0))));
        out.push(Shape { label: format!("{}/identical-call-chains", k.label), tree: (k.build)((0..k.arity).map(|_| q()).collect()) });
    }
    // mixed leaves: some child positions are not probes but a symbol, an input field or a constant
    // holding true / false / none / a non-boolean (whatever sits next to a probe, the probe is
    // invoked exactly when the language says so)
    for k in ks.iter().filter(|k| k.arity >= 2) {
        for mask in 1u32..((1 << k.arity) - 1) {
            for (route, rname) in ["sym", "field", "const"].iter().enumerate().map(|(i, n)| (i, *n)) {
                for (name, val) in fixed_env() {
                    let mut n = 0;
                    let children: Vec<RE> = (0..k.arity)
                        .map(|i| {
                            if mask >> i & 1 == 1 {
                                match route {
                                    0 => RE::Sym(name.to_string()),
                                    1 => RE::reff(name),
                                    _ => RE::Val(val.clone()),
                                }
                            } else {
                                probe_leaf(&mut n)
                            }
                        })
                        .collect();
                    out.push(Shape { label: format!("{}/fixed{mask:03b}/{rname}:{name}", k.label), tree: (k.build)(children) });
                }
            }
        }
    }
    // the fixed leaf under a `!`, or a conjunction of two of them, next to a probe
    for (lbl, op) in [("And", BinOp::And), ("Or", BinOp::Or)] {
        for (name, _) in fixed_env() {
            for (vi, fixed) in [
                RE::un(UnOp::Not, RE::Sym(name.to_string())),
                RE::bin(BinOp::And, RE::Sym(name.to_string()), RE::Sym("on".into())),
                RE::bin(BinOp::Or, RE::Sym(name.to_string()), RE::Sym("off".into())),
                RE::un(UnOp::Not, RE::reff(name)),
            ]
            .into_iter()
            .enumerate()
            {
                let mut n = 0;
                out.push(Shape { label: format!("{lbl}/probe-then-fixed{vi}/{name}"), tree: RE::bin(op, probe_leaf(&mut n), fixed.clone()) });
                let mut n = 0;
                out.push(Shape { label: format!("{lbl}/fixed{vi}-then-probe/{name}"), tree: RE::bin(op, fixed, probe_leaf(&mut n)) });
            }
        }
    }
    for k in &wide_kinds() {
        let mut n = 0;
        let children: Vec<RE> = (0..k.arity).map(|_| probe_leaf(&mut n)).collect();
        out.push(Shape { label: k.label.clone(), tree: (k.build)(children) });
    }
    // depth 2: one nested child
    for parent in &ks {
        for pos in 0..parent.arity {
            for child in &ks {
                let mut n = 0;
                let mut children = Vec::new();
                for i in 0..parent.arity {
                    if i == pos {
                        let cc: Vec<RE> = (0..child.arity).map(|_| probe_leaf(&mut n)).collect();
                        children.push((child.build)(cc));
                    } else {
                        children.push(probe_leaf(&mut n));
                    }
                }
                out.push(Shape { label: format!("{}[{}]={}", parent.label, pos, child.label), tree: (parent.build)(children) });
            }
        }
    }
    // errors that no function raises (missing input field, unknown symbol, division by zero, type
    // error, failed cast) as the first operand of a nested node, next to probes: an error raised
    // anywhere inside an operand ends the evaluation, whatever the node around it is
    {
        let error_leaves: Vec<(&str, RE)> = vec![
            ("missing-field", RE::reff("missing")),
            ("unknown-symbol", RE::Sym("nosuch".into())),
            ("division-by-zero", RE::bin(BinOp::Div, RE::Val(RV::Int(1)), RE::Val(RV::Int(0)))),
            ("type-error", RE::bin(BinOp::Add, RE::Val(RV::Int(1)), RE::Val(RV::str("a")))),
            ("failed-cast", RE::un(UnOp::Int, RE::Val(RV::str("zz")))),
        ];
        let n_err = tier.pick(3usize, 5usize);
        for parent in ks.iter().filter(|k| k.arity >= 2) {
            for pos in 0..parent.arity {
                for child in &ks {
                    for (ename, eleaf) in error_leaves.iter().take(n_err) {
                        for epos in 0..child.arity {
                            let mut n = 0;
                            let mut children = Vec::new();
                            for i in 0..parent.arity {
                                if i == pos {
                                    let cc: Vec<RE> = (0..child.arity).map(|j| if j == epos { eleaf.clone() } else { probe_leaf(&mut n) }).collect();
                                    children.push((child.build)(cc));
                                } else {
                                    children.push(probe_leaf(&mut n));
                                }
                            }
                            out.push(Shape { label: format!("{}[{}]={}[{}]={}", parent.label, pos, child.label, epos, ename), tree: (parent.build)(children) });
                        }
                    }
                }
            }
        }
    }
    // thorough: every child position of multi-child parents nested at once, children from a
    // representative set of lazy and strict kinds
    if tier == Tier::Thorough {
        let reps: Vec<&Kind> = ks
            .iter()
            .filter(|k| ["If", "And", "Or", "Eq", "Neq", "Add", "List2", "Map2", "Call", "Not", "Contains", "Gt"].contains(&k.label.as_str()))
            .collect();
        for parent in ks.iter().filter(|k| k.arity == 2) {
            for c0 in &reps {
                for c1 in &reps {
                    let mut n = 0;
                    let a: Vec<RE> = (0..c0.arity).map(|_| probe_leaf(&mut n)).collect();
                    let b: Vec<RE> = (0..c1.arity).map(|_| probe_leaf(&mut n)).collect();
                    out.push(Shape {
                        label: format!("{}({},{})", parent.label, c0.label, c1.label),
                        tree: (parent.build)(vec![(c0.build)(a), (c1.build)(b)]),
                    });
                }
            }
        }
        // depth 3: every chain of three kinds in every position
        for k1 in &ks {
            for p1 in 0..k1.arity {
                for k2 in &ks {
                    for p2 in 0..k2.arity {
                        for k3 in &ks {
                            if k1.arity + k2.arity + k3.arity > 6 {
                                continue; // keeps a shape at <= 5 probes (5^5 histories)
                            }
                            let mut n = 0;
                            let mut c1 = Vec::new();
                            for i in 0..k1.arity {
                                if i == p1 {
                                    let mut c2 = Vec::new();
                                    for j in 0..k2.arity {
                                        if j == p2 {
                                            let c3: Vec<RE> = (0..k3.arity).map(|_| probe_leaf(&mut n)).collect();
                                            c2.push((k3.build)(c3));
                                        } else {
                                            c2.push(probe_leaf(&mut n));
                                        }
                                    }
                                    c1.push((k2.build)(c2));
                                } else {
                                    c1.push(probe_leaf(&mut n));
                                }
                            }
                            out.push(Shape { label: format!("{}[{}]={}[{}]={}/d3", k1.label, p1, k2.label, p2, k3.label), tree: (k1.build)(c1) });
                        }
                    }
                }
            }
        }
        // depth 3 along lazy spines (also the wider ones)
        let lazy: Vec<&Kind> = ks.iter().filter(|k| ["If", "And", "Or", "Eq"].contains(&k.label.as_str())).collect();
        for k1 in &lazy {
            for p1 in 0..k1.arity {
                for k2 in &lazy {
                    for p2 in 0..k2.arity {
                        for k3 in &lazy {
                            let mut n = 0;
                            let mut c1 = Vec::new();
                            for i in 0..k1.arity {
                                if i == p1 {
                                    let mut c2 = Vec::new();
                                    for j in 0..k2.arity {
                                        if j == p2 {
                                            let c3: Vec<RE> = (0..k3.arity).map(|_| probe_leaf(&mut n)).collect();
                                            c2.push((k3.build)(c3));
                                        } else {
                                            c2.push(probe_leaf(&mut n));
                                        }
                                    }
                                    c1.push((k2.build)(c2));
                                } else {
                                    c1.push(probe_leaf(&mut n));
                                }
                            }
                            out.push(Shape {
                                label: format!("{}[{}]={}[{}]={}", k1.label, p1, k2.label, p2, k3.label),
                                tree: (k1.build)(c1),
                            });
                        }
                    }
                }
            }
        }
    }
    out
}

/// reference environment replaying the recorded answers
struct ScriptEnv<'a> {
    /// number of answers consumed so far (calls of `m` consume none)
    ans_pos: usize,
    /// per-evaluation cache of the cacheable probe `k`
    cache: BTreeMap<RV, RV>,
    answers: &'a [u32],
    log: Vec<(String, RV)>,
    overrun: bool,
    facts: RV,
}

impl Env for ScriptEnv<'_> {
    fn facts(&self) -> &RV {
        &self.facts
    }
    fn symbol(&self, name: &str) -> Option<RV> {
        fixed_env().into_iter().find(|(n, _)| *n == name).map(|(_, v)| v)
    }
    fn call(&mut self, name: &str, arg: &RV) -> RRes {
        if name == "m" {
            self.log.push((name.to_string(), arg.clone()));
            return Ok(fixed_container());
        }
        if name != "p" && name != "q" && name != "k" {
            return Err(RErr::UnknownUserFunction(name.to_string()));
        }
        if name == "k" {
            if let Some(v) = self.cache.get(arg) {
                return Ok(v.clone());
            }
        }
        let k = self.log.len();
        self.log.push((name.to_string(), arg.clone()));
        let ai = self.ans_pos;
        self.ans_pos += 1;
        match self.answers.get(ai) {
            None => {
                self.overrun = true;
                Err(RErr::Unspecified)
            }
            Some(a) => {
                let r = answer(*a, k as u64).map_err(|e| match e {
                    RErr::UserFunctionError(_, t) => RErr::UserFunctionError(name.to_string(), t),
                    o => o,
                });
                if name == "k" {
                    if let Ok(v) = &r {
                        self.cache.insert(arg.clone(), v.clone());
                    }
                }
                r
            }
        }
    }
}

fn make_ruleset(tree: &RE, world: &Arc<Mutex<World>>) -> Result<RuleSet, String> {
    let w = world.clone();
    let handler: Handler = Arc::new(move |name, param| {
        let mut g = w.lock().unwrap();
        let k = g.log.len() as u64;
        g.log.push((name.to_string(), RV::from_value(&param)));
        if name == "m" {
            // logging, no choice: always the same container
            let susp = if g.suspend { 1 } else { 0 };
            return (Ok(fixed_container().to_value()), susp);
        }
        let a = match &g.chooser {
            Some(c) => c.lock().unwrap().choose(N_ANSWERS),
            None => 0,
        };
        g.answers.push(a);
        let r = match answer(a, k) {
            Ok(v) => Ok(v.to_value()),
            Err(_) if a == 6 => Err(anyhow::Error::new(reval::Error::UnexpectedValueType(Value::None, format!("harness#{k}")))),
            // the harness's own failure travels as different error types depending on where in the
            // history it happens: plain, or inside an io::Error of a kind callers like to retry
            Err(_) => Err(match k % 4 {
                0 => anyhow::Error::new(Injected(k)),
                1 => anyhow::Error::new(std::io::Error::new(std::io::ErrorKind::Interrupted, Injected(k))),
                2 => anyhow::Error::new(std::io::Error::new(std::io::ErrorKind::WouldBlock, Injected(k))),
                _ => anyhow::Error::new(std::io::Error::new(std::io::ErrorKind::TimedOut, Injected(k))),
            }),
        };
        (r, if g.suspend { 1 } else { 0 })
    });
    let expr = tree.try_to_expr().map_err(|p| format!("constructor panicked: {p}"))?;
    let mut b = ruleset();
    for (n, v) in fixed_env() {
        b = b.with_symbol(n, v.to_value());
    }
    b.with_rule(Rule::new("r", BTreeMap::new(), expr))
        .and_then(|b| b.with_function(probe("p", false, &handler)))
        .and_then(|b| b.with_function(probe("k", true, &handler)))
        .and_then(|b| b.with_function(probe("m", false, &handler)))
        // the second probe goes through the boxed registration entry point
        .and_then(|b| b.with_functions(vec![Box::new(probe("q", false, &handler)) as Box<dyn UserFunction + Send + Sync + 'static>]))
        .map(|b| b.build())
        .map_err(|e| format!("cannot build ruleset: {e}"))
}

/// run one history (forced answers = prefix, default afterwards); returns (obs, log, answers)
fn run_once(rs: &RuleSet, world: &Arc<Mutex<World>>, ch: Option<SharedChooser>, suspend: bool) -> (Obs, Vec<(String, RV)>, Vec<u32>) {
    {
        let mut g = world.lock().unwrap();
        g.suspend = suspend;
        g.chooser = ch;
        g.log.clear();
        g.answers.clear();
    }
    let facts = fixed_facts().to_value();
    let r = catch(|| block_on(rs.evaluate_value(&facts)));
    let obs = match r {
        Err(p) => Obs::Panic(p),
        Ok(Err(m)) => Obs::Panic(format!("MACHINERY: {m}")),
        Ok(Ok(Err(e))) => Obs::Panic(format!("MACHINERY: evaluate_value failed: {e}")),
        Ok(Ok(Ok(out))) => {
            if out.len() != 1 {
                Obs::Panic(format!("MACHINERY: {} outcomes", out.len()))
            } else {
                observe(Ok(out.into_iter().next().unwrap().value))
            }
        }
    };
    let mut g = world.lock().unwrap();
    g.chooser = None;
    (obs, std::mem::take(&mut g.log), std::mem::take(&mut g.answers))
}

fn check_history(shape_label: &str, tree: &RE, obs: &Obs, log: &[(String, RV)], answers: &[u32], acc: &mut Acc) {
    let mut env = ScriptEnv { ans_pos: 0, cache: BTreeMap::new(), answers, log: Vec::new(), overrun: false, facts: fixed_facts() };
    let exp = eval(tree, &mut env);
    acc.count("executions", 1);
    acc.outcome(format!("{}:calls={}", obs.class(), log.len()));
    let fmt_log = |l: &[(String, RV)]| l.iter().map(|(n, a)| format!("{n}({})", a.show())).collect::<Vec<_>>().join(" ");
    let mut problem: Option<(String, String)> = None;
    if env.overrun {
        problem = Some((
            "missing-call".into(),
            format!("reference invokes {} but the implementation only made {} call(s): [{}]", fmt_log(&env.log), log.len(), fmt_log(log)),
        ));
    } else if env.log != log {
        let which = if log.len() > env.log.len() { "extra-call" } else if log.len() < env.log.len() { "missing-call" } else { "order" };
        problem = Some((which.into(), format!("invocation history [{}] differs from the reference [{}]", fmt_log(log), fmt_log(&env.log))));
    } else if conforms(&exp, obs) == Some(false) {
        problem = Some(("result".into(), format!("result {} differs from the reference {}", obs.show(), show_exp(&exp))));
    }
    if let Some((which, desc)) = problem {
        acc.violation(Violation {
            sig: format!("{shape_label}/{which}"),
            what: format!("{} with answers {:?}: {}", tree.unparse().unwrap_or_else(|| format!("{tree:?}")), answers, desc),
            case: json!({"kind": "history", "shape": shape_label, "answers": answers}),
            size: answers.len() * 10 + answers.iter().sum::<u32>() as usize,
        });
    }
}

fn explore_shape(shape: &Shape, acc: &mut Acc) -> TreeStats {
    let world = Arc::new(Mutex::new(World::default()));
    let rs = match make_ruleset(&shape.tree, &world) {
        Ok(r) => r,
        Err(m) => {
            acc.machinery(m);
            return TreeStats::default();
        }
    };
    // the textual form must parse to the same tree (so parsed expressions are covered as well)
    if let Some(text) = shape.tree.unparse() {
        match super::common::parse_expr(&text) {
            Ok(Ok(e)) => {
                if RE::from_expr(&e) == shape.tree {
                    acc.count("shapes_also_reached_by_parsing", 1);
                } else {
                    acc.count("shapes_text_parses_differently", 1);
                }
            }
            _ => acc.count("shapes_text_rejected", 1),
        }
    }
    let res = explore(&[], None, 2_000_000, |ch, _| {
        let (obs, log, answers) = run_once(&rs, &world, Some(ch.clone()), false);
        check_history(&shape.label, &shape.tree, &obs, &log, &answers, acc);
        // the same history with every call suspending once: same invocation order, same result
        let replay = Arc::new(Mutex::new(crate::engine::choice::Chooser::with_prefix(answers.clone())));
        let (obs2, log2, answers2) = run_once(&rs, &world, Some(replay), true);
        if answers2.len() >= answers.len() && answers2[..answers.len()] == answers[..] {
            check_history(&format!("{}/suspending", shape.label), &shape.tree, &obs2, &log2, &answers2, acc);
        } else {
            check_history(&format!("{}/suspending", shape.label), &shape.tree, &obs2, &log2, &answers2, acc);
        }
    });
    acc.sample("shape", 4, || json!({"shape": shape.label, "expr": shape.tree.unparse()}));
    match res {
        Ok(s) => s,
        Err((s, m)) => {
            acc.machinery(format!("shape {}: {m}", shape.label));
            s
        }
    }
}

/// `x in y` is written item first: its operands are evaluated in the order they are written, like
/// those of every other strict operator.  Texts with `in` (the tree legs only know the swapped
/// `contains` node), every history of probe answers; oracle for the order: probes are invoked in
/// ascending number (= text order) until one fails.
fn in_operator_leg(acc: &mut Acc) {
    let texts = ["p(i0) in p(i1)", "p(i0) in [p(i1)]", "p(i0) in [p(i1), p(i2)]", "[p(i0)] in p(i1)", "(p(i0) in p(i1)) and p(i2)", "p(i0) contains p(i1)", "[p(i0), p(i1) in p(i2)]"];
    for text in texts {
        let parsed = match super::common::parse_expr(text) {
            Ok(Ok(e)) => e,
            other => {
                acc.machinery(format!("in-operator text {text:?} does not parse: {other:?}"));
                continue;
            }
        };
        let tree = RE::from_expr(&parsed);
        let world = Arc::new(Mutex::new(World::default()));
        let rs = match make_ruleset(&tree, &world) {
            Ok(r) => r,
            Err(m) => {
                acc.machinery(m);
                continue;
            }
        };
        let res = explore(&[], None, 100_000, |ch, _| {
            let (_obs, log, answers) = run_once(&rs, &world, Some(ch.clone()), false);
            acc.count("executions", 1);
            acc.count("in_operator_histories", 1);
            let got: Vec<i128> = log.iter().filter_map(|(_, a)| if let RV::Int(i) = a { Some(*i) } else { None }).collect();
            // text order, cut after the first failing answer; `and` stops after a left operand that is not `true`
            let mut want: Vec<i128> = Vec::new();
            for (i, a) in answers.iter().enumerate() {
                want.push(i as i128);
                if *a >= 5 {
                    break;
                }
            }
            let in_order = got.windows(2).all(|w| w[0] < w[1]);
            if !in_order || (got != want && got.len() == want.len()) {
                acc.violation(Violation {
                    sig: format!("in-operator-text-order/{}", text.replace(' ', "")),
                    what: format!("`{text}` with answers {answers:?}: probes invoked in the order {got:?}; as written (left to right) it is {want:?}"),
                    case: json!({"kind": "in-operator", "text": text, "answers": answers}),
                    size: answers.len() * 10 + answers.iter().sum::<u32>() as usize,
                });
            }
            acc.outcome(format!("in-operator:{}", if in_order { "text-order" } else { "other-order" }));
        });
        if let Err((_, m)) = res {
            acc.machinery(format!("in-operator leg {text}: {m}"));
        }
    }
}

pub fn run(tier: Tier) -> i32 {
    let mut rep = Report::new("C05", tier);
    {
        let mut acc = Acc::new();
        in_operator_leg(&mut acc);
        rep.absorb(acc);
    }
    let shapes = shapes(tier);
    rep.bound("shapes", shapes.len());
    rep.bound("answers_per_probe", N_ANSWERS);
    rep.bound("depth", tier.pick("1 (all kinds) + 2 (every kind in every child position of every kind)", "as quick + both children nested over 12 representative kinds + every chain of three kinds in every position (<= 5 probes) + depth 3 along lazy spines"));
    let (acc, stats) = shapes
        .par_iter()
        .map(|s| {
            let mut acc = Acc::new();
            let st = explore_shape(s, &mut acc);
            (acc, st)
        })
        .reduce(
            || (Acc::new(), TreeStats::default()),
            |(a, mut sa), (b, sb)| {
                sa.add(&sb);
                (a.merge(b), sa)
            },
        );
    rep.absorb(acc);
    rep.states = stats.nodes + shapes.len() as u64;
    rep.transitions = stats.edges;
    rep.traces = stats.leaves;
    rep.rule = "E1 choice-tree exploration: for every shape, every reachable history of probe answers (true/false/none/non-bool/failure, chosen when the probe is actually called); states = choice points, transitions = answers, executions = complete histories, each compared (exact invocation sequence + result) with the reference evaluator".into();
    rep.assume("probes are non-cacheable user functions in a real one-rule ruleset; the reference evaluator defines laziness and order");
    rep.finish()
}

pub fn replay(case: &serde_json::Value) -> i32 {
    if case.get("kind").and_then(|k| k.as_str()) == Some("in-operator") {
        let mut acc = Acc::new();
        in_operator_leg(&mut acc);
        let text = case.get("text").and_then(|t| t.as_str()).unwrap_or("");
        let mine: Vec<&Violation> = acc.violations.values().filter(|v| v.sig.ends_with(&text.replace(' ', ""))).collect();
        return if mine.is_empty() {
            println!("`{text}`: operands evaluated in the order written: holds");
            0
        } else {
            for v in mine {
                println!("verdict: VIOLATED — {}", v.what);
            }
            1
        };
    }
    let label = case.get("shape").and_then(|s| s.as_str()).unwrap_or("");
    let answers: Vec<u32> = case
        .get("answers")
        .and_then(|a| a.as_array())
        .map(|a| a.iter().filter_map(|x| x.as_u64().map(|v| v as u32)).collect())
        .unwrap_or_default();
    let all = shapes(Tier::Thorough);
    let shape = match all.iter().find(|s| s.label == label) {
        Some(s) => s,
        None => {
            println!("unknown shape {label}");
            return 2;
        }
    };
    let world = Arc::new(Mutex::new(World::default()));
    let rs = match make_ruleset(&shape.tree, &world) {
        Ok(r) => r,
        Err(m) => {
            println!("{m}");
            return 2;
        }
    };
    let mk = || Arc::new(Mutex::new(crate::engine::choice::Chooser::with_prefix(answers.clone())));
    let (o1, l1, a1) = run_once(&rs, &world, Some(mk()), false);
    let (o2, l2, _) = run_once(&rs, &world, Some(mk()), false);
    if o1 != o2 || l1 != l2 {
        println!("replay not deterministic");
        return 2;
    }
    println!("expression : {}", shape.tree.unparse().unwrap_or_default());
    println!("answers    : {a1:?}  (0=true 1=false 2=none 3=i7 4=NaN 5=failure 6=failure carrying a reval error about none)");
    println!("calls made : {:?}", l1.iter().map(|(n, a)| format!("{n}({})", a.show())).collect::<Vec<_>>());
    println!("result     : {}", o1.show());
    let mut acc = Acc::new();
    check_history(&shape.label, &shape.tree, &o1, &l1, &a1, &mut acc);
    if acc.violations.is_empty() {
        println!("verdict    : holds");
        0
    } else {
        for v in acc.violations.values() {
            println!("verdict    : VIOLATED — {}", v.what);
        }
        1
    }
}
