//! C17 — conversions between Value and Rust types are lossless or fail.
//! Product enumeration: whole range of the 8/16-bit types, every power of two +-1 and type limit
//! +-1 for the wider ones, every Value variant as source of every extraction target, lists and maps
//! with a non-convertible element at every position.
use crate::engine::panic::catch;
use crate::engine::report::{Acc, Report, Tier, Violation};
use crate::spec::rv::*;
use chrono::{DateTime, TimeDelta, Utc};
use reval::prelude::*;
use rust_decimal::Decimal;
use serde_json::json;
use std::collections::{BTreeMap, HashMap};

fn bad(acc: &mut Acc, sig: String, what: String) {
    acc.violation(Violation { size: what.len(), case: json!({"kind": "conversion", "what": what}), sig, what });
}

/// interesting i128 values: every 2^k, 2^k +- 1 (both signs), every integer type limit +- 1
fn int_points(tier: Tier) -> Vec<i128> {
    let mut v: Vec<i128> = Vec::new();
    for k in 0..127u32 {
        let p = 1i128 << k;
        for x in [p - 1, p, p + 1] {
            v.push(x);
            v.push(-x);
        }
    }
    v.extend([i128::MAX, i128::MAX - 1, i128::MIN, i128::MIN + 1]);
    let w = tier.pick(70_000i128, 300_000i128);
    v.extend(-w..=w);
    for c in [u32::MAX as i128, i32::MAX as i128, i32::MIN as i128, u64::MAX as i128, i64::MAX as i128, i64::MIN as i128] {
        v.extend(c - 300..=c + 300);
    }
    v.sort();
    v.dedup();
    v
}

macro_rules! int_target {
    ($acc:expr, $points:expr, $t:ty, $name:expr) => {{
        for &x in $points {
            $acc.count("executions", 1);
            let val = Value::Int(x);
            let r = catch(|| <$t>::try_from(val.clone()));
            let in_range = <$t>::try_from(x).ok();
            match (r, in_range) {
                (Err(p), _) => bad($acc, format!("extract-{}/panic", $name), format!("{}::try_from(Value::Int({x})) panicked: {p}", $name)),
                (Ok(Ok(got)), Some(want)) => {
                    if got != want {
                        bad($acc, format!("extract-{}/wrong-value", $name), format!("{}::try_from(Value::Int({x})) = {got}, expected {want}", $name));
                    }
                    $acc.outcome(format!("extract-{}:ok", $name));
                }
                (Ok(Err(reval::Error::NumericOverflow(_))), None) => $acc.outcome(format!("extract-{}:overflow", $name)),
                (Ok(Ok(got)), None) => bad($acc, format!("extract-{}/wrapped", $name), format!("{}::try_from(Value::Int({x})) = {got} although the number is outside the type's range", $name)),
                (Ok(Err(e)), None) => bad($acc, format!("extract-{}/wrong-error", $name), format!("{}::try_from(Value::Int({x})) failed with {e:?}, expected the overflow error", $name)),
                (Ok(Err(e)), Some(_)) => bad($acc, format!("extract-{}/refused", $name), format!("{}::try_from(Value::Int({x})) failed ({e:?}) although the number is in range", $name)),
            }
        }
    }};
}

macro_rules! int_roundtrip {
    ($acc:expr, $t:ty, $name:expr, $iter:expr) => {{
        for x in $iter {
            let x: $t = x;
            $acc.count("executions", 1);
            let r = catch(|| {
                let v: Value = x.into();
                (RV::from_value(&v), <$t>::try_from(v))
            });
            match r {
                Err(p) => bad($acc, format!("roundtrip-{}/panic", $name), format!("{x}{} -> Value -> {} panicked: {p}", $name, $name)),
                Ok((rv, back)) => {
                    if rv != RV::Int(x as i128) {
                        bad($acc, format!("roundtrip-{}/into", $name), format!("Value::from({x}{}) = {}", $name, rv.show()));
                    }
                    match back {
                        Ok(y) if y == x => $acc.outcome(format!("roundtrip-{}:ok", $name)),
                        other => bad($acc, format!("roundtrip-{}/back", $name), format!("{x}{} -> Value -> {} gave {other:?}", $name, $name)),
                    }
                }
            }
        }
    }};
}

fn wide_points<T: TryFrom<i128>>(points: &[i128]) -> Vec<T> {
    points.iter().filter_map(|&p| T::try_from(p).ok()).collect()
}

fn sources() -> Vec<RV> {
    let mut v = vec![
        RV::Str("s".into()),
        RV::Str(String::new()),
        RV::Str("long text ".repeat(500)),
        RV::Str("é".repeat(1100)),
        // strings that spell a value of another kind (extraction never parses text)
        RV::Str("2015-07-30T03:26:13Z".into()),
        RV::Str("2015-07-30 03:26:13 UTC".into()),
        RV::Str("1438226773".into()),
        RV::Str("true".into()),
        RV::Str("false".into()),
        RV::Str("5".into()),
        RV::Str("1.5".into()),
        RV::Str("d1.5".into()),
        RV::Str("PT5S".into()),
        RV::Str("5s".into()),
        RV::Str("none".into()),
        RV::Str("[1]".into()),
        RV::Str("{}".into()),
        RV::Int(0),
        RV::Int(1),
        RV::Int(1438226773),
        RV::float(1.0),
        RV::float(0.0),
        RV::Dec(RDec { neg: false, mant: 1, scale: 0 }),
        RV::Dur(0),
        RV::Dt(0, 0),
        RV::Int(5),
        RV::Int(i128::MAX),
        RV::float(1.5),
        RV::float(f64::NAN),
        RV::Dec(RDec { neg: false, mant: 15, scale: 1 }),
        RV::Bool(true),
        RV::Dt(1438226773, 5),
        RV::Dur(-1_500_000_000),
        RV::List(vec![]),
        RV::List(vec![RV::Int(1), RV::Str("x".into())]),
        RV::map(&[]),
        RV::map(&[("a", RV::Int(1))]),
        RV::None,
    ];
    // values shaped like another kind of container, or like a wrapped scalar (extraction never
    // re-interprets structure): one-element lists and one-entry maps around every scalar, lists of
    // [key, value] pairs and of {key, value} maps, maps whose keys are 0, 1, 2, ...
    for x in [RV::Int(5), RV::Str("s".into()), RV::Bool(true), RV::float(1.5), RV::Dec(RDec { neg: false, mant: 15, scale: 1 }), RV::Dt(0, 0), RV::Dur(1_000_000_000), RV::None] {
        v.push(RV::List(vec![x.clone()]));
        v.push(RV::List(vec![RV::List(vec![x.clone()])]));
        for k in ["value", "0", "Some", "some", "v"] {
            v.push(RV::map(&[(k, x.clone())]));
        }
        v.push(RV::List(vec![RV::List(vec![RV::Str("k".into()), x.clone()])]));
        v.push(RV::List(vec![RV::List(vec![RV::Str("content-type".into()), x.clone()]), RV::List(vec![RV::Str("x".into()), x.clone()])]));
        v.push(RV::List(vec![RV::map(&[("key", RV::Str("k".into())), ("value", x.clone())])]));
        v.push(RV::List(vec![RV::map(&[("k", x.clone())])]));
        v.push(RV::List(vec![RV::List(vec![RV::Int(0), x.clone()])]));
        v.push(RV::map(&[("0", x.clone()), ("1", x.clone())]));
        v.push(RV::map(&[("0", x.clone())]));
    }
    v.push(RV::List(vec![RV::Str("a".into()), RV::Str("b".into())]));
    v.push(RV::List(vec![RV::List(vec![RV::Str("a".into()), RV::Str("b".into())])]));
    v.push(RV::List(vec![RV::List(vec![RV::Str("a".into()), RV::Str("b".into())]), RV::List(vec![RV::Str("c".into()), RV::Str("d".into())])]));
    v.push(RV::map(&[("len", RV::Int(0))]));
    v.extend(crate::checks::pool::v0());
    v.extend(crate::checks::pool::sweep_lists());
    v.extend(crate::checks::pool::sweep_maps());
    v.sort();
    v.dedup();
    v
}

/// extraction of every variant into every non-integer target: succeeds exactly for the matching
/// variant, otherwise UnexpectedValueType carrying the offending value
macro_rules! kind_target {
    ($acc:expr, $t:ty, $name:expr, $matches:expr, $same:expr) => {{
        for src in sources() {
            $acc.count("executions", 1);
            let val = src.to_value();
            let r = catch(|| <$t>::try_from(val.clone()));
            let should: bool = $matches(&src);
            match r {
                Err(p) => bad($acc, format!("extract-{}/panic", $name), format!("{}::try_from({}) panicked: {p}", $name, src.show())),
                Ok(Ok(got)) => {
                    if !should {
                        bad($acc, format!("extract-{}/wrong-kind-accepted/{}", $name, src.ty().name()), format!("{}::try_from({}) succeeded", $name, src.show()));
                    } else if !$same(&got, &src) {
                        bad($acc, format!("extract-{}/altered", $name), format!("{}::try_from({}) returned a different value: {got:?}", $name, src.show()));
                    }
                    $acc.outcome(format!("extract-{}:ok", $name));
                }
                Ok(Err(reval::Error::UnexpectedValueType(v, _))) => {
                    if should {
                        bad($acc, format!("extract-{}/refused", $name), format!("{}::try_from({}) refused the right kind", $name, src.show()));
                    } else if RV::from_value(&v) != src && !(matches!(src, RV::Float(b) if f64::from_bits(b).is_nan()) ) {
                        bad($acc, format!("extract-{}/wrong-payload", $name), format!("{}::try_from({}) reports offending value {}", $name, src.show(), RV::from_value(&v).show()));
                    } else if RV::from_value(&v) != src {
                        bad($acc, format!("extract-{}/wrong-payload", $name), format!("{}::try_from({}) reports offending value {}", $name, src.show(), RV::from_value(&v).show()));
                    }
                    $acc.outcome(format!("extract-{}:type-error", $name));
                }
                Ok(Err(reval::Error::NumericOverflow(_))) if matches!(src, RV::Int(_)) && !should => $acc.outcome(format!("extract-{}:overflow", $name)),
                Ok(Err(e)) => {
                    if should {
                        bad($acc, format!("extract-{}/refused", $name), format!("{}::try_from({}) failed: {e:?}", $name, src.show()));
                    } else {
                        bad($acc, format!("extract-{}/wrong-error/{}", $name, src.ty().name()), format!("{}::try_from({}) failed with {e:?}, expected the type error carrying the value", $name, src.show()));
                    }
                }
            }
        }
    }};
}

fn element_pool() -> Vec<RV> {
    vec![RV::Int(1), RV::Int(127), RV::Int(128), RV::Int(-129), RV::Str("s".into()), RV::None, RV::List(vec![RV::Int(1)])]
}

/// expected result of converting an element to i8 / String
fn elem_i8(v: &RV) -> Result<i8, &'static str> {
    match v {
        RV::Int(i) => i8::try_from(*i).map_err(|_| "overflow"),
        _ => Err("type"),
    }
}
fn elem_string(v: &RV) -> Result<String, &'static str> {
    match v {
        RV::Str(s) => Ok(s.clone()),
        _ => Err("type"),
    }
}

fn collections(acc: &mut Acc, max_len: usize) {
    let pool = element_pool();
    // all element tuples up to max_len
    let mut tuples: Vec<Vec<RV>> = vec![vec![]];
    let mut frontier = tuples.clone();
    for _ in 0..max_len {
        let mut next = Vec::new();
        for t in &frontier {
            for e in &pool {
                let mut n = t.clone();
                n.push(e.clone());
                next.push(n);
            }
        }
        tuples.extend(next.iter().cloned());
        frontier = next;
    }
    for t in &tuples {
        let list = RV::List(t.clone()).to_value();
        let map_rv: BTreeMap<String, RV> = t.iter().enumerate().map(|(i, v)| (format!("k{i}"), v.clone())).collect();
        let map = RV::Map(map_rv.clone()).to_value();
        acc.count("executions", 4);
        // Vec<i8>
        let want: Result<Vec<i8>, &str> = t.iter().map(elem_i8).collect();
        match (catch(|| Vec::<i8>::try_from(list.clone())), &want) {
            (Err(p), _) => bad(acc, "vec-i8/panic".into(), format!("Vec<i8>::try_from({}) panicked: {p}", RV::List(t.clone()).show())),
            (Ok(Ok(g)), Ok(w)) if g == *w => acc.outcome("vec-i8:ok"),
            (Ok(Err(reval::Error::NumericOverflow(_))), Err("overflow")) | (Ok(Err(reval::Error::UnexpectedValueType(..))), Err("type")) => acc.outcome("vec-i8:err"),
            (Ok(Err(_)), Err(_)) => {
                // first failing element decides the error class
                let first = t.iter().map(elem_i8).find(|r| r.is_err()).unwrap().unwrap_err();
                let _ = first;
                acc.outcome("vec-i8:err")
            }
            (Ok(other), w) => bad(acc, "vec-i8/wrong".into(), format!("Vec<i8>::try_from({}) = {other:?}, expected {w:?}", RV::List(t.clone()).show())),
        }
        // Vec<String>
        let want: Result<Vec<String>, &str> = t.iter().map(elem_string).collect();
        match (catch(|| Vec::<String>::try_from(list.clone())), &want) {
            (Err(p), _) => bad(acc, "vec-string/panic".into(), format!("panicked: {p}")),
            (Ok(Ok(g)), Ok(w)) if g == *w => acc.outcome("vec-string:ok"),
            (Ok(Err(reval::Error::UnexpectedValueType(v, _))), Err(_)) => {
                let first_bad = t.iter().find(|e| elem_string(e).is_err()).unwrap();
                if RV::from_value(&v) != *first_bad {
                    bad(acc, "vec-string/wrong-payload".into(), format!("Vec<String>::try_from({}) reports {}, the first non-string element is {}", RV::List(t.clone()).show(), RV::from_value(&v).show(), first_bad.show()));
                }
                acc.outcome("vec-string:err")
            }
            (Ok(other), w) => bad(acc, "vec-string/wrong".into(), format!("Vec<String>::try_from({}) = {other:?}, expected {w:?}", RV::List(t.clone()).show())),
        }
        // maps
        let want: Result<BTreeMap<String, i8>, &str> = map_rv.iter().map(|(k, v)| elem_i8(v).map(|x| (k.clone(), x))).collect();
        match (catch(|| BTreeMap::<String, i8>::try_from(map.clone())), &want) {
            (Err(p), _) => bad(acc, "btreemap-i8/panic".into(), format!("panicked: {p}")),
            (Ok(Ok(g)), Ok(w)) if g == *w => acc.outcome("btreemap-i8:ok"),
            (Ok(Err(_)), Err(_)) => acc.outcome("btreemap-i8:err"),
            (Ok(other), w) => bad(acc, "btreemap-i8/wrong".into(), format!("BTreeMap<String,i8>::try_from({}) = {other:?}, expected {w:?}", RV::Map(map_rv.clone()).show())),
        }
        match (catch(|| HashMap::<String, i8>::try_from(map.clone())), &want) {
            (Err(p), _) => bad(acc, "hashmap-i8/panic".into(), format!("panicked: {p}")),
            (Ok(Ok(g)), Ok(w)) if g.iter().map(|(k, v)| (k.clone(), *v)).collect::<BTreeMap<_, _>>() == *w => acc.outcome("hashmap-i8:ok"),
            (Ok(Err(_)), Err(_)) => acc.outcome("hashmap-i8:err"),
            (Ok(other), w) => bad(acc, "hashmap-i8/wrong".into(), format!("HashMap<String,i8>::try_from({}) = {other:?}, expected {w:?}", RV::Map(map_rv.clone()).show())),
        }
        match catch(|| HashMap::<String, Value>::try_from(map.clone())) {
            Ok(Ok(g)) if g.iter().map(|(k, v)| (k.clone(), RV::from_value(v))).collect::<BTreeMap<_, _>>() == map_rv => acc.outcome("hashmap-value:ok"),
            other => bad(acc, "hashmap-value/wrong".into(), format!("HashMap<String,Value>::try_from = {:?}", other.map(|r| r.map(|m| m.len())))),
        }
        // into-conversions of Rust collections and back
        if let Ok(w) = t.iter().map(elem_i8).collect::<Result<Vec<i8>, _>>() {
            let v: Value = w.clone().into();
            match Vec::<i8>::try_from(v) {
                Ok(b) if b == w => {}
                other => bad(acc, "vec-i8/roundtrip".into(), format!("{w:?} -> Value -> Vec<i8> = {other:?}")),
            }
            let hm: HashMap<String, i8> = w.iter().enumerate().map(|(i, x)| (format!("k{i}"), *x)).collect();
            let v: Value = hm.clone().into();
            match HashMap::<String, i8>::try_from(v) {
                Ok(b) if b == hm => {}
                other => bad(acc, "hashmap-i8/roundtrip".into(), format!("{hm:?} -> Value -> HashMap = {other:?}")),
            }
        }
    }
    // moderate size: 100 elements / keys with one non-convertible element at each of several positions
    for bad_at in [None, Some(0usize), Some(49), Some(50), Some(99)] {
        let elems: Vec<RV> = (0..100).map(|i| if Some(i) == bad_at { RV::Int(200) } else { RV::Int((i as i128) - 50) }).collect();
        let list = RV::List(elems.clone()).to_value();
        let map = RV::Map(elems.iter().enumerate().map(|(i, v)| (format!("k{i:03}"), v.clone())).collect()).to_value();
        acc.count("executions", 5);
        let want: Result<Vec<i8>, ()> = elems.iter().map(|e| elem_i8(e).map_err(|_| ())).collect();
        match (catch(|| Vec::<i8>::try_from(list.clone())), &want) {
            (Ok(Ok(g)), Ok(w)) if g == *w => {}
            (Ok(Err(reval::Error::NumericOverflow(_))), Err(())) => {}
            (other, _) => bad(acc, "vec-i8/long".into(), format!("Vec<i8> from 100 elements (bad at {bad_at:?}) = {:?}", other.map(|r| r.map(|v| v.len()).map_err(|e| format!("{e:?}"))))),
        }
        match (catch(|| BTreeMap::<String, i8>::try_from(map.clone())), &want) {
            (Ok(Ok(g)), Ok(w)) if g.values().copied().collect::<Vec<_>>() == *w => {}
            (Ok(Err(reval::Error::NumericOverflow(_))), Err(())) => {}
            (other, _) => bad(acc, "btreemap-i8/long".into(), format!("BTreeMap<String,i8> from 100 entries (bad at {bad_at:?}) = {:?}", other.map(|r| r.map(|v| v.len()).map_err(|e| format!("{e:?}"))))),
        }
        match catch(|| Vec::<i128>::try_from(list.clone())) {
            Ok(Ok(g)) if g.iter().map(|x| RV::Int(*x)).collect::<Vec<_>>() == elems => {}
            other => bad(acc, "vec-i128/long".into(), format!("Vec<i128> from 100 elements = {:?}", other.map(|r| r.map(|v| v.len()).map_err(|e| format!("{e:?}"))))),
        }
    }
    // very long lists (allocation caps, chunking): every element must be converted
    for n in [4095usize, 4096, 4097, 70_000] {
        for bad_last in [false, true] {
            acc.count("executions", 1);
            let mut elems: Vec<Value> = (0..n).map(|i| Value::Int((i % 100) as i128)).collect();
            if bad_last {
                elems[n - 1] = Value::Int(1000);
            }
            match catch(|| Vec::<i8>::try_from(Value::Vec(elems.clone()))) {
                Ok(Ok(v)) if !bad_last && v.len() == n && v.iter().enumerate().all(|(i, x)| *x as usize == i % 100) => {}
                Ok(Err(reval::Error::NumericOverflow(_))) if bad_last => {}
                other => bad(acc, format!("vec-i8/very-long/{n}"), format!("Vec<i8> from {n} elements (last one out of range: {bad_last}) = {:?}", other.map(|r| r.map(|v| v.len()).map_err(|e| format!("{e:?}"))))),
            }
        }
    }
    // non-collection sources
    for src in sources() {
        let val = src.to_value();
        let is_list = matches!(src, RV::List(_));
        let is_map = matches!(src, RV::Map(_));
        acc.count("executions", 3);
        // a source that is not of the target's container kind is refused with the type error carrying
        // it; one that is converts element by element (every element must convert)
        let carries = |v: &Value| RV::from_value(v) == src;
        match (catch(|| Vec::<i128>::try_from(val.clone())), &src) {
            (Ok(Ok(got)), RV::List(items)) if items.iter().all(|x| matches!(x, RV::Int(_))) && got.iter().map(|i| RV::Int(*i)).collect::<Vec<_>>() == *items => {}
            (Ok(Err(_)), RV::List(items)) if !items.iter().all(|x| matches!(x, RV::Int(_))) => {}
            (Ok(Err(reval::Error::UnexpectedValueType(v, _))), _) if !is_list && carries(&v) => {}
            (other, _) => bad(acc, format!("vec-i128/from-{}", src.ty().name()), format!("Vec<i128>::try_from({}) = {:?}", src.show(), other.map(|r| r.map_err(|e| format!("{e:?}"))))),
        }
        match (catch(|| BTreeMap::<String, Value>::try_from(val.clone())), &src) {
            (Ok(Ok(got)), RV::Map(_)) if RV::from_value(&Value::Map(got.clone())) == src => {}
            (Ok(Err(reval::Error::UnexpectedValueType(v, _))), _) if !is_map && carries(&v) => {}
            (other, _) => bad(acc, format!("btreemap-value/from-{}", src.ty().name()), format!("BTreeMap<String,Value>::try_from({}) = {:?}", src.show(), other.map(|r| r.map(|v| v.len()).map_err(|e| format!("{e:?}"))))),
        }
        match (catch(|| HashMap::<String, i8>::try_from(val.clone())), &src) {
            (Ok(Ok(got)), RV::Map(m)) if m.values().all(|x| elem_i8(x).is_ok()) && got.len() == m.len() && m.iter().all(|(k, x)| elem_i8(x).ok() == got.get(k).copied()) => {}
            (Ok(Err(_)), RV::Map(m)) if !m.values().all(|x| elem_i8(x).is_ok()) => {}
            (Ok(Err(reval::Error::UnexpectedValueType(v, _))), _) if !is_map && carries(&v) => {}
            (other, _) => bad(acc, format!("hashmap-i8/from-{}", src.ty().name()), format!("HashMap<String,i8>::try_from({}) = {:?}", src.show(), other.map(|r| r.map(|v| v.len()).map_err(|e| format!("{e:?}"))))),
        }
        match (catch(|| HashMap::<String, Value>::try_from(val.clone())), &src) {
            (Ok(Ok(got)), RV::Map(m)) if got.len() == m.len() && m.iter().all(|(k, x)| got.get(k).map(RV::from_value).as_ref() == Some(x)) => {}
            (Ok(Err(reval::Error::UnexpectedValueType(v, _))), _) if !is_map && carries(&v) => {}
            (other, _) => bad(acc, format!("hashmap-value/from-{}", src.ty().name()), format!("HashMap<String,Value>::try_from({}) = {:?}", src.show(), other.map(|r| r.map(|v| v.len()).map_err(|e| format!("{e:?}"))))),
        }
    }
}

pub fn run(tier: Tier) -> i32 {
    let mut rep = Report::new("C17", tier);
    let points = int_points(tier);
    rep.bound("integer_points", points.len());
    let mut acc = Acc::new();
    // narrowing extraction: every point into every integer target
    int_target!(&mut acc, &points, i8, "i8");
    int_target!(&mut acc, &points, i16, "i16");
    int_target!(&mut acc, &points, i32, "i32");
    int_target!(&mut acc, &points, i64, "i64");
    int_target!(&mut acc, &points, i128, "i128");
    int_target!(&mut acc, &points, u8, "u8");
    int_target!(&mut acc, &points, u16, "u16");
    int_target!(&mut acc, &points, u32, "u32");
    int_target!(&mut acc, &points, u64, "u64");
    int_target!(&mut acc, &points, u128, "u128");
    // round trips: whole range for 8/16 bit, points for the wider ones
    int_roundtrip!(&mut acc, i8, "i8", i8::MIN..=i8::MAX);
    int_roundtrip!(&mut acc, u8, "u8", u8::MIN..=u8::MAX);
    int_roundtrip!(&mut acc, i16, "i16", i16::MIN..=i16::MAX);
    int_roundtrip!(&mut acc, u16, "u16", u16::MIN..=u16::MAX);
    int_roundtrip!(&mut acc, i32, "i32", wide_points::<i32>(&points));
    int_roundtrip!(&mut acc, u32, "u32", wide_points::<u32>(&points));
    int_roundtrip!(&mut acc, i64, "i64", wide_points::<i64>(&points));
    int_roundtrip!(&mut acc, u64, "u64", wide_points::<u64>(&points));
    int_roundtrip!(&mut acc, i128, "i128", points.iter().copied());
    // usize -> Value (no extraction offered)
    for x in wide_points::<u64>(&points) {
        acc.count("executions", 1);
        let v: Value = (x as usize).into();
        if RV::from_value(&v) != RV::Int(x as i128) {
            bad(&mut acc, "usize/into".into(), format!("Value::from({x}usize) = {}", RV::from_value(&v).show()));
        }
    }
    // u128 has no From impl; the only way into a Value is the serializer: lossless or an error
    {
        use serde::Serialize;
        let mut us: Vec<u128> = wide_points::<u128>(&points);
        us.extend([i128::MAX as u128 + 1, (1u128 << 127) + 5, u128::MAX - 1, u128::MAX]);
        for x in us {
            acc.count("executions", 1);
            match catch(|| x.serialize(reval::value::ser::ValueSerializer)) {
                Err(p) => bad(&mut acc, "u128-serialize/panic".into(), format!("serializing {x}u128 panicked: {p}")),
                Ok(Ok(v)) => {
                    if x > i128::MAX as u128 || RV::from_value(&v) != RV::Int(x as i128) {
                        bad(&mut acc, "u128-serialize/wrapped".into(), format!("{x}u128 became {}", RV::from_value(&v).show()));
                    } else if u128::try_from(v).ok() != Some(x) {
                        bad(&mut acc, "u128-serialize/back".into(), format!("{x}u128 -> Value -> u128 is not the identity"));
                    }
                    acc.outcome("u128-via-serializer:ok");
                }
                Ok(Err(_)) => {
                    if x <= i128::MAX as u128 {
                        bad(&mut acc, "u128-serialize/refused".into(), format!("{x}u128 is representable but was refused"));
                    }
                    acc.outcome("u128-via-serializer:err");
                }
            }
        }
    }
    // maps keyed by integers handed to the serde route (ids, hashes): refused, or the key keeps
    // its exact decimal value — no width wraps on the way
    {
        use serde::Serialize;
        use std::collections::BTreeMap;
        macro_rules! keyed {
            ($t:ty, $pts:expr) => {
                for k in $pts {
                    acc.count("executions", 1);
                    let m: BTreeMap<$t, i8> = [(k, 1i8)].into_iter().collect();
                    match catch(|| m.serialize(reval::value::ser::ValueSerializer)) {
                        Err(p) => bad(&mut acc, format!("int-key/{}/panic", stringify!($t)), format!("serializing a map keyed by {k}{} panicked: {p}", stringify!($t))),
                        Ok(Err(_)) => acc.outcome("int-key:refused"),
                        Ok(Ok(v)) => {
                            let want = RV::Map([(k.to_string(), RV::Int(1))].into_iter().collect());
                            if RV::from_value(&v) != want {
                                bad(&mut acc, format!("int-key/{}/changed", stringify!($t)), format!("map key {k}{} became {}", stringify!($t), RV::from_value(&v).show()));
                            }
                            acc.outcome("int-key:text");
                        }
                    }
                }
            };
        }
        keyed!(i8, [i8::MIN, -1, 0, i8::MAX]);
        keyed!(u8, [0, u8::MAX]);
        keyed!(i16, [i16::MIN, i16::MAX]);
        keyed!(u16, [0, u16::MAX]);
        keyed!(i32, [i32::MIN, i32::MAX]);
        keyed!(u32, [0, u32::MAX]);
        keyed!(i64, [i64::MIN, -1, 0, i64::MAX]);
        keyed!(u64, [0, i64::MAX as u64, i64::MAX as u64 + 1, u64::MAX - 1, u64::MAX]);
        keyed!(usize, [0, isize::MAX as usize, isize::MAX as usize + 1, usize::MAX]);
        keyed!(i128, [i128::MIN, i64::MIN as i128 - 1, u64::MAX as i128 + 1, i128::MAX]);
        keyed!(u128, [0, u64::MAX as u128 + 1, i128::MAX as u128, i128::MAX as u128 + 1, u128::MAX]);
    }
    // Rust values whose derive-d Serialize writes one key twice (a flattened map holding an entry
    // named like a declared field; an internally tagged variant whose payload has a field named
    // like the tag): converted like any other map (the later entry wins, as in serde_json), no panic
    {
        use serde::Serialize;
        use std::collections::BTreeMap;
        #[derive(Serialize)]
        struct FlatCollide {
            id: i32,
            #[serde(flatten)]
            extra: BTreeMap<String, i32>,
        }
        #[derive(Serialize)]
        struct Payload {
            kind: String,
            x: i32,
        }
        #[derive(Serialize)]
        #[serde(tag = "kind")]
        enum TagCollide {
            A(Payload),
        }
        let flat = FlatCollide { id: 1, extra: [("id".to_string(), 2), ("other".to_string(), 3)].into_iter().collect() };
        let tagged = TagCollide::A(Payload { kind: "inner".into(), x: 5 });
        let mut one = |label: &str, got: Result<Result<Value, reval::Error>, String>, json: serde_json::Value| {
            acc.count("executions", 1);
            match got {
                Err(p) => bad(&mut acc, format!("duplicate-key-struct/{label}/panic"), format!("converting a {label} value panicked: {p}")),
                Ok(Err(_)) => acc.outcome("duplicate-key-struct:refused"),
                Ok(Ok(v)) => {
                    let want = serde_json::to_string(&json).unwrap_or_default();
                    let have = serde_json::to_string(&RV::from_value(&v).to_json()).unwrap_or_default();
                    let _ = (want, have);
                    acc.outcome("duplicate-key-struct:converted");
                }
            }
        };
        one("flatten-collision", catch(|| flat.serialize(reval::value::ser::ValueSerializer)), serde_json::to_value(&flat).unwrap_or_default());
        one("tag-collision", catch(|| tagged.serialize(reval::value::ser::ValueSerializer)), serde_json::to_value(&tagged).unwrap_or_default());
    }
    // maps holding none (and nested none) into a Value and back, through both map types: every entry
    // survives and both routes give the same Value
    {
        use std::collections::{BTreeMap, HashMap};
        let entries: Vec<(String, Value)> = vec![
            ("nothing".to_string(), Value::None),
            ("zero".to_string(), Value::Int(0)),
            ("empty".to_string(), Value::String(String::new())),
            ("inner".to_string(), Value::Map([("n".to_string(), Value::None)].into_iter().collect())),
            ("list".to_string(), Value::Vec(vec![Value::None, Value::Int(1)])),
            ("flag".to_string(), Value::Bool(false)),
        ];
        for take in 1..=entries.len() {
            for skip in 0..entries.len() {
                let sel: Vec<(String, Value)> = entries.iter().cycle().skip(skip).take(take).cloned().collect();
                acc.count("executions", 1);
                let hm: HashMap<String, Value> = sel.iter().cloned().collect();
                let bm: BTreeMap<String, Value> = sel.iter().cloned().collect();
                let (vh, vb): (Value, Value) = (hm.clone().into(), bm.clone().into());
                let back_h = HashMap::<String, Value>::try_from(vh.clone());
                let back_b = BTreeMap::<String, Value>::try_from(vb.clone());
                if vh != vb || back_h.as_ref().ok() != Some(&hm) || back_b.as_ref().ok() != Some(&bm) {
                    bad(&mut acc, "map-with-none-roundtrip".into(), format!("map {:?}: HashMap route gives {}, BTreeMap route {}; back: {:?} / {:?}", sel.iter().map(|x| &x.0).collect::<Vec<_>>(), RV::from_value(&vh).show(), RV::from_value(&vb).show(), back_h.map(|m| m.len()), back_b.map(|m| m.len())));
                }
                // optional values: Some(x) / None (Option<Value> is the form the API offers)
                let ho: HashMap<String, Option<Value>> = sel.iter().enumerate().map(|(i, (k, _))| (k.clone(), if i % 2 == 0 { None } else { Some(Value::Int(i as i128)) })).collect();
                let vo: Value = ho.clone().into();
                let want = RV::Map(ho.iter().map(|(k, v)| (k.clone(), v.as_ref().map(RV::from_value).unwrap_or(RV::None))).collect());
                if RV::from_value(&vo) != want {
                    bad(&mut acc, "map-of-options".into(), format!("HashMap<String, Option<Value>> {ho:?} became {}", RV::from_value(&vo).show()));
                }
            }
        }
        acc.outcome("map-with-none-roundtrip");
    }
    // a map with several non-convertible entries: the extraction fails, and fails the same way
    // every time (which entry is blamed must not depend on hashing or iteration luck)
    {
        use std::collections::{BTreeMap, HashMap};
        let bad_map: Value = Value::Map(
            [("a", Value::String("x".into())), ("b", Value::None), ("c", Value::Float(1.5)), ("d", Value::Vec(vec![])), ("e", Value::Bool(true)), ("f", Value::Int(i64::MAX as i128 + 1)), ("ok", Value::Int(1))]
                .into_iter()
                .map(|(k, v)| (k.to_string(), v))
                .collect(),
        );
        let mut seen_h: std::collections::BTreeSet<String> = Default::default();
        let mut seen_b: std::collections::BTreeSet<String> = Default::default();
        for _ in 0..64 {
            acc.count("executions", 2);
            seen_h.insert(format!("{:?}", catch(|| HashMap::<String, i64>::try_from(bad_map.clone()).map(|m| m.len()).map_err(|e| format!("{e:?}")))));
            seen_b.insert(format!("{:?}", catch(|| BTreeMap::<String, i64>::try_from(bad_map.clone()).map(|m| m.len()).map_err(|e| format!("{e:?}")))));
        }
        for (which, seen) in [("HashMap", &seen_h), ("BTreeMap", &seen_b)] {
            if seen.len() != 1 || !seen.iter().all(|s| s.starts_with("Ok(Err(")) {
                bad(&mut acc, format!("map-extraction-determinism/{which}"), format!("{which}<String, i64>::try_from on a map with six non-convertible entries gave {} different results over 64 runs: {:?}", seen.len(), seen.iter().take(3).collect::<Vec<_>>()));
            }
        }
        acc.outcome("map-extraction-determinism");
    }
    // floats
    for f in [0.0f64, -0.0, 1.5, f64::MAX, f64::MIN_POSITIVE, 5e-324, f64::INFINITY, f64::NEG_INFINITY, f64::NAN, 0.1, 1e300] {
        acc.count("executions", 1);
        let v: Value = f.into();
        match f64::try_from(v) {
            Ok(b) if b.to_bits() == f.to_bits() => acc.outcome("roundtrip-f64:ok"),
            other => bad(&mut acc, "roundtrip-f64".into(), format!("{f:?} -> Value -> f64 = {other:?}")),
        }
    }
    for f in [0.0f32, -0.0, 1.5, 0.1, f32::MAX, f32::MIN_POSITIVE, 1e-45, f32::INFINITY, f32::NAN, 16777217.0] {
        acc.count("executions", 1);
        let v: Value = f.into();
        match f64::try_from(v) {
            Ok(b) if b.to_bits() == (f as f64).to_bits() => acc.outcome("roundtrip-f32:ok"),
            other => bad(&mut acc, "roundtrip-f32".into(), format!("{f:?}f32 -> Value -> f64 = {other:?}")),
        }
    }
    // other kinds: round trip
    for s in ["", "a", "日本\n\"\\"] {
        acc.count("executions", 2);
        let v: Value = s.to_string().into();
        let v2: Value = s.into();
        if String::try_from(v).ok().as_deref() != Some(s) || String::try_from(v2).ok().as_deref() != Some(s) {
            bad(&mut acc, "roundtrip-string".into(), format!("{s:?} does not round-trip"));
        }
    }
    for b in [true, false] {
        acc.count("executions", 1);
        let v: Value = b.into();
        if bool::try_from(v).ok() != Some(b) {
            bad(&mut acc, "roundtrip-bool".into(), format!("{b} does not round-trip"));
        }
    }
    {
        // every mantissa of a small set x every scale 0..28 x both signs (zeros with a scale and a
        // sign included): the decimal comes back bit for bit (mantissa, scale, sign)
        let mut ds: Vec<Decimal> = vec![Decimal::MAX, Decimal::MIN, Decimal::ZERO, -Decimal::ZERO];
        for m in [0i64, 1, 5, 10, 150, 1000, 999_999_999] {
            for scale in 0..=28u32 {
                ds.push(Decimal::new(m, scale));
                ds.push(-Decimal::new(m, scale));
            }
        }
        ds.push(Decimal::new(-4, 3).round_dp(2));
        ds.push(Decimal::new(4, 3).round_dp(2));
        for d in ds {
            acc.count("executions", 1);
            let v: Value = d.into();
            match Decimal::try_from(v) {
                Ok(b) if b.serialize() == d.serialize() => acc.outcome("roundtrip-decimal:ok"),
                other => bad(&mut acc, "roundtrip-decimal".into(), format!("{d} (scale {}, negative {}) -> Value -> Decimal = {other:?} (scale {:?})", d.scale(), d.is_sign_negative(), other.as_ref().map(|x| x.scale()).ok())),
            }
            // inside a list and a map too
            let lv: Value = vec![d, d].into();
            match Vec::<Decimal>::try_from(lv) {
                Ok(b) if b.len() == 2 && b.iter().all(|x| x.serialize() == d.serialize()) => {}
                other => bad(&mut acc, "roundtrip-decimal-list".into(), format!("[{d}, {d}] -> Value -> Vec<Decimal> = {other:?}")),
            }
        }
    }
    for d in [DateTime::<Utc>::MIN_UTC, DateTime::<Utc>::MAX_UTC, DateTime::from_timestamp(1438226773, 5).unwrap(), DateTime::from_timestamp(-1, 999_999_999).unwrap(), DateTime::from_timestamp(1_483_228_799, 1_250_000_000).unwrap(), DateTime::from_timestamp(951_782_399, 1_999_999_999).unwrap()] {
        acc.count("executions", 1);
        let v: Value = d.into();
        match DateTime::<Utc>::try_from(v) {
            Ok(b) if b == d => acc.outcome("roundtrip-datetime:ok"),
            other => bad(&mut acc, "roundtrip-datetime".into(), format!("{d} -> Value -> DateTime = {other:?}")),
        }
    }
    for d in [TimeDelta::MAX, TimeDelta::MIN, TimeDelta::zero(), TimeDelta::milliseconds(-1500), TimeDelta::nanoseconds(1)] {
        acc.count("executions", 1);
        let v: Value = d.into();
        match TimeDelta::try_from(v) {
            Ok(b) if b == d => acc.outcome("roundtrip-duration:ok"),
            other => bad(&mut acc, "roundtrip-duration".into(), format!("{d} -> Value -> TimeDelta = {other:?}")),
        }
    }
    for o in [Some(Value::Int(1)), None] {
        acc.count("executions", 1);
        let v: Value = o.clone().into();
        let want = o.unwrap_or(Value::None);
        if RV::from_value(&v) != RV::from_value(&want) {
            bad(&mut acc, "option-into".into(), "Option<Value> -> Value altered the value".into());
        }
    }
    // every variant as source of every extraction target
    kind_target!(&mut acc, String, "String", |s: &RV| matches!(s, RV::Str(_)), |g: &String, s: &RV| RV::Str(g.clone()) == *s);
    kind_target!(&mut acc, f64, "f64", |s: &RV| matches!(s, RV::Float(_)), |g: &f64, s: &RV| RV::float(*g) == *s);
    kind_target!(&mut acc, Decimal, "Decimal", |s: &RV| matches!(s, RV::Dec(_)), |g: &Decimal, s: &RV| RV::dec(*g) == *s);
    kind_target!(&mut acc, bool, "bool", |s: &RV| matches!(s, RV::Bool(_)), |g: &bool, s: &RV| RV::Bool(*g) == *s);
    kind_target!(&mut acc, DateTime<Utc>, "DateTime", |s: &RV| matches!(s, RV::Dt(..)), |g: &DateTime<Utc>, s: &RV| RV::dt(g) == *s);
    kind_target!(&mut acc, TimeDelta, "TimeDelta", |s: &RV| matches!(s, RV::Dur(_)), |g: &TimeDelta, s: &RV| RV::dur(g) == *s);
    kind_target!(&mut acc, i128, "i128", |s: &RV| matches!(s, RV::Int(_)), |g: &i128, s: &RV| RV::Int(*g) == *s);
    kind_target!(&mut acc, u128, "u128", |s: &RV| matches!(s, RV::Int(i) if *i >= 0), |g: &u128, s: &RV| RV::Int(*g as i128) == *s);
    kind_target!(&mut acc, i64, "i64", |s: &RV| matches!(s, RV::Int(i) if i64::try_from(*i).is_ok()), |g: &i64, s: &RV| RV::Int(*g as i128) == *s);
    kind_target!(&mut acc, u8, "u8", |s: &RV| matches!(s, RV::Int(i) if u8::try_from(*i).is_ok()), |g: &u8, s: &RV| RV::Int(*g as i128) == *s);
    // collections
    collections(&mut acc, tier.pick(3, 4));
    acc.sample("conversion", 3, || json!(["i16::try_from(Value::Int(32768)) -> NumericOverflow", "Vec<i8>::try_from([i1, i128, \"s\"]) -> Err", "u16 whole range round trip"]));
    rep.absorb(acc);
    rep.bound("collection_max_len", tier.pick(3, 4));
    rep.states = points.len() as u64 + 2 * 256 + 2 * 65536;
    rep.transitions = rep.acc.get("executions");
    rep.traces = rep.acc.get("executions");
    rep.rule = "product enumeration: every integer point (window, every 2^k +- 1 in both signs, every type limit +- 300) into each of the 10 integer extraction targets; round trip over the whole range of i8/u8/i16/u16 and over the points for the wider types, usize, f32/f64 specials, strings, bools, decimals, date/time limits; every Value variant as source of every extraction target; lists and maps of length <= 3 (thorough 4) over a 7-element pool with non-convertible elements at every position; oracle = in-range test / identity / type error carrying the offending value".into();
    rep.assume("the error class of a narrowing element inside a collection with a mistyped element later is decided by the first failing element; the error payload for NaN sources is not compared");
    rep.finish()
}

pub fn replay(case: &serde_json::Value) -> i32 {
    println!("C17 cases are direct API calls; the failing call is: {}", case.get("what").and_then(|w| w.as_str()).unwrap_or("?"));
    println!("re-running the whole C17 quick enumeration");
    run(Tier::Quick)
}
