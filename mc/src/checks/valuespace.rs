//! E2 — value-space exploration for C01–C04.
//!
//! States are canonical values (`RV`).  A transition applies one node kind to a tuple of states,
//! through the real evaluator (several construction forms) and through the reference.  Round 1 is
//! the full product over V0; round 2 feeds the values *reached* in round 1 back in as operands.
use super::common::*;
use super::pool;
use crate::engine::report::{Acc, Report, Tier, Violation};
use crate::spec::eval::*;
use crate::spec::re::*;
use crate::spec::rv::*;
use rayon::prelude::*;
use reval::prelude::*;
use serde_json::{json, Value as J};
use std::collections::{BTreeMap, BTreeSet};

#[derive(Clone, Copy, PartialEq, Eq, Debug)]
pub enum Prop {
    C01,
    C02,
    C03,
    C04,
}

impl Prop {
    fn id(self) -> &'static str {
        match self {
            Prop::C01 => "C01",
            Prop::C02 => "C02",
            Prop::C03 => "C03",
            Prop::C04 => "C04",
        }
    }
}

/// one application of a node kind to operand values
#[derive(Clone, Debug, PartialEq, Eq, Hash, PartialOrd, Ord)]
pub enum App {
    Un(UnOp, RV),
    Bin(BinOp, RV, RV),
    If(RV, RV, RV),
    IdxF(RV, String),
    IdxN(RV, usize),
    List(Vec<RV>),
    Map(Vec<(String, RV)>),
}

impl App {
    pub fn kind(&self) -> String {
        match self {
            App::Un(op, _) => format!("{op:?}"),
            App::Bin(op, ..) => format!("{op:?}"),
            App::If(..) => "If".into(),
            App::IdxF(..) => "IndexField".into(),
            App::IdxN(..) => "IndexPos".into(),
            App::List(_) => "List".into(),
            App::Map(_) => "Map".into(),
        }
    }
    pub fn operands(&self) -> Vec<&RV> {
        match self {
            App::Un(_, a) => vec![a],
            App::Bin(_, a, b) => vec![a, b],
            App::If(a, b, c) => vec![a, b, c],
            App::IdxF(a, _) | App::IdxN(a, _) => vec![a],
            App::List(v) => v.iter().collect(),
            App::Map(m) => m.iter().map(|(_, v)| v).collect(),
        }
    }
    pub fn types(&self) -> String {
        self.operands().iter().map(|v| v.ty().name()).collect::<Vec<_>>().join(",")
    }
    /// tree with the operands supplied by `leaf(i)`
    fn tree(&self, leaf: &dyn Fn(usize, &RV) -> RE) -> RE {
        match self {
            App::Un(op, a) => RE::un(*op, leaf(0, a)),
            App::Bin(op, a, b) => RE::bin(*op, leaf(0, a), leaf(1, b)),
            App::If(a, b, c) => RE::iff(leaf(0, a), leaf(1, b), leaf(2, c)),
            App::IdxF(a, f) => RE::idxf(leaf(0, a), f),
            App::IdxN(a, n) => RE::idxn(leaf(0, a), *n),
            App::List(v) => RE::List(v.iter().enumerate().map(|(i, x)| leaf(i, x)).collect()),
            App::Map(m) => RE::Map(m.iter().enumerate().map(|(i, (k, x))| (k.clone(), leaf(i, x))).collect()),
        }
    }
    /// reference result
    pub fn expected(&self) -> RRes {
        match self {
            App::Un(op, a) => apply_un(*op, a),
            App::Bin(op, a, b) => apply_bin(*op, a, b),
            App::If(c, t, e) => match c {
                RV::Bool(true) => Ok(t.clone()),
                RV::Bool(false) => Ok(e.clone()),
                _ => Err(RErr::InvalidType),
            },
            App::IdxF(a, f) => apply_index_field(a, f),
            App::IdxN(a, n) => apply_index_pos(a, *n),
            App::List(v) => Ok(RV::List(v.clone())),
            App::Map(m) => Ok(RV::Map(m.iter().cloned().collect())),
        }
    }
    pub fn to_json(&self) -> J {
        let ops: Vec<J> = self.operands().iter().map(|v| v.to_json()).collect();
        let extra = match self {
            App::IdxF(_, f) => json!(f),
            App::IdxN(_, n) => json!(n),
            App::Map(m) => json!(m.iter().map(|(k, _)| k.clone()).collect::<Vec<_>>()),
            _ => J::Null,
        };
        json!({"node": self.kind(), "operands": ops, "extra": extra})
    }
    pub fn from_json(j: &J) -> Option<App> {
        let node = j.get("node")?.as_str()?;
        let ops: Vec<RV> = j.get("operands")?.as_array()?.iter().map(RV::from_json).collect::<Option<_>>()?;
        let extra = j.get("extra")?;
        for op in ALL_UNOPS {
            if format!("{op:?}") == node {
                return Some(App::Un(op, ops.first()?.clone()));
            }
        }
        for op in ALL_BINOPS {
            if format!("{op:?}") == node {
                return Some(App::Bin(op, ops.first()?.clone(), ops.get(1)?.clone()));
            }
        }
        match node {
            "If" => Some(App::If(ops.first()?.clone(), ops.get(1)?.clone(), ops.get(2)?.clone())),
            "IndexField" => Some(App::IdxF(ops.first()?.clone(), extra.as_str()?.to_string())),
            "IndexPos" => Some(App::IdxN(ops.first()?.clone(), extra.as_u64()? as usize)),
            "List" => Some(App::List(ops)),
            "Map" => {
                let keys: Vec<String> = extra.as_array()?.iter().map(|k| k.as_str().map(|s| s.to_string())).collect::<Option<_>>()?;
                Some(App::Map(keys.into_iter().zip(ops).collect()))
            }
            _ => None,
        }
    }
    pub fn show(&self) -> String {
        let ops: Vec<String> = self.operands().iter().map(|v| v.show()).collect();
        match self {
            App::IdxF(_, f) => format!("({}).{f}", ops[0]),
            App::IdxN(_, n) => format!("({}).{n}", ops[0]),
            _ => format!("{}({})", self.kind(), ops.join(", ")),
        }
    }
}

#[derive(Clone, Copy, Debug, PartialEq, Eq)]
pub enum Form {
    /// constructors with literal leaves, `Expr::evaluate`
    Built,
    /// same tree as the only rule of a ruleset, `RuleSet::evaluate_value`
    Ruleset,
    /// text `a op b` parsed, operands supplied as input fields
    Refs,
    /// both operands the same input field (`a op a`)
    SameRef,
    /// text with literal operands parsed
    Literal,
    /// first operand a literal, the others input fields
    LitRef,
    /// first operand an input field, the others literals
    RefLit,
    /// built tree evaluated as the rule of a ruleset; operand i is delivered by the route in base-4
    /// digit i of the code: 0 constant leaf, 1 input field, 2 symbol, 3 user-function call
    Deliver(u8),
}

const SYMBOL_NAMES: [&str; 4] = ["s0", "s1", "s2", "s3"];
const FN_NAMES: [&str; 4] = ["g0", "g1", "g2", "g3"];

fn deliver_codes(arity: usize) -> Vec<u8> {
    (0..(1u16 << (2 * arity.min(3)))).map(|c| c as u8).collect()
}

fn observe_delivered(app: &App, code: u8) -> Obs {
    use super::probe::{probe, Handler};
    use std::sync::Arc;
    let route = |i: usize| (code >> (2 * i.min(3))) & 3;
    let t = app.tree(&|i, v| match route(i) {
        0 => RE::Val(v.clone()),
        1 => RE::reff(OPERAND_NAMES[i.min(3)]),
        2 => RE::Sym(SYMBOL_NAMES[i.min(3)].to_string()),
        _ => RE::call(FN_NAMES[i.min(3)], RE::Val(RV::Int(0))),
    });
    let expr = match t.try_to_expr() {
        Ok(e) => e,
        Err(p) => return Obs::Panic(format!("constructor: {p}")),
    };
    let vals: Vec<Value> = app.operands().iter().map(|v| v.to_value()).collect();
    let r = crate::engine::panic::catch(|| {
        let fvals = vals.clone();
        let handler: Handler = Arc::new(move |name, _arg| {
            let i = FN_NAMES.iter().position(|n| *n == name).unwrap_or(0);
            (Ok(fvals.get(i).cloned().unwrap_or(Value::None)), 0)
        });
        let mut b = ruleset();
        for (i, n) in FN_NAMES.iter().enumerate() {
            b = b.with_function(probe(n, i % 2 == 0, &handler)).map_err(|e| format!("with_function failed: {e}"))?;
        }
        for (i, v) in vals.iter().enumerate().take(4) {
            b = b.with_symbol(SYMBOL_NAMES[i], v.clone());
        }
        let rs = b.with_rule(Rule::new("r", BTreeMap::new(), expr.clone())).map_err(|e| format!("with_rule failed: {e}"))?.build();
        let facts = Value::Map(vals.iter().enumerate().take(4).map(|(i, v)| (OPERAND_NAMES[i].to_string(), v.clone())).collect());
        let out = crate::engine::exec::block_on(rs.evaluate_value(&facts))?.map_err(|e| format!("evaluate_value failed: {e}"))?;
        if out.len() != 1 {
            return Err(format!("{} outcomes for one rule", out.len()));
        }
        Ok::<_, String>(out.into_iter().next().unwrap().value)
    });
    match r {
        Err(p) => Obs::Panic(p),
        Ok(Err(m)) => Obs::Panic(format!("MACHINERY: {m}")),
        Ok(Ok(v)) => observe(Ok(v)),
    }
}

const OPERAND_NAMES: [&str; 4] = ["a", "b", "c", "e"];

/// run one application in one form
pub fn observe_app(app: &App, form: Form) -> Result<Obs, String> {
    match form {
        Form::Built => match app.tree(&|_, v| RE::Val(v.clone())).try_to_expr() {
            Ok(e) => Ok(eval_expr(&e, &Value::None)),
            Err(p) => Ok(Obs::Panic(format!("constructor: {p}"))),
        },
        Form::Ruleset => match app.tree(&|_, v| RE::Val(v.clone())).try_to_expr() {
            Ok(e) => Ok(eval_via_ruleset(&e, &Value::None)),
            Err(p) => Ok(Obs::Panic(format!("constructor: {p}"))),
        },
        Form::Refs | Form::SameRef => {
            let same = form == Form::SameRef;
            let t = app.tree(&|i, _| RE::reff(if same { "a" } else { OPERAND_NAMES[i.min(3)] }));
            let text = t.unparse().ok_or("no text form")?;
            let parsed = match parse_expr(&text) {
                Err(p) => return Ok(Obs::Panic(format!("parse: {p}"))),
                Ok(Err(e)) => return Err(format!("reference text {text:?} rejected by parser: {e}")),
                Ok(Ok(e)) => e,
            };
            let ops = app.operands();
            let mut m = BTreeMap::new();
            for (i, v) in ops.iter().enumerate() {
                m.insert(if same { "a".to_string() } else { OPERAND_NAMES[i.min(3)].to_string() }, v.to_value());
            }
            Ok(eval_expr(&parsed, &Value::Map(m)))
        }
        Form::LitRef | Form::RefLit => {
            let lit_first = form == Form::LitRef;
            let t = app.tree(&|i, v| if (i == 0) == lit_first { RE::Val(v.clone()) } else { RE::reff(OPERAND_NAMES[i.min(3)]) });
            let text = t.unparse().ok_or("no literal form")?;
            let parsed = match parse_expr(&text) {
                Err(p) => return Ok(Obs::Panic(format!("parse: {p}"))),
                Ok(Err(e)) => return Err(format!("mixed text {text:?} rejected by parser: {e}")),
                Ok(Ok(e)) => e,
            };
            let mut m = BTreeMap::new();
            for (i, v) in app.operands().iter().enumerate() {
                m.insert(OPERAND_NAMES[i.min(3)].to_string(), v.to_value());
            }
            Ok(eval_expr(&parsed, &Value::Map(m)))
        }
        Form::Deliver(code) => Ok(observe_delivered(app, code)),
        Form::Literal => {
            let t = app.tree(&|_, v| RE::Val(v.clone()));
            let text = t.unparse().ok_or("no literal form")?;
            let parsed = match parse_expr(&text) {
                Err(p) => return Ok(Obs::Panic(format!("parse: {p}"))),
                Ok(Err(e)) => return Err(format!("literal text {text:?} rejected by parser: {e}")),
                Ok(Ok(e)) => e,
            };
            Ok(eval_expr(&parsed, &Value::None))
        }
    }
}

// ---------------------------------------------------------------------------------------------
// Oracles

/// C03: hand-written support matrix.  `true` = the operator is defined on this tuple of non-None
/// operand types (it may still fail with a value-dependent error).
pub fn supported_un(op: UnOp, t: Ty) -> bool {
    use Ty as T;
    use UnOp as U;
    match op {
        U::Not => t == T::Bool,
        U::Neg => matches!(t, T::Int | T::Float | T::Dec),
        U::IsSome | U::IsNone => true,
        U::Int | U::Float | U::Dec => matches!(t, T::Int | T::Float | T::Dec | T::Str),
        U::DateTime => matches!(t, T::Str | T::Int | T::Dt),
        U::Duration => matches!(t, T::Int | T::Dur),
        U::Upper | U::Lower | U::Trim => t == T::Str,
        U::Floor | U::Round | U::Fract => matches!(t, T::Float | T::Dec),
        U::Year | U::Month => t == T::Dt,
        U::Week => matches!(t, T::Int | T::Dur),
        U::Day | U::Hour | U::Minute | U::Second => matches!(t, T::Int | T::Dt | T::Dur),
    }
}

pub fn supported_bin(op: BinOp, l: Ty, r: Ty) -> bool {
    use BinOp::*;
    use Ty::*;
    let same_num = l == r && matches!(l, Int | Float | Dec);
    match op {
        Mult | Div | Rem => same_num,
        Add => same_num || (l == Dt && r == Dur),
        Sub => same_num || (l == Dt && r == Dur) || (l == Dt && r == Dt) || (l == Dur && r == Dur),
        Eq | Neq => true,
        Gt | Gte | Lt | Lte => l == r && matches!(l, Int | Float | Dec | Dt | Dur),
        And | Or => l == Bool, // the right operand is only inspected when needed, see oracle
        BitAnd | BitOr | BitXor => l == r && matches!(l, Int | Bool),
        Contains => match l {
            Map => r == Str,
            List => true,
            Str => r == Str,
            Int => r == Int,
            _ => false,
        },
    }
}

/// C03 verdict for an application without None operands. Some(description) = violated.
fn c03_oracle(app: &App, obs: &Obs) -> Option<String> {
    if app.operands().iter().any(|v| v.ty() == Ty::None) {
        return None;
    }
    let invalid_type = matches!(obs, Obs::Err(OErr::InvalidType));
    match app {
        App::Un(op, a) => {
            let sup = supported_un(*op, a.ty());
            if !sup && !invalid_type {
                return Some(format!("unsupported operand type must give a type error, got {}", obs.show()));
            }
            if sup && invalid_type {
                return Some("supported operand type rejected with a type error".into());
            }
            // only casts may change the type (typed results listed in the table excepted)
            if let Obs::Ok(v) = obs {
                let ok = match op {
                    UnOp::Not | UnOp::IsSome | UnOp::IsNone => v.ty() == Ty::Bool,
                    UnOp::Neg | UnOp::Upper | UnOp::Lower | UnOp::Trim | UnOp::Floor | UnOp::Round | UnOp::Fract => v.ty() == a.ty(),
                    UnOp::Int => v.ty() == Ty::Int,
                    UnOp::Float => v.ty() == Ty::Float,
                    UnOp::Dec => v.ty() == Ty::Dec,
                    UnOp::DateTime => v.ty() == Ty::Dt,
                    UnOp::Duration => v.ty() == Ty::Dur,
                    UnOp::Year | UnOp::Month => v.ty() == Ty::Int,
                    UnOp::Week | UnOp::Day | UnOp::Hour | UnOp::Minute | UnOp::Second => {
                        (a.ty() == Ty::Int && v.ty() == Ty::Dur) || (a.ty() != Ty::Int && v.ty() == Ty::Int)
                    }
                };
                if !ok {
                    return Some(format!("result type {} not allowed for {:?} on {}", v.ty().name(), op, a.ty().name()));
                }
            }
            None
        }
        App::Bin(op, l, r) => {
            let (lt, rt) = (l.ty(), r.ty());
            match op {
                BinOp::Eq | BinOp::Neq => {
                    if lt != rt {
                        let want = RV::Bool(*op == BinOp::Neq);
                        if *obs != Obs::Ok(want.clone()) {
                            return Some(format!("values of different types must compare unequal ({}), got {}", want.show(), obs.show()));
                        }
                    } else if invalid_type {
                        return Some("equality gave a type error".into());
                    }
                    None
                }
                BinOp::And | BinOp::Or => {
                    let decides = matches!((op, l), (BinOp::And, RV::Bool(false)) | (BinOp::Or, RV::Bool(true)));
                    let ok_types = lt == Ty::Bool && (decides || rt == Ty::Bool);
                    if !ok_types && !invalid_type {
                        return Some(format!("non-boolean logical operand must give a type error, got {}", obs.show()));
                    }
                    if ok_types && !matches!(obs, Obs::Ok(RV::Bool(_))) {
                        return Some(format!("boolean operands must give a boolean, got {}", obs.show()));
                    }
                    None
                }
                _ => {
                    let sup = supported_bin(*op, lt, rt);
                    if !sup && !invalid_type {
                        return Some(format!("unsupported operand types must give a type error, got {}", obs.show()));
                    }
                    if sup && invalid_type {
                        return Some("supported operand types rejected with a type error".into());
                    }
                    if let Obs::Ok(v) = obs {
                        let ok = match op {
                            BinOp::Gt | BinOp::Gte | BinOp::Lt | BinOp::Lte | BinOp::Contains => v.ty() == Ty::Bool,
                            BinOp::Sub if lt == Ty::Dt && rt == Ty::Dt => v.ty() == Ty::Dur,
                            _ => v.ty() == lt,
                        };
                        if !ok {
                            return Some(format!("result type {} not allowed for {:?} on ({},{})", v.ty().name(), op, lt.name(), rt.name()));
                        }
                    }
                    None
                }
            }
        }
        App::If(c, t, e) => {
            if c.ty() != Ty::Bool {
                if !invalid_type {
                    return Some(format!("non-boolean condition must give a type error, got {}", obs.show()));
                }
            } else {
                let want = if *c == RV::Bool(true) { t } else { e };
                if *obs != Obs::Ok(want.clone()) {
                    return Some(format!("if must yield the selected branch unchanged ({}), got {}", want.show(), obs.show()));
                }
            }
            None
        }
        App::IdxF(a, _) => {
            if a.ty() != Ty::Map && !invalid_type {
                return Some(format!("field access on {} must give a type error, got {}", a.ty().name(), obs.show()));
            }
            if a.ty() == Ty::Map && invalid_type {
                return Some("field access on a map gave a type error".into());
            }
            None
        }
        App::IdxN(a, _) => {
            if a.ty() != Ty::List && !invalid_type {
                return Some(format!("position access on {} must give a type error, got {}", a.ty().name(), obs.show()));
            }
            if a.ty() == Ty::List && invalid_type {
                return Some("position access on a list gave a type error".into());
            }
            None
        }
        App::List(_) | App::Map(_) => None,
    }
}

/// C04: None-rule table, written separately from the operator table.
fn c04_expected(app: &App) -> Option<RRes> {
    let none = |v: &RV| matches!(v, RV::None);
    match app {
        App::Un(op, a) if none(a) => Some(match op {
            UnOp::IsSome => Ok(RV::Bool(false)),
            UnOp::IsNone => Ok(RV::Bool(true)),
            _ => Ok(RV::None),
        }),
        App::Bin(op, l, r) if none(l) || none(r) => Some(match op {
            BinOp::Mult | BinOp::Div | BinOp::Rem | BinOp::Add | BinOp::Sub | BinOp::BitAnd | BinOp::BitOr | BinOp::BitXor => Ok(RV::None),
            BinOp::Gt | BinOp::Gte | BinOp::Lt | BinOp::Lte => Ok(RV::Bool(false)),
            BinOp::Eq => Ok(RV::Bool(false)),
            BinOp::Neq => Ok(RV::Bool(true)),
            BinOp::Contains => {
                if none(l) {
                    Ok(RV::Bool(false))
                } else {
                    // None item: ordinary rule of the collection's type
                    match l {
                        RV::List(v) => Ok(RV::Bool(v.iter().any(|x| matches!(x, RV::None)))),
                        _ => Err(RErr::InvalidType),
                    }
                }
            }
            BinOp::And | BinOp::Or => {
                // conditions reject None; a right operand that is not needed is not evaluated
                match (op, l) {
                    (BinOp::And, RV::Bool(false)) => Ok(RV::Bool(false)),
                    (BinOp::Or, RV::Bool(true)) => Ok(RV::Bool(true)),
                    _ => Err(RErr::InvalidType),
                }
            }
        }),
        App::If(c, ..) if none(c) => Some(Err(RErr::InvalidType)),
        App::IdxF(a, _) | App::IdxN(a, _) if none(a) => Some(Ok(RV::None)),
        _ => None,
    }
}

/// C01 range oracle: Some(description) if violated.
fn c01_oracle(exp: &RRes, obs: &Obs) -> Option<String> {
    match obs {
        Obs::Panic(m) => Some(format!("panicked: {m}")),
        Obs::Ok(v) => match exp {
            Err(RErr::Overflow) => Some(format!("exact result is not representable but evaluation returned {}", v.show())),
            Err(RErr::ValueOutOfBounds) | Err(RErr::InvalidCast) | Err(RErr::DivisionByZero) => {
                Some(format!("out-of-range / undefined result must be an error, got {}", v.show()))
            }
            _ => None,
        },
        Obs::Err(_) => None,
    }
}

fn judge(prop: Prop, app: &App, form: Form, obs: &Obs, acc: &mut Acc) {
    let exp = app.expected();
    acc.count("executions", 1);
    acc.outcome(format!("{}:{}", app.kind(), obs.class()));
    let verdict: Option<(String, String)> = match prop {
        Prop::C01 => c01_oracle(&exp, obs).map(|d| (d, "range/panic".to_string())),
        Prop::C02 => match conforms(&exp, obs) {
            None => {
                acc.count("unspecified_cells_skipped", 1);
                None
            }
            Some(true) => None,
            Some(false) => Some((format!("expected {}, observed {}", show_exp(&exp), obs.show()), "table".into())),
        },
        Prop::C03 => c03_oracle(app, obs).map(|d| (d, "coercion".to_string())),
        Prop::C04 => match c04_expected(app) {
            None => None,
            Some(e) => {
                acc.count("none_cells", 1);
                match conforms(&e, obs) {
                    Some(false) => Some((format!("None rule expects {}, observed {}", show_exp(&e), obs.show()), "none-rule".into())),
                    _ => None,
                }
            }
        },
    };
    if let Some((desc, which)) = verdict {
        let sig = format!("{}({})/{:?}/{}:{}", app.kind(), app.types(), form, which, obs.class());
        let size: usize = app.operands().iter().map(|v| v.show().len()).sum();
        acc.violation(Violation {
            sig,
            what: format!("{} [{:?}] — {}", app.show(), form, desc),
            case: json!({"kind": "apply", "form": format!("{form:?}"), "app": app.to_json()}),
            size,
        });
    }
}

fn run_app(prop: Prop, app: &App, forms: &[Form], acc: &mut Acc, results: &mut BTreeSet<RV>) {
    for &form in forms {
        match observe_app(app, form) {
            Ok(obs) => {
                if form == Form::Built {
                    if let Obs::Ok(v) = &obs {
                        results.insert(v.clone());
                    }
                    acc.count("transitions", 1);
                    acc.sample(&format!("apply/{}", app.kind()), 1, || {
                        json!({"app": app.show(), "expected": show_exp(&app.expected()), "observed": obs.show()})
                    });
                }
                judge(prop, app, form, &obs, acc);
            }
            Err(m) => {
                // a form that does not exist for this application (no literal syntax) is skipped;
                // a reference text rejected by the parser is a machinery error
                if m.starts_with("no ") {
                    acc.count("forms_without_text", 1);
                } else {
                    acc.machinery(m);
                }
            }
        }
    }
}

fn literal_ok(v: &RV) -> bool {
    v.literal_text().is_some()
}

fn forms_for(app: &App, literal_core: &BTreeSet<RV>, thorough: bool) -> Vec<Form> {
    let mut f = vec![Form::Built, Form::Ruleset, Form::Refs];
    let ops = app.operands();
    if !ops.is_empty() && ops.len() <= 3 {
        // every operand a symbol; (thorough) every operand a user-function result
        f.push(Form::Deliver(0b10_10_10 & ((1u8 << (2 * ops.len())) - 1)));
        if thorough {
            f.push(Form::Deliver(0b11_11_11 & ((1u8 << (2 * ops.len())) - 1)));
        }
    }
    if ops.len() == 2 && ops[0] == ops[1] {
        f.push(Form::SameRef);
    }
    if ops.iter().all(|v| literal_ok(v)) && (thorough || ops.iter().all(|v| literal_core.contains(*v))) {
        f.push(Form::Literal);
    }
    // mixed: one side written as a literal in the text, the other supplied by the input
    if ops.len() == 2 {
        if literal_ok(ops[0]) && literal_core.contains(ops[0]) {
            f.push(Form::LitRef);
        }
        if literal_ok(ops[1]) && literal_core.contains(ops[1]) {
            f.push(Form::RefLit);
        }
    }
    f
}

fn index_fields() -> Vec<&'static str> {
    vec!["a", "A", "b", "zz"]
}
fn index_positions() -> Vec<usize> {
    vec![0, 1, 2, usize::MAX]
}

/// all round-1 applications over the pool
fn round1_apps(v0: &[RV], small: &[RV]) -> Vec<App> {
    let mut apps = Vec::new();
    for op in ALL_UNOPS {
        for a in v0 {
            apps.push(App::Un(op, a.clone()));
        }
    }
    for op in ALL_BINOPS {
        for a in v0 {
            for b in v0 {
                apps.push(App::Bin(op, a.clone(), b.clone()));
            }
        }
    }
    for a in v0 {
        for f in index_fields() {
            apps.push(App::IdxF(a.clone(), f.to_string()));
        }
        for n in index_positions() {
            apps.push(App::IdxN(a.clone(), n));
        }
    }
    // if: every condition value x branches from the small pool
    for c in v0 {
        for t in small {
            for e in small {
                apps.push(App::If(c.clone(), t.clone(), e.clone()));
            }
        }
    }
    // list / map constructors: lengths 0..2 over the pool (pairs from the small pool)
    apps.push(App::List(vec![]));
    apps.push(App::Map(vec![]));
    for a in v0 {
        apps.push(App::List(vec![a.clone()]));
        apps.push(App::Map(vec![("k".to_string(), a.clone())]));
        for b in small {
            apps.push(App::List(vec![a.clone(), b.clone()]));
            apps.push(App::Map(vec![("k".to_string(), a.clone()), ("j".to_string(), b.clone())]));
        }
    }
    apps
}

fn par_run(prop: Prop, apps: &[App], lit_core: &BTreeSet<RV>, thorough: bool, only_built: bool) -> (Acc, BTreeSet<RV>) {
    apps.par_chunks(512)
        .map(|chunk| {
            let mut acc = Acc::new();
            let mut res = BTreeSet::new();
            for app in chunk {
                let forms = if only_built { vec![Form::Built] } else { forms_for(app, lit_core, thorough) };
                run_app(prop, app, &forms, &mut acc, &mut res);
            }
            (acc, res)
        })
        .reduce(
            || (Acc::new(), BTreeSet::new()),
            |(a, mut ra), (b, rb)| {
                ra.extend(rb);
                (a.merge(b), ra)
            },
        )
}

/// input shapes: references against map / non-map / None inputs must error, never panic
fn input_shapes(prop: Prop, acc: &mut Acc) {
    let shapes: Vec<(&str, Value)> = vec![
        ("map", Value::Map([("a".to_string(), Value::Int(1))].into_iter().collect())),
        ("map-of-map", Value::Map([("a".to_string(), Value::Map([("b".to_string(), Value::None)].into_iter().collect()))].into_iter().collect())),
        ("empty-map", Value::Map(BTreeMap::new())),
        // field names that collide with words of the language (`facts` stays the whole input)
        ("map-with-facts-key", Value::Map([("facts".to_string(), Value::Int(7)), ("a".to_string(), Value::Int(1)), ("none".to_string(), Value::Int(8)), ("true".to_string(), Value::Int(9))].into_iter().collect())),
        ("map-with-facts-map", Value::Map([("facts".to_string(), Value::Map([("a".to_string(), Value::Int(7))].into_iter().collect())), ("a".to_string(), Value::Int(1))].into_iter().collect())),
        ("int", Value::Int(5)),
        ("none", Value::None),
        ("list", Value::Vec(vec![Value::Int(1)])),
        ("string", Value::String("a".into())),
    ];
    let exprs = [
        "a", "zz", "facts", "facts.a", "a + a", "is_none(a)", "facts.0", ":a", "f(a)", "[a, zz]", "{k: a}", "if a then a else zz", "a.a.a",
        // a None arising from a missing field / index, reached through the `facts` keyword and through a field
        "facts.zz", "facts.zz + i1", "facts.zz > i1", "int(facts.zz)", "facts.zz.x.0", "facts.zz == facts.zz", "facts.zz contains i1", "[i1] contains facts.zz", "a.zz", "a.zz + i1", "facts.a.zz", "-facts.zz", "!facts.zz", "uppercase(facts.zz)", "facts.zz and true", "if facts.zz then i1 else i2",
        "facts.facts", "facts.facts.a", "facts contains \"a\"", "facts contains \"facts\"", "facts == facts", "facts.a + i1", "is_some(facts.a)", "[facts.a, a]",
    ];
    for (sname, facts) in &shapes {
        let rf = RV::from_value(facts);
        for text in exprs {
            let parsed = match parse_expr(text) {
                Ok(Ok(e)) => e,
                other => {
                    acc.machinery(format!("input-shape text {text:?} did not parse: {other:?}"));
                    continue;
                }
            };
            let tree = RE::from_expr(&parsed);
            let mut env = PlainEnv { facts: rf.clone(), symbols: BTreeMap::new() };
            let exp = eval(&tree, &mut env);
            // three routes for the input: a hand-built Value through Expr::evaluate, and a serde type
            // through RuleSet::evaluate (a None written as unit and as Option::None)
            for (route, obs) in [("value", eval_expr(&parsed, facts)), ("serde", eval_via_serde(&parsed, &rf, true)), ("serde-option", eval_via_serde(&parsed, &rf, false))] {
                // symbols / functions are not registered in the serde route's ruleset either, so the
                // expectation is the same
                acc.count("executions", 1);
                acc.count("input_shape_cases", 1);
                acc.outcome(format!("shape:{}:{}", sname, obs.class()));
                let bad = match prop {
                    Prop::C01 => matches!(obs, Obs::Panic(_)),
                    Prop::C02 | Prop::C04 => conforms(&exp, &obs) == Some(false),
                    _ => false,
                };
                if bad {
                    acc.violation(Violation {
                        sig: format!("input-shape/{sname}/{text}/{route}/{}", obs.class()),
                        what: format!("`{text}` on {sname} input ({route} route): expected {}, observed {}", show_exp(&exp), obs.show()),
                        case: json!({"kind": "shape", "text": text, "facts": rf.to_json()}),
                        size: text.len(),
                    });
                }
            }
        }
    }
}

/// Mid-range sweep: ordinary magnitudes, calendar positions, decimal scales, longer strings and
/// collections — every unary kind on every value, every binary kind on every pair within a
/// compatible group (plus the date/duration and collection/item cross groups).
fn sweep_apps(thorough: bool) -> Vec<App> {
    let ints = pool::sweep_ints();
    let decs = pool::sweep_decimals();
    let floats = pool::sweep_floats();
    let strs = pool::sweep_strings();
    let dts = pool::sweep_datetimes();
    let durs = pool::sweep_durations();
    let lists = pool::sweep_lists();
    let maps = pool::sweep_maps();
    let mut apps = Vec::new();
    for group in [&ints, &decs, &floats, &strs, &dts, &durs, &lists, &maps] {
        for v in group.iter() {
            for op in ALL_UNOPS {
                apps.push(App::Un(op, v.clone()));
            }
            for n in [0usize, 1, 5, 6, 11, 12, 39, 40] {
                apps.push(App::IdxN(v.clone(), n));
            }
            for f in ["a", "k0", "k11", "k12", "needle", "hay"] {
                apps.push(App::IdxF(v.clone(), f.to_string()));
            }
        }
    }
    // strings that are the printed form of some other value (casts must not be fooled by them, and
    // must not panic on out-of-range ones)
    let mut printed: Vec<RV> = Vec::new();
    for v in pool::v0().iter().chain(durs.iter()).chain(dts.iter().step_by(40)) {
        if !matches!(v, RV::Str(_)) {
            printed.push(RV::Str(v.to_value().to_string()));
        }
    }
    for extra in ["PT7200S", "-PT90S", "PT9223372036854776S", "-PT9223372036854776S", "PT0.5S", "P1D", "PT1H", "P1W", "1 week", "90s", "1h30m", "0x10", "0b11", "0o17", "1_000", "１２", "Infinity", "-inf", "nan", "1e400", "1e-400", "0.1e1", "1.", ".5", "+.5e+1", "१२"] {
        printed.push(RV::Str(extra.to_string()));
    }
    // strings of exactly the byte lengths fixed-offset parsers expect (timestamps: 19, 20, 24, 25,
    // 29, 30 bytes; also 8, 10), ending in `Z`, with one multi-byte character at every offset
    for total in [8usize, 10, 19, 20, 21, 24, 25, 29, 30] {
        for wide in ['é', '€', '😀', '２'] {
            let w = wide.len_utf8();
            for at in 0..(total - 1) {
                if at + w > total - 1 {
                    continue;
                }
                let model = "2015-07-30T03:26:13.123456789";
                let mut t = String::new();
                t.push_str(&model[..at.min(model.len())]);
                while t.len() < at {
                    t.push('0');
                }
                t.push(wide);
                while t.len() < total - 1 {
                    let i = t.len();
                    t.push(model.as_bytes().get(i).map(|b| *b as char).unwrap_or('0'));
                }
                t.truncate(total - 1);
                if t.is_char_boundary(t.len()) && t.len() == total - 1 {
                    t.push('Z');
                    printed.push(RV::Str(t));
                }
            }
        }
    }
    printed.sort();
    printed.dedup();
    for v in &printed {
        for op in ALL_UNOPS {
            apps.push(App::Un(op, v.clone()));
        }
    }
    // field names a future version might give a meaning to (`.len`, `.size`, `.keys`, ...): on every
    // pool value they are ordinary field steps (None stays None, scalars are a type error)
    for v in pool::v0().iter() {
        for w in super::c15::PLAUSIBLE_WORDS.iter().filter(|w| crate::spec::rv::is_ident(w)) {
            apps.push(App::IdxF(v.clone(), w.to_string()));
        }
    }
    // every text within two edits of a canonical timestamp (thorough: of three of them) under the
    // date cast: un-zoned, blank-separated, short-field and shifted-blank neighbours
    {
        let mut texts = pool::timestamp_neighbourhood("2015-07-30T03:26:13Z", true);
        if thorough {
            texts.extend(pool::timestamp_neighbourhood("2015-07-30T03:26:13.5+02:00", true));
            texts.extend(pool::timestamp_neighbourhood("1999-12-31 23:59:60Z", true));
        } else {
            texts.extend(pool::timestamp_neighbourhood("2015-07-30T03:26:13.5+02:00", false));
        }
        texts.sort();
        texts.dedup();
        for t in texts {
            apps.push(App::Un(UnOp::DateTime, RV::Str(t)));
        }
    }
    // calendar: every day around the century years 1900 / 2000 / 2100 / 2400 (thorough: every day
    // of 1570..2770, three full 400-year cycles) under every date component; first / last second of
    // each of those days for the small set
    {
        let day = 86_400i64;
        let mut days: Vec<i64> = Vec::new();
        if thorough {
            days.extend(-146_097i64..(2 * 146_097));
        } else {
            for (y_start_days, span) in [(-27_029i64, 9 * 366), (9_496, 9 * 366), (46_020, 9 * 366), (155_593, 9 * 366)] {
                days.extend(y_start_days..y_start_days + span);
            }
        }
        for d in days {
            for (secs, nanos) in [(d * day + 13 * 3600 + 14 * 60 + 15, 0u32), (d * day, 0), (d * day + day - 1, 999_999_999)] {
                if !thorough && secs % day != 13 * 3600 + 14 * 60 + 15 && d % 7 != 0 {
                    continue;
                }
                let v = RV::Dt(secs, nanos);
                for op in [UnOp::Year, UnOp::Month, UnOp::Day, UnOp::Hour, UnOp::Minute, UnOp::Second] {
                    apps.push(App::Un(op, v.clone()));
                }
            }
        }
    }
    // case mapping and trimming: every scalar below U+2000, the alphabetic presentation forms and
    // the cased supplementary blocks (thorough: every Unicode scalar), alone and between letters
    {
        let wanted = |u: u32| thorough || u < 0x2000 || (0x2000..0x2070).contains(&u) || (0x2100..0x2190).contains(&u) || (0x2c00..0x2e00).contains(&u) || (0xa640..0xa7ff).contains(&u) || (0xab30..0xabc0).contains(&u) || (0xfb00..0xfb18).contains(&u) || (0xff00..0xff60).contains(&u) || u == 0x3000 || u == 0xfeff || (0x10400..0x10500).contains(&u) || (0x10c80..0x10d00).contains(&u) || (0x118a0..0x118e0).contains(&u) || (0x16e40..0x16e80).contains(&u) || (0x1e900..0x1e950).contains(&u);
        for u in 0x80u32..=0x10ffff {
            if !wanted(u) {
                continue;
            }
            if let Some(c) = char::from_u32(u) {
                for text in [c.to_string(), format!("a{c}b"), format!("{c}a{c}")] {
                    let v = RV::Str(text);
                    for op in [UnOp::Upper, UnOp::Lower, UnOp::Trim] {
                        apps.push(App::Un(op, v.clone()));
                    }
                }
            }
        }
    }
    // runs of a character whose case mapping changes its byte length (one character becoming two or
    // three, a two-byte letter becoming one byte, ...): 2..64 copies, alone and before a letter — a
    // mapper that sizes its output from the input length is exercised at every small capacity
    {
        let mut changing: Vec<char> = Vec::new();
        for u in 0x80u32..=0x1ffff {
            if let Some(c) = char::from_u32(u) {
                let len = c.len_utf8();
                let up: usize = c.to_uppercase().map(|x| x.len_utf8()).sum();
                let lo: usize = c.to_lowercase().map(|x| x.len_utf8()).sum();
                if up != len || lo != len {
                    changing.push(c);
                }
            }
        }
        for (i, c) in changing.iter().enumerate() {
            // every changing character at a few run lengths; the ones that grow at all of them
            let grows = c.to_uppercase().count() > 1 || c.to_lowercase().count() > 1;
            let ks: &[usize] = if grows { &[2, 3, 4, 5, 7, 8, 9, 10, 11, 12, 13, 15, 16, 17, 21, 22, 24, 25, 31, 32, 33, 43, 64] } else { &[2, 8, 9, 16, 17, 33] };
            for &k in ks {
                if !thorough && !grows && (i + k) % 3 != 0 {
                    continue;
                }
                let run: String = std::iter::repeat(*c).take(k).collect();
                for text in [run.clone(), format!("{run}a"), format!("a{run}")] {
                    let v = RV::Str(text);
                    for op in [UnOp::Upper, UnOp::Lower] {
                        apps.push(App::Un(op, v.clone()));
                    }
                }
            }
        }
    }
    // decimal remainder across scales: mantissas at the powers of two and ten x scales 0..28, every
    // pair (bringing both to one scale needs up to 190 bits; the result is exact and small)
    {
        let mut mants: Vec<u128> = Vec::new();
        for k in [0u32, 1, 8, 16, 31, 32, 33, 48, 63, 64, 65, 80, 95, 96] {
            mants.push((1u128 << k) - 1);
            if k < 96 {
                mants.push(1u128 << k);
            }
        }
        let mut p = 1u128;
        for k in 0..=28u32 {
            if k % 3 == 0 || k >= 27 {
                mants.extend([p, p + 1, p * 7 + 3]);
            }
            p *= 10;
        }
        mants.extend([4_294_967_295, 7_922_816_251_426_433_759_354_395_034, 18_446_744_073_709_551_617, 3]);
        mants.retain(|m| *m > 0 && *m < (1u128 << 96));
        mants.sort();
        mants.dedup();
        let mut decs: Vec<RV> = Vec::new();
        for m in &mants {
            for scale in [0u32, 1, 9, 10, 19, 20, 27, 28] {
                decs.push(RV::Dec(RDec { neg: false, mant: *m, scale }));
            }
        }
        for (i, x) in decs.iter().enumerate() {
            for (j, y) in decs.iter().enumerate() {
                apps.push(App::Bin(BinOp::Rem, x.clone(), y.clone()));
                if (i + j) % 7 == 0 {
                    if let (RV::Dec(a), RV::Dec(b)) = (x, y) {
                        apps.push(App::Bin(BinOp::Rem, RV::Dec(RDec { neg: true, ..a.clone() }), y.clone()));
                        apps.push(App::Bin(BinOp::Rem, x.clone(), RV::Dec(RDec { neg: true, ..b.clone() })));
                    }
                }
            }
        }
    }
    // decimals at the machine-word boundaries (mantissas 2^k - 1, 2^k, 2^k + 1 for k = 31, 32, 63, 64,
    // 95 and the largest one, both signs, scales 0 and 1) and the small numbers a word-sized fast
    // path is written around (0, 1, -1, 2, 10), every pair under every arithmetic operator
    {
        let mut ms: Vec<u128> = vec![0, 1, 2, 10];
        for k in [31u32, 32, 63, 64, 95] {
            ms.extend([(1u128 << k) - 1, 1u128 << k, (1u128 << k) + 1]);
        }
        ms.push((1u128 << 96) - 1);
        let mut ds: Vec<RV> = Vec::new();
        for m in ms {
            for scale in [0u32, 1] {
                for neg in [false, true] {
                    if m == 0 && neg {
                        continue;
                    }
                    ds.push(RV::Dec(RDec { neg, mant: m, scale }));
                }
            }
        }
        for x in &ds {
            for y in &ds {
                for op in [BinOp::Add, BinOp::Sub, BinOp::Mult, BinOp::Div, BinOp::Rem] {
                    apps.push(App::Bin(op, x.clone(), y.clone()));
                }
            }
        }
    }
    let pairs = |a: &Vec<RV>, b: &Vec<RV>, apps: &mut Vec<App>, cap: usize| {
        for x in a.iter().take(cap) {
            for y in b.iter().take(cap) {
                for op in ALL_BINOPS {
                    apps.push(App::Bin(op, x.clone(), y.clone()));
                }
            }
        }
    };
    pairs(&ints, &ints, &mut apps, 200);
    pairs(&decs, &decs, &mut apps, 80);
    pairs(&floats, &floats, &mut apps, 200);
    pairs(&strs, &strs, &mut apps, 100);
    pairs(&durs, &durs, &mut apps, 60);
    // date x duration, date x date (every 9th day keeps the product small), collections x items
    let dts_some: Vec<RV> = dts.iter().step_by(9).cloned().collect();
    pairs(&dts_some, &durs, &mut apps, 100);
    pairs(&dts_some, &dts_some, &mut apps, 100);
    let items: Vec<RV> = ints.iter().take(30).chain(strs.iter().take(40)).chain(floats.iter().take(5)).chain(decs.iter().take(5)).cloned().chain([RV::None, RV::Bool(true)]).collect();
    pairs(&lists, &items, &mut apps, 100);
    pairs(&maps, &items, &mut apps, 100);
    pairs(&items, &lists, &mut apps, 100);
    apps
}

/// E4 — composition: every node kind in every child position of every node kind (thorough: chains
/// of three kinds), leaves from a small pool, evaluated whole and compared with the reference
/// evaluator (first error wins, sub-results feed the parent).
fn composition_leg(prop: Prop, tier: Tier) -> Acc {
    use super::c05::kinds;
    let ks = kinds();
    let pool: Vec<RV> = vec![
        RV::Int(2),
        RV::Int(0),
        RV::float(1.5),
        RV::Dec(RDec { neg: false, mant: 15, scale: 1 }),
        RV::Bool(true),
        RV::str("ab"),
        RV::None,
        RV::List(vec![RV::Int(2)]),
    ];
    let small: Vec<RV> = vec![RV::Int(2), RV::Bool(true), RV::None, RV::float(1.5)];
    // (parent index, position, child index)
    let mut jobs: Vec<(usize, usize, usize)> = Vec::new();
    for (pi, p) in ks.iter().enumerate() {
        for pos in 0..p.arity {
            for ci in 0..ks.len() {
                jobs.push((pi, pos, ci));
            }
        }
    }
    fn tuples(pool: &[RV], n: usize) -> Vec<Vec<RV>> {
        let mut out: Vec<Vec<RV>> = vec![vec![]];
        for _ in 0..n {
            let mut next = Vec::new();
            for t in &out {
                for v in pool {
                    let mut x = t.clone();
                    x.push(v.clone());
                    next.push(x);
                }
            }
            out = next;
        }
        out
    }
    let check_tree = |label: &str, tree: &RE, acc: &mut Acc| {
        let mut env = PlainEnv { facts: RV::None, symbols: BTreeMap::new() };
        let exp = eval(tree, &mut env);
        let obs = match tree.try_to_expr() {
            Ok(e) => eval_expr(&e, &Value::None),
            Err(p) => Obs::Panic(format!("constructor: {p}")),
        };
        acc.count("executions", 1);
        acc.count("composite_trees", 1);
        acc.outcome(format!("composite:{}", obs.class()));
        let bad = match prop {
            Prop::C01 => matches!(obs, Obs::Panic(_)) || (matches!(exp, Err(RErr::Overflow)) && matches!(obs, Obs::Ok(_))),
            Prop::C02 => conforms(&exp, &obs) == Some(false),
            // a None arising deep inside: the composite must still follow the None rules
            Prop::C04 => format!("{tree:?}").contains("Val(None)") && conforms(&exp, &obs) == Some(false),
            _ => false,
        };
        if bad {
            let text = tree.unparse().unwrap_or_else(|| format!("{tree:?}"));
            acc.violation(Violation {
                sig: format!("composite/{label}/{}", obs.class()),
                what: format!("`{text}` evaluates to {}, the composition of its sub-results is {}", obs.show(), show_exp(&exp)),
                case: json!({"kind": "tree", "text": text}),
                size: text.len(),
            });
        }
    };
    let mut acc = jobs
        .par_iter()
        .map(|&(pi, pos, ci)| {
            let mut acc = Acc::new();
            let (p, c) = (&ks[pi], &ks[ci]);
            let label = format!("{}[{}]={}", p.label, pos, c.label);
            let use_pool: &[RV] = if c.arity + p.arity - 1 >= 4 { &small } else { &pool };
            for inner in tuples(use_pool, c.arity) {
                let child = (c.build)(inner.iter().map(|v| RE::Val(v.clone())).collect());
                for outer in tuples(use_pool, p.arity - 1) {
                    let mut it = outer.into_iter();
                    let ch: Vec<RE> = (0..p.arity).map(|i| if i == pos { child.clone() } else { RE::Val(it.next().unwrap()) }).collect();
                    let tree = (p.build)(ch);
                    check_tree(&label, &tree, &mut acc);
                }
            }
            acc
        })
        .reduce(Acc::new, |a, b| a.merge(b));
    if tier == Tier::Thorough {
        // chains of three kinds along every spine, 4-value leaf pool
        let mut jobs3: Vec<(usize, usize, usize, usize, usize)> = Vec::new();
        for (pi, p) in ks.iter().enumerate() {
            for pos in 0..p.arity {
                for (ci, c) in ks.iter().enumerate() {
                    for cpos in 0..c.arity {
                        for gi in 0..ks.len() {
                            jobs3.push((pi, pos, ci, cpos, gi));
                        }
                    }
                }
            }
        }
        let tiny: Vec<RV> = vec![RV::Int(2), RV::Bool(true), RV::None];
        let acc3 = jobs3
            .par_iter()
            .map(|&(pi, pos, ci, cpos, gi)| {
                let mut acc = Acc::new();
                let (p, c, g) = (&ks[pi], &ks[ci], &ks[gi]);
                let label = format!("{}[{}]={}[{}]={}", p.label, pos, c.label, cpos, g.label);
                for leaf in &tiny {
                    let inner = (g.build)((0..g.arity).map(|_| RE::Val(leaf.clone())).collect());
                    for other in &tiny {
                        let mid: Vec<RE> = (0..c.arity).map(|i| if i == cpos { inner.clone() } else { RE::Val(other.clone()) }).collect();
                        let midt = (c.build)(mid);
                        let ch: Vec<RE> = (0..p.arity).map(|i| if i == pos { midt.clone() } else { RE::Val(other.clone()) }).collect();
                        check_tree(&label, &(p.build)(ch), &mut acc);
                    }
                }
                acc
            })
            .reduce(Acc::new, |a, b| a.merge(b));
        acc = acc.merge(acc3);
    }
    acc.sample("composite", 1, || json!("(i2 + f1.5) * i0  ->  reference: first error (type) wins"));
    acc
}

pub fn run(prop: Prop, tier: Tier) -> i32 {
    let mut rep = Report::new(prop.id(), tier);
    let thorough = tier == Tier::Thorough;
    let v0 = pool::v0();
    let small = pool::core(tier.pick(6, 10));
    let core = pool::core(tier.pick(6, 25));
    let lit_core: BTreeSet<RV> = pool::core(25).into_iter().chain(pool::ints().into_iter().take(12)).chain(pool::lists()).chain(pool::maps()).chain([RV::str("a"), RV::str("true"), RV::str("2015-07-30T03:26:13Z")]).collect();
    rep.bound("pool_v0", v0.len());
    rep.bound("round2_core", core.len());
    rep.bound("if_branch_pool", small.len());
    rep.bound("node_kinds", 47);

    // round 1
    let apps = round1_apps(&v0, &small);
    let (acc1, results1) = par_run(prop, &apps, &lit_core, thorough, false);
    let n_apps1 = apps.len() as u64;
    rep.absorb(acc1);

    // delivery matrix: every operand independently a constant, an input field, a symbol or a
    // user-function result (4^arity routes), evaluated through a ruleset
    {
        let dcore: Vec<RV> = if thorough { v0.clone() } else { pool::core(25) };
        let mut dapps: Vec<App> = Vec::new();
        for op in ALL_UNOPS {
            for a in &v0 {
                dapps.push(App::Un(op, a.clone()));
            }
        }
        for op in ALL_BINOPS {
            for a in &dcore {
                for b in &dcore {
                    dapps.push(App::Bin(op, a.clone(), b.clone()));
                }
            }
        }
        for a in &v0 {
            for f in index_fields() {
                dapps.push(App::IdxF(a.clone(), f.to_string()));
            }
            for n in index_positions() {
                dapps.push(App::IdxN(a.clone(), n));
            }
        }
        for c in pool::core(25) {
            for t in &small {
                for e in &small {
                    dapps.push(App::If(c.clone(), t.clone(), e.clone()));
                }
            }
            for b in &small {
                dapps.push(App::List(vec![c.clone(), b.clone()]));
                dapps.push(App::Map(vec![("k".to_string(), c.clone()), ("j".to_string(), b.clone())]));
            }
        }
        let accd = dapps
            .par_chunks(256)
            .map(|chunk| {
                let mut acc = Acc::new();
                for app in chunk {
                    for code in deliver_codes(app.operands().len()) {
                        let obs = observe_delivered(app, code);
                        acc.count("delivery_matrix_cases", 1);
                        judge(prop, app, Form::Deliver(code), &obs, &mut acc);
                    }
                }
                acc
            })
            .reduce(Acc::new, |a, b| a.merge(b));
        rep.bound("delivery_matrix_applications", dapps.len());
        rep.bound("delivery_routes_per_operand", "constant / input field / symbol / user-function result");
        rep.absorb(accd);
    }

    // round 2: values reached in round 1 that are not in V0
    let v0set: BTreeSet<RV> = v0.iter().cloned().collect();
    let frontier: Vec<RV> = results1.iter().filter(|v| !v0set.contains(*v)).cloned().collect();
    let cap = tier.pick(60_000usize, 400_000usize);
    let frontier_full = frontier.len();
    let frontier: Vec<RV> = frontier.into_iter().take(cap).collect();
    if frontier_full > frontier.len() {
        rep.exhaustive = false;
        rep.note(format!("round-2 frontier capped: {} of {} reached values used", frontier.len(), frontier_full));
    }
    let mut apps2 = Vec::new();
    for x in &frontier {
        for op in ALL_UNOPS {
            apps2.push(App::Un(op, x.clone()));
        }
        for op in ALL_BINOPS {
            for c in &core {
                apps2.push(App::Bin(op, x.clone(), c.clone()));
                apps2.push(App::Bin(op, c.clone(), x.clone()));
            }
            apps2.push(App::Bin(op, x.clone(), x.clone()));
        }
    }
    let (acc2, results2) = par_run(prop, &apps2, &lit_core, thorough, true);
    rep.absorb(acc2);
    let new2 = results2.iter().filter(|v| !v0set.contains(*v) && !results1.contains(*v)).count();

    // round 3 (thorough): values first reached in round 2
    let mut apps3_len = 0usize;
    let mut new3 = 0usize;
    if thorough {
        let frontier3: Vec<RV> = results2.iter().filter(|v| !v0set.contains(*v) && !results1.contains(*v)).cloned().collect();
        let cap3 = 300_000usize;
        let full3 = frontier3.len();
        let frontier3: Vec<RV> = frontier3.into_iter().take(cap3).collect();
        if full3 > frontier3.len() {
            rep.exhaustive = false;
            rep.note(format!("round-3 frontier capped: {} of {} reached values used", frontier3.len(), full3));
        }
        let core3 = pool::core(8);
        let mut apps3 = Vec::new();
        for x in &frontier3 {
            for op in ALL_UNOPS {
                apps3.push(App::Un(op, x.clone()));
            }
            for op in ALL_BINOPS {
                for c in &core3 {
                    apps3.push(App::Bin(op, x.clone(), c.clone()));
                    apps3.push(App::Bin(op, c.clone(), x.clone()));
                }
                apps3.push(App::Bin(op, x.clone(), x.clone()));
            }
        }
        apps3_len = apps3.len();
        let (acc3r, results3) = par_run(prop, &apps3, &lit_core, false, true);
        rep.absorb(acc3r);
        new3 = results3.iter().filter(|v| !v0set.contains(*v) && !results1.contains(*v) && !results2.contains(*v)).count();
        rep.bound("round3_core", core3.len());
    }

    // mid-range sweep (round 1b)
    let sweep = sweep_apps(thorough);
    let (acc_s, _) = par_run(prop, &sweep, &lit_core, false, true);
    rep.bound("midrange_sweep_applications", sweep.len());
    rep.absorb(acc_s);

    // composition (C01: no panic; C02: composite = composition of sub-results)
    if matches!(prop, Prop::C01 | Prop::C02 | Prop::C04) {
        rep.absorb(composition_leg(prop, tier));
        rep.bound("composition", tier.pick("depth 2: every kind in every child position of every kind x all leaf tuples over an 8-value pool", "as quick + chains of three kinds along every spine over a 3-value pool"));
    }

    // C01: user functions whose `cacheable()` answer varies from query to query must not make
    // the evaluator panic either (every answer script up to the bound)
    if prop == Prop::C01 {
        let (acc_s, n) = super::c11::script_leg(tier, true);
        rep.bound("cacheable_answer_scripts", n);
        rep.absorb(acc_s);
    }

    // input shapes
    let mut acc3 = Acc::new();
    input_shapes(prop, &mut acc3);
    rep.absorb(acc3);

    rep.states = (v0.len() + frontier_full + new2 + new3) as u64;
    if thorough {
        rep.bound("round3_applications", apps3_len);
        rep.bound("round3_new_values", new3);
    }
    rep.transitions = rep.acc.get("transitions") + rep.acc.get("composite_trees");
    rep.traces = rep.acc.get("executions");
    rep.bound("round1_applications", n_apps1);
    rep.bound("round2_applications", apps2.len());
    rep.bound("round1_new_values", frontier_full);
    rep.bound("round2_new_values", new2);
    rep.rule = "E2 value-space BFS: every node kind applied to every operand tuple over the boundary pool V0 (round 1, forms: built/ruleset/parsed-with-references/same-reference/parsed-with-literals) and to every value reached in round 1 paired with a core pool (round 2; thorough: a third round over the values first reached in round 2); each execution runs the real evaluator and the reference side by side; states = distinct operand values, transitions = distinct applications".into();
    rep.assume("reference trusted base: Rust integer/IEEE primitives, rust_decimal checked arithmetic and conversions, f64::from_str, chrono's RFC 3339 parser and range constants, std Unicode case mapping");
    rep.assume("operand values outside V0 and the values reached from it in one step (thorough: two steps) are not explored");
    rep.finish()
}

pub fn replay(prop: Prop, case: &J) -> i32 {
    match case.get("kind").and_then(|k| k.as_str()) {
        Some("apply") => {
            let app = match case.get("app").and_then(App::from_json) {
                Some(a) => a,
                None => {
                    println!("cannot decode case");
                    return 2;
                }
            };
            let form = match case.get("form").and_then(|f| f.as_str()) {
                Some("Built") => Form::Built,
                Some("Ruleset") => Form::Ruleset,
                Some("Refs") => Form::Refs,
                Some("SameRef") => Form::SameRef,
                Some("Literal") => Form::Literal,
                Some("LitRef") => Form::LitRef,
                Some("RefLit") => Form::RefLit,
                Some(d) if d.starts_with("Deliver(") => match d[8..].trim_end_matches(')').parse::<u8>() {
                    Ok(c) => Form::Deliver(c),
                    Err(_) => return 2,
                },
                _ => return 2,
            };
            let mut acc = Acc::new();
            let o1 = observe_app(&app, form);
            let o2 = observe_app(&app, form);
            println!("application : {}", app.show());
            println!("form        : {form:?}");
            println!("reference   : {}", show_exp(&app.expected()));
            match (&o1, &o2) {
                (Ok(a), Ok(b)) if a == b => {
                    println!("observed    : {}", a.show());
                    judge(prop, &app, form, a, &mut acc);
                }
                _ => {
                    println!("replay not deterministic or not runnable: {o1:?} / {o2:?}");
                    return 2;
                }
            }
            if acc.violations.is_empty() {
                println!("verdict     : holds");
                0
            } else {
                for v in acc.violations.values() {
                    println!("verdict     : VIOLATED — {}", v.what);
                }
                1
            }
        }
        Some("tree") => {
            let text = case.get("text").and_then(|t| t.as_str()).unwrap_or("");
            let parsed = match parse_expr(text) {
                Ok(Ok(e)) => e,
                o => {
                    println!("parse failed: {o:?}");
                    return 2;
                }
            };
            let mut env = PlainEnv { facts: RV::None, symbols: BTreeMap::new() };
            let exp = eval(&RE::from_expr(&parsed), &mut env);
            let obs = eval_expr(&parsed, &Value::None);
            println!("expression {text:?}: reference {}, observed {}", show_exp(&exp), obs.show());
            if matches!(obs, Obs::Panic(_)) || conforms(&exp, &obs) == Some(false) {
                1
            } else {
                0
            }
        }
        Some("cacheable-script") => super::c11::replay(case),
        Some("shape") => {
            let text = case.get("text").and_then(|t| t.as_str()).unwrap_or("");
            let facts = case.get("facts").and_then(RV::from_json).unwrap_or(RV::None);
            let parsed = match parse_expr(text) {
                Ok(Ok(e)) => e,
                o => {
                    println!("parse failed: {o:?}");
                    return 2;
                }
            };
            let mut env = PlainEnv { facts: facts.clone(), symbols: BTreeMap::new() };
            let exp = eval(&RE::from_expr(&parsed), &mut env);
            let mut rc = 0;
            for (route, obs) in [("value", eval_expr(&parsed, &facts.to_value())), ("serde", eval_via_serde(&parsed, &facts, true)), ("serde-option", eval_via_serde(&parsed, &facts, false))] {
                println!("text {text:?} on {} ({route} route): reference {}, observed {}", facts.show(), show_exp(&exp), obs.show());
                if matches!(obs, Obs::Panic(_)) || conforms(&exp, &obs) == Some(false) {
                    rc = 1;
                }
            }
            rc
        }
        _ => {
            println!("unknown case kind");
            2
        }
    }
}
