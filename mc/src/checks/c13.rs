//! C13 — serializing input data into a Value is total and faithful.
//! `SVal` calls exactly one serializer method per node, so all 29 kinds of the serde data model
//! (plus "fails") are first-class; product enumeration of leaves, container x child pairs, keys.
use crate::engine::exec::block_on;
use crate::engine::panic::catch;
use crate::engine::report::{Acc, Report, Tier, Violation};
use crate::spec::rv::*;
use rayon::prelude::*;
use reval::prelude::*;
use reval::value::ser::ValueSerializer;
use serde::ser::{SerializeMap, SerializeSeq, SerializeStruct, SerializeStructVariant, SerializeTuple, SerializeTupleStruct, SerializeTupleVariant};
use serde::{Serialize, Serializer};
use serde_json::json;
use std::collections::BTreeMap;

#[derive(Clone, Debug, PartialEq)]
pub enum SVal {
    Bool(bool),
    I8(i8),
    I16(i16),
    I32(i32),
    I64(i64),
    I128(i128),
    U8(u8),
    U16(u16),
    U32(u32),
    U64(u64),
    U128(u128),
    F32(f32),
    F64(f64),
    Char(char),
    Str(String),
    Bytes(Vec<u8>),
    None,
    Some(Box<SVal>),
    Unit,
    UnitStruct,
    UnitVariant(&'static str),
    NewtypeStruct(Box<SVal>),
    NewtypeVariant(&'static str, Box<SVal>),
    Seq(Vec<SVal>),
    Tuple(Vec<SVal>),
    TupleStruct(Vec<SVal>),
    TupleVariant(&'static str, Vec<SVal>),
    Map(Vec<(SVal, SVal)>),
    Struct(Vec<(&'static str, SVal)>),
    StructVariant(&'static str, Vec<(&'static str, SVal)>),
    /// the provided methods std's impls use: Vec/slice/set -> collect_seq, maps -> collect_map,
    /// Display types (chrono) -> collect_str
    CollectSeq(Vec<SVal>),
    CollectMap(Vec<(SVal, SVal)>),
    CollectStr(String),
    /// struct whose fields marked `true` are skipped through the `skip_field` hook
    /// (`#[serde(skip_serializing_if)]`)
    StructSkip(Vec<(&'static str, SVal, bool)>),
    /// std types whose Serialize impl branches on `is_human_readable` (text form vs compact form)
    Ip(std::net::IpAddr),
    /// serializes `true` when the serializer says it is human readable, `false` otherwise
    HumanReadableProbe,
    /// a Serialize impl that fails with a custom error
    Fail,
    /// a map / struct impl that goes on after an entry failed to serialize (the failing entry is
    /// left out, the others are written)
    MapRecover(Vec<(SVal, SVal)>),
    StructRecover(Vec<(&'static str, SVal)>),
    /// a sequence / tuple / tuple variant announcing a length that is not the number of elements
    /// it then writes (a size hint is a hint; huge announced lengths must not be trusted)
    SeqHint(usize, Vec<SVal>),
    TupleHint(usize, Vec<SVal>),
    TupleVariantHint(usize, Vec<SVal>),
}

impl Serialize for SVal {
    fn serialize<S: Serializer>(&self, s: S) -> Result<S::Ok, S::Error> {
        match self {
            SVal::Bool(v) => s.serialize_bool(*v),
            SVal::I8(v) => s.serialize_i8(*v),
            SVal::I16(v) => s.serialize_i16(*v),
            SVal::I32(v) => s.serialize_i32(*v),
            SVal::I64(v) => s.serialize_i64(*v),
            SVal::I128(v) => s.serialize_i128(*v),
            SVal::U8(v) => s.serialize_u8(*v),
            SVal::U16(v) => s.serialize_u16(*v),
            SVal::U32(v) => s.serialize_u32(*v),
            SVal::U64(v) => s.serialize_u64(*v),
            SVal::U128(v) => s.serialize_u128(*v),
            SVal::F32(v) => s.serialize_f32(*v),
            SVal::F64(v) => s.serialize_f64(*v),
            SVal::Char(v) => s.serialize_char(*v),
            SVal::Str(v) => s.serialize_str(v),
            SVal::Bytes(v) => s.serialize_bytes(v),
            SVal::None => s.serialize_none(),
            SVal::Some(v) => s.serialize_some(&**v),
            SVal::Unit => s.serialize_unit(),
            SVal::UnitStruct => s.serialize_unit_struct("U"),
            SVal::UnitVariant(n) => s.serialize_unit_variant("E", 0, n),
            SVal::NewtypeStruct(v) => s.serialize_newtype_struct("N", &**v),
            SVal::NewtypeVariant(n, v) => s.serialize_newtype_variant("E", 1, n, &**v),
            SVal::Seq(v) => {
                let mut q = s.serialize_seq(Some(v.len()))?;
                for x in v {
                    q.serialize_element(x)?;
                }
                q.end()
            }
            SVal::Tuple(v) => {
                let mut q = s.serialize_tuple(v.len())?;
                for x in v {
                    q.serialize_element(x)?;
                }
                q.end()
            }
            SVal::TupleStruct(v) => {
                let mut q = s.serialize_tuple_struct("T", v.len())?;
                for x in v {
                    q.serialize_field(x)?;
                }
                q.end()
            }
            SVal::TupleVariant(n, v) => {
                let mut q = s.serialize_tuple_variant("E", 2, n, v.len())?;
                for x in v {
                    q.serialize_field(x)?;
                }
                q.end()
            }
            SVal::Map(v) => {
                let mut q = s.serialize_map(Some(v.len()))?;
                for (k, x) in v {
                    q.serialize_key(k)?;
                    q.serialize_value(x)?;
                }
                q.end()
            }
            SVal::Struct(v) => {
                let mut q = s.serialize_struct("S", v.len())?;
                for (k, x) in v {
                    q.serialize_field(k, x)?;
                }
                q.end()
            }
            SVal::StructVariant(n, v) => {
                let mut q = s.serialize_struct_variant("E", 3, n, v.len())?;
                for (k, x) in v {
                    q.serialize_field(k, x)?;
                }
                q.end()
            }
            SVal::CollectSeq(v) => s.collect_seq(v.iter()),
            SVal::CollectMap(v) => s.collect_map(v.iter().map(|(k, x)| (k, x))),
            SVal::CollectStr(v) => s.collect_str(v),
            SVal::StructSkip(v) => {
                let kept = v.iter().filter(|(_, _, skip)| !skip).count();
                let mut q = s.serialize_struct("S", kept)?;
                for (k, x, skip) in v {
                    if *skip {
                        q.skip_field(k)?;
                    } else {
                        q.serialize_field(k, x)?;
                    }
                }
                q.end()
            }
            SVal::Ip(a) => a.serialize(s),
            SVal::HumanReadableProbe => {
                let hr = s.is_human_readable();
                s.serialize_bool(hr)
            }
            SVal::Fail => Err(serde::ser::Error::custom("injected failure")),
            SVal::SeqHint(hint, v) => {
                let mut q = s.serialize_seq(Some(*hint))?;
                for x in v {
                    q.serialize_element(x)?;
                }
                q.end()
            }
            SVal::TupleHint(hint, v) => {
                let mut q = s.serialize_tuple(*hint)?;
                for x in v {
                    q.serialize_element(x)?;
                }
                q.end()
            }
            SVal::TupleVariantHint(hint, v) => {
                let mut q = s.serialize_tuple_variant("E", 2, "TV", *hint)?;
                for x in v {
                    q.serialize_field(x)?;
                }
                q.end()
            }
            SVal::MapRecover(v) => {
                let mut q = s.serialize_map(None)?;
                for (k, x) in v {
                    if q.serialize_entry(k, x).is_err() {
                        continue;
                    }
                }
                q.end()
            }
            SVal::StructRecover(v) => {
                let mut q = s.serialize_struct("S", v.len())?;
                for (k, x) in v {
                    let _ = q.serialize_field(k, x);
                }
                q.end()
            }
        }
    }
}

#[derive(Debug, Clone, PartialEq)]
enum Img {
    Ok(RV),
    Err,
    /// either an error or any image
    Open,
    /// either an error or exactly this image (keys that are not strings but have an obvious text
    /// form: the statement allows refusing them, serde_json writes them as that text)
    ErrOr(RV),
}

enum KeyImg {
    /// a string key
    Exact(String),
    /// refused, or accepted as exactly this text
    ErrOrExact(String),
    Unsupported,
}

fn key_image(k: &SVal) -> KeyImg {
    match k {
        SVal::Str(s) => KeyImg::Exact(s.clone()),
        SVal::Ip(a) => KeyImg::Exact(a.to_string()),
        SVal::Char(c) => KeyImg::ErrOrExact(c.to_string()),
        SVal::UnitVariant(n) => KeyImg::ErrOrExact(n.to_string()),
        SVal::CollectStr(s) => KeyImg::ErrOrExact(s.clone()),
        SVal::NewtypeStruct(i) | SVal::Some(i) => match key_image(i) {
            KeyImg::Exact(s) | KeyImg::ErrOrExact(s) => KeyImg::ErrOrExact(s),
            KeyImg::Unsupported => KeyImg::Unsupported,
        },
        SVal::Bool(b) => KeyImg::ErrOrExact(b.to_string()),
        SVal::I8(x) => KeyImg::ErrOrExact(x.to_string()),
        SVal::I16(x) => KeyImg::ErrOrExact(x.to_string()),
        SVal::I32(x) => KeyImg::ErrOrExact(x.to_string()),
        SVal::I64(x) => KeyImg::ErrOrExact(x.to_string()),
        SVal::I128(x) => KeyImg::ErrOrExact(x.to_string()),
        SVal::U8(x) => KeyImg::ErrOrExact(x.to_string()),
        SVal::U16(x) => KeyImg::ErrOrExact(x.to_string()),
        SVal::U32(x) => KeyImg::ErrOrExact(x.to_string()),
        SVal::U64(x) => KeyImg::ErrOrExact(x.to_string()),
        SVal::U128(x) => KeyImg::ErrOrExact(x.to_string()),
        _ => KeyImg::Unsupported,
    }
}

/// combine the images of the parts of a container
fn combine(parts: Vec<Img>, build: impl FnOnce(Vec<RV>) -> RV) -> Img {
    let mut vals = Vec::new();
    let (mut open, mut maybe) = (false, false);
    for p in parts {
        match p {
            Img::Ok(r) => vals.push(r),
            Img::ErrOr(r) => {
                maybe = true;
                vals.push(r);
            }
            Img::Err => return if open { Img::Open } else { Img::Err },
            Img::Open => open = true,
        }
    }
    if open {
        Img::Open
    } else if maybe {
        Img::ErrOr(build(vals))
    } else {
        Img::Ok(build(vals))
    }
}

/// the image function written from the statement
fn image(v: &SVal) -> Img {
    let seq = |items: &[SVal]| -> Img { combine(items.iter().map(image).collect(), RV::List) };
    let fields = |items: &[(&'static str, SVal)]| -> Img {
        let keys: Vec<String> = items.iter().map(|(k, _)| k.to_string()).collect();
        combine(items.iter().map(|(_, x)| image(x)).collect(), |vals| RV::Map(keys.into_iter().zip(vals).collect()))
    };
    let tagged = |name: &str, inner: Img| -> Img {
        match inner {
            Img::Ok(r) => Img::Ok(RV::Map([(name.to_string(), r)].into_iter().collect())),
            Img::ErrOr(r) => Img::ErrOr(RV::Map([(name.to_string(), r)].into_iter().collect())),
            other => other,
        }
    };
    match v {
        SVal::Bool(b) => Img::Ok(RV::Bool(*b)),
        SVal::I8(x) => Img::Ok(RV::Int(*x as i128)),
        SVal::I16(x) => Img::Ok(RV::Int(*x as i128)),
        SVal::I32(x) => Img::Ok(RV::Int(*x as i128)),
        SVal::I64(x) => Img::Ok(RV::Int(*x as i128)),
        SVal::I128(x) => Img::Ok(RV::Int(*x)),
        SVal::U8(x) => Img::Ok(RV::Int(*x as i128)),
        SVal::U16(x) => Img::Ok(RV::Int(*x as i128)),
        SVal::U32(x) => Img::Ok(RV::Int(*x as i128)),
        SVal::U64(x) => Img::Ok(RV::Int(*x as i128)),
        SVal::U128(x) => match i128::try_from(*x) {
            Ok(i) => Img::Ok(RV::Int(i)),
            Err(_) => Img::Err,
        },
        SVal::F32(x) => Img::Ok(RV::float(*x as f64)),
        SVal::F64(x) => Img::Ok(RV::float(*x)),
        SVal::Char(c) => Img::Ok(RV::Str(c.to_string())),
        SVal::Str(s) => Img::Ok(RV::Str(s.clone())),
        SVal::Bytes(b) => Img::Ok(RV::List(b.iter().map(|x| RV::Int(*x as i128)).collect())),
        SVal::None | SVal::Unit | SVal::UnitStruct => Img::Ok(RV::None),
        SVal::Some(x) | SVal::NewtypeStruct(x) => image(x),
        SVal::UnitVariant(n) => Img::Ok(RV::Str(n.to_string())),
        SVal::NewtypeVariant(n, x) => tagged(n, image(x)),
        SVal::Seq(v) | SVal::Tuple(v) | SVal::TupleStruct(v) | SVal::CollectSeq(v) | SVal::SeqHint(_, v) | SVal::TupleHint(_, v) => seq(v),
        SVal::TupleVariantHint(_, v) => tagged("TV", seq(v)),
        SVal::CollectStr(s) => Img::Ok(RV::Str(s.clone())),
        // a Value is a readable structure like JSON: the text form is the faithful image
        SVal::Ip(a) => Img::Ok(RV::Str(a.to_string())),
        SVal::HumanReadableProbe => Img::Ok(RV::Bool(true)),
        SVal::TupleVariant(n, v) => tagged(n, seq(v)),
        SVal::Map(entries) | SVal::CollectMap(entries) => {
            // the key is serialized before the value: the first failure wins
            let mut parts = Vec::new();
            let mut keys = Vec::new();
            for (k, x) in entries {
                match key_image(k) {
                    KeyImg::Unsupported => {
                        parts.push(Img::Err);
                        break;
                    }
                    KeyImg::Exact(s) => {
                        keys.push(s);
                        parts.push(image(x));
                    }
                    KeyImg::ErrOrExact(s) => {
                        keys.push(s);
                        parts.push(match image(x) {
                            Img::Ok(r) => Img::ErrOr(r),
                            other => other,
                        });
                    }
                }
            }
            combine(parts, |vals| RV::Map(keys.into_iter().zip(vals).collect()))
        }
        SVal::MapRecover(entries) => {
            // entries that fail are left out; a key that is refused-or-text makes the entry optional,
            // which this model does not enumerate: such maps are left open
            let mut out = BTreeMap::new();
            for (k, x) in entries {
                match (key_image(k), image(x)) {
                    (KeyImg::Exact(s), Img::Ok(r)) => {
                        out.insert(s, r);
                    }
                    (KeyImg::Unsupported, _) | (KeyImg::Exact(_), Img::Err) => {}
                    _ => return Img::Open,
                }
            }
            Img::Ok(RV::Map(out))
        }
        SVal::StructRecover(f) => {
            let mut out = BTreeMap::new();
            for (k, x) in f {
                match image(x) {
                    Img::Ok(r) => {
                        out.insert(k.to_string(), r);
                    }
                    Img::Err => {}
                    _ => return Img::Open,
                }
            }
            Img::Ok(RV::Map(out))
        }
        SVal::Struct(f) => fields(f),
        SVal::StructSkip(f) => {
            let kept: Vec<(&'static str, SVal)> = f.iter().filter(|(_, _, skip)| !skip).map(|(k, x, _)| (*k, x.clone())).collect();
            fields(&kept)
        }
        SVal::StructVariant(n, f) => tagged(n, fields(f)),
        SVal::Fail => Img::Err,
    }
}

/// is the value JSON-representable in the sense of the statement?
fn json_representable(v: &SVal) -> bool {
    match v {
        SVal::I128(x) => i64::try_from(*x).is_ok() || u64::try_from(*x).is_ok(),
        SVal::U128(x) => u64::try_from(*x).is_ok(),
        SVal::F32(x) => x.is_finite(),
        SVal::F64(x) => x.is_finite(),
        SVal::Some(x) | SVal::NewtypeStruct(x) | SVal::NewtypeVariant(_, x) => json_representable(x),
        SVal::Seq(v) | SVal::Tuple(v) | SVal::TupleStruct(v) | SVal::TupleVariant(_, v) | SVal::CollectSeq(v) => v.iter().all(json_representable),
        SVal::Map(e) | SVal::CollectMap(e) => e.iter().all(|(k, x)| matches!(k, SVal::Str(_) | SVal::Ip(_) | SVal::Bool(_) | SVal::I8(_) | SVal::I16(_) | SVal::I32(_) | SVal::I64(_) | SVal::U8(_) | SVal::U16(_) | SVal::U32(_) | SVal::U64(_) | SVal::Char(_) | SVal::UnitVariant(_)) && json_representable(x)),
        SVal::Struct(f) | SVal::StructVariant(_, f) => f.iter().all(|(_, x)| json_representable(x)),
        SVal::StructSkip(f) => f.iter().all(|(_, x, skip)| *skip || json_representable(x)),
        SVal::Fail | SVal::MapRecover(_) | SVal::StructRecover(_) | SVal::SeqHint(..) | SVal::TupleHint(..) | SVal::TupleVariantHint(..) => false,
        _ => true,
    }
}

fn json_to_rv(j: &serde_json::Value) -> RV {
    match j {
        serde_json::Value::Null => RV::None,
        serde_json::Value::Bool(b) => RV::Bool(*b),
        serde_json::Value::Number(n) => {
            if let Some(i) = n.as_i64() {
                RV::Int(i as i128)
            } else if let Some(u) = n.as_u64() {
                RV::Int(u as i128)
            } else {
                RV::float(n.as_f64().unwrap_or(f64::NAN))
            }
        }
        serde_json::Value::String(s) => RV::Str(s.clone()),
        serde_json::Value::Array(a) => RV::List(a.iter().map(json_to_rv).collect()),
        serde_json::Value::Object(o) => RV::Map(o.iter().map(|(k, v)| (k.clone(), json_to_rv(v))).collect()),
    }
}

fn kind_name(v: &SVal) -> &'static str {
    match v {
        SVal::Bool(_) => "bool",
        SVal::I8(_) => "i8",
        SVal::I16(_) => "i16",
        SVal::I32(_) => "i32",
        SVal::I64(_) => "i64",
        SVal::I128(_) => "i128",
        SVal::U8(_) => "u8",
        SVal::U16(_) => "u16",
        SVal::U32(_) => "u32",
        SVal::U64(_) => "u64",
        SVal::U128(_) => "u128",
        SVal::F32(_) => "f32",
        SVal::F64(_) => "f64",
        SVal::Char(_) => "char",
        SVal::Str(_) => "str",
        SVal::Bytes(_) => "bytes",
        SVal::None => "none",
        SVal::Some(_) => "some",
        SVal::Unit => "unit",
        SVal::UnitStruct => "unit_struct",
        SVal::UnitVariant(_) => "unit_variant",
        SVal::NewtypeStruct(_) => "newtype_struct",
        SVal::NewtypeVariant(..) => "newtype_variant",
        SVal::Seq(_) => "seq",
        SVal::Tuple(_) => "tuple",
        SVal::TupleStruct(_) => "tuple_struct",
        SVal::TupleVariant(..) => "tuple_variant",
        SVal::Map(_) => "map",
        SVal::Struct(_) => "struct",
        SVal::StructVariant(..) => "struct_variant",
        SVal::CollectSeq(_) => "collect_seq",
        SVal::CollectMap(_) => "collect_map",
        SVal::CollectStr(_) => "collect_str",
        SVal::StructSkip(_) => "struct_with_skipped_fields",
        SVal::Ip(_) => "ip_addr",
        SVal::HumanReadableProbe => "human_readable_probe",
        SVal::Fail => "fail",
        SVal::SeqHint(..) => "seq_with_length_hint",
        SVal::TupleHint(..) => "tuple_with_length_hint",
        SVal::TupleVariantHint(..) => "tuple_variant_with_length_hint",
        SVal::MapRecover(_) => "map_recovering",
        SVal::StructRecover(_) => "struct_recovering",
    }
}

fn shape(v: &SVal) -> String {
    match v {
        SVal::Some(x) | SVal::NewtypeStruct(x) | SVal::NewtypeVariant(_, x) => format!("{}({})", kind_name(v), shape(x)),
        SVal::Seq(i) | SVal::Tuple(i) | SVal::TupleStruct(i) | SVal::TupleVariant(_, i) | SVal::CollectSeq(i) => {
            format!("{}[{}]", kind_name(v), i.iter().map(shape).collect::<Vec<_>>().join(","))
        }
        SVal::Map(e) | SVal::CollectMap(e) => format!("map{{{}}}", e.iter().map(|(k, x)| format!("{}:{}", shape(k), shape(x))).collect::<Vec<_>>().join(",")),
        SVal::Struct(f) | SVal::StructVariant(_, f) => format!("{}{{{}}}", kind_name(v), f.iter().map(|(_, x)| shape(x)).collect::<Vec<_>>().join(",")),
        _ => kind_name(v).to_string(),
    }
}

fn leaves() -> Vec<SVal> {
    let mut v = vec![SVal::Bool(true), SVal::Bool(false)];
    for x in [i8::MIN, -1, 0, 1, i8::MAX] {
        v.push(SVal::I8(x));
    }
    for x in [i16::MIN, -1, 0, i16::MAX] {
        v.push(SVal::I16(x));
    }
    for x in [i32::MIN, 0, i32::MAX] {
        v.push(SVal::I32(x));
    }
    for x in [i64::MIN, -1, 0, i64::MAX] {
        v.push(SVal::I64(x));
    }
    for x in [i128::MIN, i64::MIN as i128 - 1, -1, 0, u64::MAX as i128, u64::MAX as i128 + 1, i128::MAX] {
        v.push(SVal::I128(x));
    }
    for x in [0, u8::MAX] {
        v.push(SVal::U8(x));
    }
    for x in [0, u16::MAX] {
        v.push(SVal::U16(x));
    }
    for x in [0, u32::MAX] {
        v.push(SVal::U32(x));
    }
    for x in [0, i64::MAX as u64, i64::MAX as u64 + 1, u64::MAX] {
        v.push(SVal::U64(x));
    }
    for x in [0, u64::MAX as u128, u64::MAX as u128 + 1, i128::MAX as u128 - 1, i128::MAX as u128, i128::MAX as u128 + 1, 1u128 << 127, u128::MAX - 1, u128::MAX] {
        v.push(SVal::U128(x));
    }
    for x in [0.0f32, -0.0, 1.5, 0.1, f32::MAX, f32::MIN_POSITIVE, 1e-45, f32::INFINITY, f32::NEG_INFINITY, f32::NAN, 16777217.0] {
        v.push(SVal::F32(x));
    }
    for x in [0.0f64, -0.0, 1.5, 0.1, f64::MAX, 5e-324, f64::INFINITY, f64::NEG_INFINITY, f64::NAN, 1e300] {
        v.push(SVal::F64(x));
    }
    for c in ['a', 'é', '日', '😀', '\0', '"'] {
        v.push(SVal::Char(c));
    }
    for s in ["", "a", "a\"b\\c", "日本", "facts"] {
        v.push(SVal::Str(s.to_string()));
    }
    v.push(SVal::Bytes(vec![]));
    v.push(SVal::Bytes(vec![0, 255, 7]));
    v.push(SVal::None);
    v.push(SVal::Unit);
    v.push(SVal::UnitStruct);
    v.push(SVal::UnitVariant("A"));
    v.push(SVal::CollectStr("2015-07-30T03:26:13Z".into()));
    v.push(SVal::CollectStr(String::new()));
    v.push(SVal::Ip("127.0.0.1".parse().unwrap()));
    v.push(SVal::Ip("::1".parse().unwrap()));
    v.push(SVal::HumanReadableProbe);
    v.push(SVal::StructSkip(vec![("name", SVal::Str("Frank".into()), false), ("nickname", SVal::None, true), ("referrer", SVal::None, false), ("tags", SVal::Seq(vec![]), true)]));
    v.push(SVal::StructSkip(vec![("a", SVal::I8(1), true)]));
    v.push(SVal::StructSkip(vec![("a", SVal::I8(1), true), ("b", SVal::Fail, true), ("c", SVal::I8(3), false)]));
    v.push(SVal::Seq(vec![SVal::StructSkip(vec![("x", SVal::I8(1), false), ("y", SVal::I8(2), true)])]));
    v.push(SVal::Char(char::MAX));
    v.push(SVal::Char('\u{10000}'));
    v.push(SVal::Char('\u{ffff}'));
    v.push(SVal::Fail);
    v
}

/// a small pool with one representative per kind, used as children
fn child_pool() -> Vec<SVal> {
    vec![
        SVal::Bool(true),
        SVal::I8(-1),
        SVal::I16(300),
        SVal::I32(-70000),
        SVal::I64(i64::MAX),
        SVal::I128(i128::MIN),
        SVal::U8(255),
        SVal::U16(65535),
        SVal::U32(u32::MAX),
        SVal::U64(u64::MAX),
        SVal::U128(i128::MAX as u128),
        SVal::U128(u128::MAX),
        SVal::F32(0.1),
        SVal::F64(-0.0),
        SVal::F64(f64::NAN),
        SVal::Char('é'),
        SVal::Str("s".into()),
        SVal::Bytes(vec![1, 2]),
        SVal::None,
        SVal::Some(Box::new(SVal::I8(3))),
        SVal::Some(Box::new(SVal::None)),
        SVal::Unit,
        SVal::UnitStruct,
        SVal::UnitVariant("V"),
        SVal::NewtypeStruct(Box::new(SVal::Str("n".into()))),
        SVal::NewtypeVariant("NV", Box::new(SVal::I8(1))),
        SVal::Seq(vec![]),
        SVal::Seq(vec![SVal::I8(1), SVal::None]),
        SVal::Tuple(vec![SVal::I8(1), SVal::Str("t".into())]),
        SVal::TupleStruct(vec![SVal::Bool(false)]),
        SVal::TupleVariant("TV", vec![SVal::I8(1), SVal::I8(2)]),
        SVal::Map(vec![]),
        SVal::Map(vec![(SVal::Str("k".into()), SVal::I8(1)), (SVal::Str("j".into()), SVal::None)]),
        SVal::Struct(vec![("a", SVal::I8(1)), ("b", SVal::Some(Box::new(SVal::Str("x".into()))))]),
        SVal::StructVariant("SV", vec![("a", SVal::I8(1))]),
        SVal::Fail,
    ]
}

/// every container kind applied to a list of children
fn containers(children: &[SVal]) -> Vec<SVal> {
    let c = children.to_vec();
    let mut out = vec![SVal::Seq(c.clone()), SVal::Tuple(c.clone()), SVal::TupleStruct(c.clone()), SVal::TupleVariant("TV", c.clone())];
    let names = ["f0", "f1", "f2"];
    let fields: Vec<(&'static str, SVal)> = c.iter().cloned().enumerate().map(|(i, x)| (names[i % 3], x)).collect();
    out.push(SVal::Struct(fields.clone()));
    out.push(SVal::StructVariant("SV", fields));
    out.push(SVal::Map(c.iter().cloned().enumerate().map(|(i, x)| (SVal::Str(format!("k{i}")), x)).collect()));
    out.push(SVal::CollectSeq(c.clone()));
    out.push(SVal::CollectMap(c.iter().cloned().enumerate().map(|(i, x)| (SVal::Str(format!("k{i}")), x)).collect()));
    if c.len() == 1 {
        out.push(SVal::Some(Box::new(c[0].clone())));
        out.push(SVal::NewtypeStruct(Box::new(c[0].clone())));
        out.push(SVal::NewtypeVariant("NV", Box::new(c[0].clone())));
    }
    out
}

fn cases(tier: Tier) -> Vec<SVal> {
    let mut v: Vec<SVal> = Vec::new();
    let lv = leaves();
    let pool = child_pool();
    v.extend(lv.iter().cloned());
    v.extend(pool.iter().cloned());
    // every leaf under every container kind
    for l in &lv {
        v.extend(containers(std::slice::from_ref(l)));
    }
    // lengths 0..3 over the child pool (container x child pairs, triples with a failing child at every position)
    v.extend(containers(&[]));
    for a in &pool {
        v.extend(containers(std::slice::from_ref(a)));
        for b in &pool {
            v.extend(containers(&[a.clone(), b.clone()]));
        }
    }
    let small: Vec<SVal> = vec![SVal::I8(1), SVal::Str("s".into()), SVal::None, SVal::Fail, SVal::U128(u128::MAX), SVal::Seq(vec![SVal::I8(1)])];
    for a in &small {
        for b in &small {
            for c in &small {
                v.extend(containers(&[a.clone(), b.clone(), c.clone()]));
            }
        }
    }
    // maps with every kind as key, one and two entries, duplicates
    for k in pool.iter().chain(lv.iter()) {
        v.push(SVal::Map(vec![(k.clone(), SVal::I8(1))]));
        v.push(SVal::Map(vec![(SVal::Str("ok".into()), SVal::I8(1)), (k.clone(), SVal::I8(2))]));
        v.push(SVal::Map(vec![(k.clone(), SVal::Fail)]));
        v.push(SVal::CollectMap(vec![(k.clone(), SVal::I8(1))]));
        v.push(SVal::CollectMap(vec![(SVal::Str("ok".into()), SVal::I8(1)), (k.clone(), SVal::I8(2))]));
        v.push(SVal::Struct(vec![("m", SVal::Map(vec![(k.clone(), SVal::I8(1))]))]));
    }
    v.push(SVal::Map(vec![(SVal::Str("d".into()), SVal::I8(1)), (SVal::Str("d".into()), SVal::I8(2))]));
    // announced lengths that are not the number of elements written: too small, too large, and so
    // large that allocating them up front cannot succeed (only hints beyond isize::MAX bytes are
    // used for that: a smaller huge hint would abort the process instead of panicking)
    for hint in [0usize, 1, 2, 7, usize::MAX, usize::MAX / 2, 1 << 59] {
        for items in [vec![], vec![SVal::I8(1)], vec![SVal::Fail], vec![SVal::I8(1), SVal::Str("s".into())], vec![SVal::I8(1), SVal::Fail], vec![SVal::U128(u128::MAX)]] {
            v.push(SVal::SeqHint(hint, items.clone()));
            v.push(SVal::TupleHint(hint, items.clone()));
            v.push(SVal::TupleVariantHint(hint, items.clone()));
            v.push(SVal::Struct(vec![("f", SVal::SeqHint(hint, items.clone()))]));
        }
    }
    // impls that go on after a failing entry: every pattern of failing values / refused keys over 1..4 entries
    for n in 1..=4usize {
        for pattern in 0..3usize.pow(n as u32) {
            let mut entries: Vec<(SVal, SVal)> = Vec::new();
            let mut fields: Vec<(&'static str, SVal)> = Vec::new();
            let mut p = pattern;
            for i in 0..n {
                let name = ["a", "b", "c", "d"][i];
                match p % 3 {
                    0 => {
                        entries.push((SVal::Str(name.into()), SVal::I8(i as i8)));
                        fields.push((name, SVal::I8(i as i8)));
                    }
                    1 => {
                        entries.push((SVal::Str(name.into()), SVal::Fail));
                        fields.push((name, SVal::Fail));
                    }
                    _ => {
                        entries.push((SVal::Seq(vec![]), SVal::I8(i as i8)));
                        fields.push((name, SVal::U128(u128::MAX)));
                    }
                }
                p /= 3;
            }
            v.push(SVal::MapRecover(entries.clone()));
            v.push(SVal::StructRecover(fields.clone()));
            v.push(SVal::Seq(vec![SVal::MapRecover(entries), SVal::StructRecover(fields)]));
        }
    }
    // names: serde hands variant and field names over as arbitrary strings (`#[serde(rename = ..)]`,
    // hand-written impls); every one is an ordinary name — the empty string, raw-identifier and
    // sigil prefixes, digits, the words serde's own attribute syntax uses, keyword-like words
    {
        let mut names: Vec<String> = [
            "", " ", "r#type", "r#", "#", "r", "type", "0", "1", "-1", "a.b", "$value", "$key", "$text", "#text", "@attr", "é", "null", "None", "Some", "Ok", "Err", "_", "__private", "flatten", "tag", "content", "value", "variant",
            "fields", "untagged", "true", "false", "facts", "a b", "a\nb", "\"q\"", "V ", " V", "v", "V", "NV", "TV", "SV", "self", "Self", "$serde_json::private::Number", "$serde_json::private::RawValue", "$__toml_private_datetime",
        ]
        .iter()
        .map(|s| s.to_string())
        .collect();
        names.extend(super::c15::PLAUSIBLE_WORDS.iter().map(|w| w.to_string()));
        names.push("n".repeat(300));
        names.sort();
        names.dedup();
        for n in names {
            let n: &'static str = Box::leak(n.into_boxed_str());
            v.push(SVal::UnitVariant(n));
            v.push(SVal::NewtypeVariant(n, Box::new(SVal::I8(1))));
            v.push(SVal::NewtypeVariant(n, Box::new(SVal::Seq(vec![SVal::I8(1), SVal::I8(2)]))));
            v.push(SVal::TupleVariant(n, vec![SVal::I8(1), SVal::I8(2)]));
            v.push(SVal::StructVariant(n, vec![("a", SVal::I8(1))]));
            v.push(SVal::StructVariant("SV", vec![(n, SVal::I8(1)), ("type", SVal::I8(2))]));
            v.push(SVal::Struct(vec![(n, SVal::I8(1))]));
            v.push(SVal::Struct(vec![(n, SVal::I8(1)), ("type", SVal::I8(2)), ("v", SVal::I8(3))]));
            v.push(SVal::Struct(vec![("type", SVal::I8(2)), (n, SVal::I8(1))]));
            v.push(SVal::Map(vec![(SVal::Str(n.to_string()), SVal::I8(1)), (SVal::Str("type".into()), SVal::I8(2))]));
            v.push(SVal::Seq(vec![SVal::UnitVariant(n), SVal::NewtypeVariant(n, Box::new(SVal::None))]));
        }
    }
    // depth 2 / 3: containers of containers
    let depth2: Vec<SVal> = pool.iter().flat_map(|a| containers(std::slice::from_ref(a))).collect();
    for d in &depth2 {
        v.extend(containers(std::slice::from_ref(d)));
    }
    // moderate size: long sequences, maps with many keys, deep nesting, every position failing
    for n in [5usize, 12, 40] {
        let items: Vec<SVal> = (0..n).map(|i| if i % 3 == 0 { SVal::I64(i as i64 - 3) } else if i % 3 == 1 { SVal::Str(format!("s{i}")) } else { SVal::Some(Box::new(SVal::F64(i as f64 / 4.0))) }).collect();
        v.extend(containers(&items));
        let entries: Vec<(SVal, SVal)> = (0..n).map(|i| (SVal::Str(format!("k{:02}", (i * 7) % n)), SVal::U16(i as u16))).collect();
        v.push(SVal::Map(entries.clone()));
        v.push(SVal::CollectMap(entries));
        // repeated keys in scrambled order: the entry written last wins (as in serde_json)
        for m in [n, 33, 48, 100] {
            let keys = m / 2 + 1;
            let rep: Vec<(SVal, SVal)> = (0..m).map(|i| (SVal::Str(format!("k{:03}", (i * 37 + 11) % keys)), SVal::U32(i as u32))).collect();
            v.push(SVal::Map(rep.clone()));
            v.push(SVal::CollectMap(rep.clone()));
            v.push(SVal::Struct(vec![("outer", SVal::Map(rep))]));
        }
        for bad in [0, n / 2, n - 1] {
            let mut it = items.clone();
            it[bad] = SVal::Fail;
            v.extend(containers(&it));
            let mut it2 = items.clone();
            it2[bad] = SVal::U128(u128::MAX);
            v.push(SVal::CollectSeq(it2));
        }
    }
    {
        let mut deep = SVal::I8(7);
        for i in 0..12 {
            deep = match i % 6 {
                0 => SVal::Seq(vec![deep]),
                1 => SVal::Struct(vec![("f0", deep)]),
                2 => SVal::Some(Box::new(deep)),
                3 => SVal::NewtypeVariant("NV", Box::new(deep)),
                4 => SVal::Map(vec![(SVal::Str("k".into()), deep)]),
                _ => SVal::TupleVariant("TV", vec![SVal::Unit, deep]),
            };
            v.push(deep.clone());
        }
    }
    if tier == Tier::Thorough {
        let pool20: Vec<SVal> = depth2.iter().step_by(depth2.len() / 20 + 1).cloned().collect();
        for a in &pool20 {
            for b in &pool {
                for outer in containers(&[a.clone(), b.clone()]) {
                    v.extend(containers(std::slice::from_ref(&outer)));
                }
            }
        }
    }
    v
}

fn check(v: &SVal, acc: &mut Acc) {
    acc.count("executions", 1);
    let exp = image(v);
    let got = catch(|| v.serialize(ValueSerializer));
    let via_ruleset = catch(|| {
        let rs = ruleset().with_rule(Rule::new("facts", BTreeMap::new(), Expr::reff("facts"))).unwrap().build();
        block_on(rs.evaluate(v)).map(|r| r.map(|mut o| o.remove(0).value))
    });
    let shape_s = shape(v);
    let mut bad = |which: &str, desc: String, acc: &mut Acc| {
        acc.violation(Violation {
            sig: format!("{which}/{shape_s}"),
            what: format!("serialize({v:?}): {desc}"),
            case: json!({"kind": "sval", "debug": format!("{v:?}")}),
            size: format!("{v:?}").len(),
        })
    };
    let got = match got {
        Err(p) => {
            acc.outcome("panic");
            bad("panic", format!("panicked: {p}"), acc);
            return;
        }
        Ok(g) => g,
    };
    let obs: Result<RV, String> = got.map(|x| RV::from_value(&x)).map_err(|e| format!("{e:?}"));
    acc.outcome(format!("{}:{}", kind_name(v), if obs.is_ok() { "ok" } else { "err" }));
    match (&exp, &obs) {
        (Img::Open, _) => acc.count("unspecified_key_cases", 1),
        (Img::Err, Err(_)) | (Img::ErrOr(_), Err(_)) => {}
        (Img::Err, Ok(r)) => bad("must-fail", format!("succeeded with {} although the value cannot be represented faithfully", r.show()), acc),
        (Img::Ok(e), Err(m)) => bad("must-succeed", format!("failed ({m}), expected image {}", e.show()), acc),
        (Img::Ok(e), Ok(r)) | (Img::ErrOr(e), Ok(r)) => {
            if e != r {
                bad("unfaithful", format!("image {}, expected {}", r.show(), e.show()), acc);
            } else if json_representable(v) {
                match serde_json::to_value(v) {
                    Ok(j) => {
                        acc.count("compared_with_serde_json", 1);
                        let jr = json_to_rv(&j);
                        if jr != *r {
                            bad("json-mismatch", format!("image {} differs from the serde_json image {}", r.show(), jr.show()), acc);
                        }
                    }
                    Err(_) => acc.count("serde_json_declined", 1),
                }
            }
        }
    }
    // RuleSet::evaluate(&v) must agree with the direct serialization
    match via_ruleset {
        Err(p) => bad("evaluate-panic", format!("RuleSet::evaluate panicked: {p}"), acc),
        Ok(Err(m)) => acc.machinery(m),
        Ok(Ok(r)) => {
            let via: Result<RV, ()> = match r {
                Ok(Ok(val)) => Ok(RV::from_value(&val)),
                _ => Err(()),
            };
            if via.is_ok() != obs.is_ok() || (via.is_ok() && via.as_ref().ok() != obs.as_ref().ok()) {
                bad("evaluate-differs", format!("RuleSet::evaluate sees {:?}, serialize gives {:?}", via.map(|x| x.show()), obs.as_ref().map(|x| x.show())), acc);
            }
        }
    }
}

// derive-d types that reach Error::custom through serde itself
#[derive(Serialize)]
#[serde(tag = "t")]
enum Tagged {
    Scalar(u8),
    Rec { a: u8 },
}
#[derive(Serialize)]
struct Flat {
    x: u8,
    #[serde(flatten)]
    rest: u8,
}
#[derive(Serialize)]
struct FlatOk {
    x: u8,
    #[serde(flatten)]
    rest: BTreeMap<String, u8>,
}

#[derive(Serialize)]
struct Skippy {
    name: String,
    #[serde(skip_serializing_if = "Option::is_none")]
    nickname: Option<String>,
    referrer: Option<String>,
    #[serde(skip_serializing_if = "Vec::is_empty")]
    tags: Vec<String>,
}
#[derive(Serialize)]
enum SkippyEnum {
    V {
        a: u8,
        #[serde(skip_serializing_if = "Option::is_none")]
        b: Option<u8>,
    },
}

#[derive(Serialize)]
enum Schema {
    V1,
}
#[derive(Serialize)]
struct Empty {}
#[derive(Serialize)]
struct UnitTag;
#[derive(Serialize)]
struct ZeroSized {
    schema: Schema,
    none: [u8; 0],
    empty: Empty,
    marker: std::marker::PhantomData<u64>,
    unit: (),
    tag: UnitTag,
    n: u8,
}
#[derive(Serialize)]
enum ZeroSizedEnum {
    V { schema: Schema, none: [u8; 0], n: u8 },
}
struct FailingZst;
impl Serialize for FailingZst {
    fn serialize<S: Serializer>(&self, _: S) -> Result<S::Ok, S::Error> {
        Err(serde::ser::Error::custom("zero-sized and failing"))
    }
}
#[derive(Serialize)]
struct ZeroSizedFail {
    bad: FailingZst,
    n: u8,
}
/// a value whose Serialize goes through `collect_str` and whose Display fails (after writing
/// `written` characters): the failure of the value's own impl is an error, not a panic
struct FailingDisplay(usize);
impl std::fmt::Display for FailingDisplay {
    fn fmt(&self, f: &mut std::fmt::Formatter<'_>) -> std::fmt::Result {
        f.write_str(&"x".repeat(self.0))?;
        Err(std::fmt::Error)
    }
}
impl Serialize for FailingDisplay {
    fn serialize<S: Serializer>(&self, s: S) -> Result<S::Ok, S::Error> {
        s.collect_str(self)
    }
}
#[derive(Serialize)]
struct HoldsFailingDisplay {
    a: u8,
    text: FailingDisplay,
}

/// a value whose Serialize goes through `collect_str` with a Display that writes several pieces
struct Pieces(Vec<String>);
impl std::fmt::Display for Pieces {
    fn fmt(&self, f: &mut std::fmt::Formatter<'_>) -> std::fmt::Result {
        for p in &self.0 {
            f.write_str(p)?;
        }
        Ok(())
    }
}
impl Serialize for Pieces {
    fn serialize<S: Serializer>(&self, s: S) -> Result<S::Ok, S::Error> {
        s.collect_str(self)
    }
}


/// a Display-based Serialize whose Display itself serializes something (with the same serializer)
/// that again goes through `collect_str`: serialization is re-entered while a text is being collected
struct Label<T>(T, usize);
impl<T: Serialize> std::fmt::Display for Label<T> {
    fn fmt(&self, f: &mut std::fmt::Formatter<'_>) -> std::fmt::Result {
        f.write_str("label of ")?;
        match self.0.serialize(ValueSerializer) {
            Ok(v) => write!(f, "{v}"),
            Err(_) => Err(std::fmt::Error),
        }
    }
}
impl<T: Serialize> Serialize for Label<T> {
    fn serialize<S: serde::Serializer>(&self, s: S) -> Result<S::Ok, S::Error> {
        let _ = self.1;
        s.collect_str(self)
    }
}

fn derived(acc: &mut Acc) {
    fn one<T: Serialize>(name: &str, v: &T, must_fail: bool, acc: &mut Acc) {
        acc.count("executions", 1);
        let r = catch(|| v.serialize(ValueSerializer));
        let problem = match r {
            Err(p) => Some(format!("panicked: {p}")),
            Ok(Ok(x)) if must_fail => Some(format!("succeeded with {}", RV::from_value(&x).show())),
            Ok(Err(_)) if !must_fail => Some("failed".to_string()),
            Ok(Ok(x)) => match serde_json::to_value(v) {
                Ok(j) if json_to_rv(&j) != RV::from_value(&x) => Some(format!("image {} differs from the serde_json image {}", RV::from_value(&x).show(), json_to_rv(&j).show())),
                _ => None,
            },
            Ok(Err(_)) => None,
        };
        acc.outcome(format!("derived:{name}"));
        if let Some(d) = problem {
            acc.violation(Violation { sig: format!("derived/{name}"), what: format!("serialize({name}): {d}"), case: json!({"kind": "derived", "name": name}), size: 1 });
        }
    }
    one("internally-tagged-scalar-variant", &Tagged::Scalar(1), true, acc);
    one("internally-tagged-struct-variant", &Tagged::Rec { a: 1 }, false, acc);
    one("flatten-non-map", &Flat { x: 1, rest: 2 }, true, acc);
    let mut m = BTreeMap::new();
    m.insert("k".to_string(), 3u8);
    one("flatten-map", &FlatOk { x: 1, rest: m }, false, acc);
    // an integer key is refused or written as its exact text: judged by the main leg (`Img::ErrOr`);
    // here only "no panic, and if it succeeds it is the serde_json image"
    let mut ik = BTreeMap::new();
    ik.insert(5i128, 1u8);
    if !matches!(catch(|| ik.serialize(ValueSerializer)), Ok(Err(_))) {
        one("i128-keyed-map", &ik, false, acc);
    }
    // zero-sized field types that do not serialize to unit, next to ones that do
    one("zero-sized-fields", &ZeroSized { schema: Schema::V1, none: [], empty: Empty {}, marker: std::marker::PhantomData, unit: (), tag: UnitTag, n: 7 }, false, acc);
    one("zero-sized-fields-in-variant", &ZeroSizedEnum::V { schema: Schema::V1, none: [], n: 1 }, false, acc);
    one("zero-sized-failing-field", &ZeroSizedFail { bad: FailingZst, n: 1 }, true, acc);
    one("zero-sized-in-tuple", &(Schema::V1, [0u8; 0], Empty {}, ()), false, acc);
    one("failing-display", &FailingDisplay(0), true, acc);
    one("failing-display-after-output", &FailingDisplay(100), true, acc);
    one("failing-display-in-struct", &HoldsFailingDisplay { a: 1, text: FailingDisplay(3) }, true, acc);
    one("failing-display-in-list", &vec![FailingDisplay(0)], true, acc);
    {
        let mut m = BTreeMap::new();
        m.insert("k".to_string(), FailingDisplay(1));
        one("failing-display-in-map", &m, true, acc);
    }
    // Display-based impls that write their text in several pieces of every length around typical
    // buffer sizes (collect_str)
    for a in [0usize, 1, 5, 63, 64, 65, 100, 1000] {
        for b in [0usize, 1, 63, 64, 65, 70, 129, 5000] {
            for c in [0usize, 3] {
                let p = Pieces(vec!["a".repeat(a), "é".repeat(b), "z".repeat(c)]);
                acc.count("executions", 1);
                let want = format!("{}{}{}", "a".repeat(a), "é".repeat(b), "z".repeat(c));
                match catch(|| p.serialize(ValueSerializer)) {
                    Ok(Ok(Value::String(s))) if s == want => acc.outcome("display-pieces:ok"),
                    other => acc.violation(Violation {
                        sig: "display-pieces".into(),
                        what: format!("a Display-based Serialize writing pieces of {a} / {b} x 2 / {c} bytes: image {:?} is not the text written", other.map(|r| r.map(|v| RV::from_value(&v).show().chars().take(80).collect::<String>()).map_err(|e| e.to_string()))),
                        case: json!({"kind": "derived", "name": "display-pieces"}),
                        size: a + b + c,
                    }),
                }
            }
        }
    }
    // re-entrant collect_str: one, two and three levels, a chrono date inside, a failing text inside
    {
        let p = Pieces(vec!["inner".into(), " text".into()]);
        let cases: Vec<(&str, Result<String, ()>)> = vec![];
        let _ = cases;
        let check_label = |name: &str, got: Result<Result<Value, String>, String>, want: Option<String>, acc: &mut Acc| {
            acc.count("executions", 1);
            let ok = match (&got, &want) {
                (Ok(Ok(Value::String(s))), Some(w)) => s == w,
                (Ok(Err(_)), None) => true,
                _ => false,
            };
            acc.outcome(format!("derived:{name}"));
            if !ok {
                acc.violation(Violation {
                    sig: format!("derived/{name}"),
                    what: format!("serialize({name}) — a Display-based impl whose Display serializes a value that is itself Display-based: {:?}, expected {want:?}", got.as_ref().map(|r| r.as_ref().map(|v| RV::from_value(v).show()))),
                    case: json!({"kind": "derived", "name": name}),
                    size: 1,
                });
            }
        };
        let run = |v: &dyn Fn() -> Result<Value, String>| catch(v);
        let l1 = Label(Pieces(vec!["inner".into(), " text".into()]), 1);
        check_label("reentrant-display-1", run(&|| l1.serialize(ValueSerializer).map_err(|e| e.to_string())), Some("label of \"inner text\"".into()), acc);
        let l2 = Label(Label(Pieces(vec!["x".into()]), 1), 2);
        check_label("reentrant-display-2", run(&|| l2.serialize(ValueSerializer).map_err(|e| e.to_string())), Some("label of \"label of \\\"x\\\"\"".into()), acc);
        let when = chrono::DateTime::<chrono::Utc>::from_timestamp(1_438_226_773, 0).unwrap();
        let l3 = Label(vec![when], 1);
        let want3 = format!("label of {}", vec![when].serialize(ValueSerializer).map(|v| v.to_string()).unwrap_or_default());
        check_label("reentrant-display-date-list", run(&|| l3.serialize(ValueSerializer).map_err(|e| e.to_string())), Some(want3), acc);
        let l4 = Label(FailingDisplay(2), 1);
        check_label("reentrant-display-failing", run(&|| l4.serialize(ValueSerializer).map_err(|e| e.to_string())), None, acc);
        let mut m = BTreeMap::new();
        m.insert(Label(Pieces(vec!["k".into()]), 1).to_string(), Label(p, 1));
        acc.count("executions", 1);
        match catch(|| m.serialize(ValueSerializer)) {
            Ok(Ok(Value::Map(g))) if g.len() == 1 && g.values().next() == Some(&Value::String("label of \"inner text\"".into())) => acc.outcome("derived:reentrant-display-in-map"),
            other => acc.violation(Violation {
                sig: "derived/reentrant-display-in-map".into(),
                what: format!("a map whose value is a re-entrant Display-based impl: {:?}", other.map(|r| r.map(|v| RV::from_value(&v).show()).map_err(|e| e.to_string()))),
                case: json!({"kind": "derived", "name": "reentrant-display-in-map"}),
                size: 1,
            }),
        }
    }
    one("struct-with-skipped-fields", &Skippy { name: "Frank".into(), nickname: None, referrer: None, tags: vec![] }, false, acc);
    one("struct-variant-with-skipped-field", &SkippyEnum::V { a: 1, b: None }, false, acc);
    one("ip-address", &std::net::IpAddr::from([127, 0, 0, 1]), false, acc);
    one("socket-address", &std::net::SocketAddr::from(([10, 0, 0, 1], 8080)), false, acc);
    one("tuple-of-options", &(Some(1u8), None::<u8>, Some("s")), false, acc);
}

pub fn run(tier: Tier) -> i32 {
    let mut rep = Report::new("C13", tier);
    let cs = cases(tier);
    rep.bound("values", cs.len());
    rep.bound("serde_kinds", 29);
    let acc = cs
        .par_chunks(256)
        .map(|chunk| {
            let mut acc = Acc::new();
            for v in chunk {
                check(v, &mut acc);
            }
            acc.sample("value", 1, || json!(format!("{:?}", chunk[chunk.len() / 2])));
            acc
        })
        .reduce(Acc::new, |a, b| a.merge(b));
    rep.absorb(acc);
    let mut acc = Acc::new();
    derived(&mut acc);
    // state that builds up: thousands of failing serializations (nested containers left open by
    // the failure) must not affect a later well-formed value
    {
        let bad: Vec<SVal> = vec![
            SVal::Seq(vec![SVal::Struct(vec![("a", SVal::Map(vec![(SVal::I8(1), SVal::I8(2))]))])]),
            SVal::TupleVariant("TV", vec![SVal::StructVariant("SV", vec![("a", SVal::CollectSeq(vec![SVal::Fail]))])]),
            SVal::CollectMap(vec![(SVal::Str("k".into()), SVal::Tuple(vec![SVal::U128(u128::MAX)]))]),
        ];
        let good = SVal::Struct(vec![("a", SVal::Seq(vec![SVal::Map(vec![(SVal::Str("k".into()), SVal::TupleVariant("TV", vec![SVal::I8(1)]))])]))]);
        let rounds = tier.pick(3_000, 50_000);
        for b in &bad {
            for _ in 0..rounds {
                let _ = catch(|| b.serialize(ValueSerializer).map(|_| ()));
            }
            acc.count("failing_serializations_before_a_good_one", rounds as u64);
            check(&good, &mut acc);
        }
    }
    rep.absorb(acc);
    rep.states = cs.len() as u64;
    rep.transitions = rep.acc.get("executions") * 2;
    rep.traces = rep.acc.get("executions");
    rep.rule = "product enumeration over the serde data model: a harness type whose Serialize impl calls exactly one serializer method per node makes all 29 kinds (+ a failing Serialize) first-class; every boundary leaf alone and under every container kind, every (container x child) pair and pairs/triples of children incl. a failing child at every position, maps with every kind as key, containers of containers (thorough: depth 3); each through serialize(ValueSerializer) and RuleSet::evaluate, compared with a reference image function and, on the JSON-representable subset, with serde_json::to_value".into();
    rep.assume("map keys that are string-like but not str (char, unit variant, newtype/option of str) may be accepted or refused; Serialize impls that break serde's own protocol are outside the alphabet");
    rep.finish()
}

pub fn replay(case: &serde_json::Value) -> i32 {
    let want = case.get("debug").and_then(|d| d.as_str()).unwrap_or("");
    let mut acc = Acc::new();
    if case.get("kind").and_then(|k| k.as_str()) == Some("derived") {
        derived(&mut acc);
    } else {
        match cases(Tier::Thorough).into_iter().find(|v| format!("{v:?}") == want) {
            Some(v) => {
                println!("value    : {v:?}");
                println!("reference: {:?}", image(&v));
                println!("observed : {:?}", catch(|| v.serialize(ValueSerializer)).map(|r| r.map(|x| RV::from_value(&x).show()).map_err(|e| e.to_string())));
                check(&v, &mut acc);
            }
            None => {
                println!("case not found in the enumeration");
                return 2;
            }
        }
    }
    if acc.violations.is_empty() {
        println!("verdict: holds");
        0
    } else {
        for v in acc.violations.values() {
            println!("verdict: VIOLATED — {}", v.what);
        }
        1
    }
}
