pub mod common;
pub mod pool;
pub mod valuespace;
