pub mod c05;
pub mod c09;
pub mod c11;
pub mod c15;
pub mod common;
pub mod pool;
pub mod probe;
pub mod valuespace;
