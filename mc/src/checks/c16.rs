//! C16 — printing a parsed expression gives text that parses back to the same expression.
//! E4: trees obtained *through the parser* (reference text -> Expr::parse), rendered with reval's
//! Display, parsed again, compared (bit-exact on literals).
use super::c05::kinds;
use super::common::eval_expr;
use crate::engine::panic::catch;
use crate::engine::report::{Acc, Report, Tier, Violation};
use crate::spec::eval::Obs;
use crate::spec::re::*;
use crate::spec::rv::*;
use rayon::prelude::*;
use reval::prelude::*;
use serde_json::json;

fn leaf_menu() -> Vec<RE> {
    vec![
        RE::reff("x"),
        RE::Sym("s".into()),
        RE::Val(RV::Int(-5)),
        RE::Val(RV::str("a\"b\\c")),
        RE::Val(RV::float(-1.5)),
        RE::Val(RV::None),
        RE::Val(RV::Bool(true)),
        RE::Val(RV::Dec(RDec { neg: true, mant: 150, scale: 2 })),
        // leaves whose rendering, followed by `.0`, reads like one longer literal
        RE::Val(RV::float(5.0)),
        RE::Val(RV::Dec(RDec { neg: false, mant: 5, scale: 0 })),
        RE::reff("f"),
        RE::reff("d"),
        RE::Sym("f".into()),
        RE::Sym("d".into()),
        RE::reff("i"),
        RE::reff("e"),
    ]
}

fn dec(neg: bool, mant: u128, scale: u32) -> RE {
    RE::Val(RV::Dec(RDec { neg: neg && mant != 0, mant, scale }))
}

/// literal leaves stressing the printer
fn literal_leaves() -> Vec<(String, RE)> {
    let mut v: Vec<(String, RE)> = Vec::new();
    let mut s = |label: &str, text: String| v.push((format!("str:{label}"), RE::Val(RV::Str(text))));
    for c in 0u32..0x300 {
        let ch = char::from_u32(c).unwrap();
        s(&format!("U+{c:04X}"), ch.to_string());
        if c < 0xA0 {
            s(&format!("a-U+{c:04X}-b"), format!("a{ch}b"));
        }
    }
    for (l, t) in [
        ("empty", ""), ("quotes", "\"\""), ("ends-with-quote", "say \"hi\""), ("starts-with-quote", "\"hi\" said"), ("ends-with-backslash-quote", "a\\\""), ("only-quote", "\""), ("backslashes", "\\\\"), ("quote-backslash", "\\\""), ("backslash-n", "\\n"), ("newline-tab-cr", "\n\t\r"), ("slashes", "// not a comment"),
        ("crlf", "first\r\nsecond"), ("lf-cr", "a\n\rb"), ("bom-inside", "a\u{feff}b"), ("non-bmp", "😀\u{10FFFF}"), ("non-ascii-before-quote", "é\"x"), ("non-ascii-before-backslash", "日本\\語"), ("euro-quote", "€5 for a \"large\" café crème"), ("comma-space", "Smith, John"), ("long-mixed", "The \"quick\" brown \\fox\\ jumps\nover\tthe lazy dog — ünïcödé 日本語 😀 // not a comment \\u{41} \\n \"\" end"), ("bom", "\u{feff}"), ("line-sep", "\u{2028}\u{2029}\u{85}"), ("escape-lookalike", "\\u{41}"), ("trailing-backslash", "abc\\"), ("spaces", "  a  "),
        // lines of a multi-line string that look like comment lines or metadata items of a rule text
        ("comment-line-inside", "total:\n// see notes\nend"), ("indented-comment-line-inside", "a\r\n  // b\r\nc"), ("ends-with-comment-line", "x\n//"), ("only-comment-lines", "\n// a\n// b\n"), ("cr-comment-line", "a\r// b\rc"),
        ("meta-line-inside", "a\n@k: i1;\nb"), ("blank-lines", "a\n\n\nb"), ("trailing-spaces-lines", "a  \n  b  \n"), ("tab-comment", "a\n\t//\tb\n"),
    ] {
        s(l, t.to_string());
    }
    let mut i = |x: i128| v.push((format!("int:{x}"), RE::Val(RV::Int(x))));
    for x in [0, 1, -1, i128::MAX, i128::MIN, i64::MAX as i128 + 1, -(1i128 << 96), 1i128 << 127 - 1] {
        i(x);
    }
    let mut f = |x: f64| v.push((format!("float:{x:?}"), RE::Val(RV::float(x))));
    for x in [
        0.0, -0.0, 1.0, -1.0, 0.1, 1e300, -1e300, 5e-324, f64::MAX, f64::MIN_POSITIVE, 1.7976931348623157e308, 1e21, 1e-7, 123456.789e3, 2.2250738585072011e-308, 9007199254740993.0,
        0.30000000000000004,
    ] {
        f(x);
    }
    let max: u128 = (1u128 << 96) - 1;
    for (l, d) in [
        ("0", dec(false, 0, 0)), ("0.00", dec(false, 0, 2)), ("-0.0", dec(true, 0, 1)), ("1.50", dec(false, 150, 2)), ("-1.5", dec(true, 15, 1)), ("max", dec(false, max, 0)),
        ("min", dec(true, max, 0)), ("max-scale-28", dec(false, max, 28)), ("1e-28", dec(false, 1, 28)), ("-1e-28", dec(true, 1, 28)), ("100", dec(false, 100, 0)),
    ] {
        v.push((format!("dec:{l}"), d));
    }
    v.push(("bool:true".into(), RE::Val(RV::Bool(true))));
    v.push(("bool:false".into(), RE::Val(RV::Bool(false))));
    v.push(("none".into(), RE::Val(RV::None)));
    v
}

struct Case {
    label: String,
    /// source text handed to the parser the first time
    text: String,
    /// the tree the text is meant to denote
    tree: RE,
}

fn structural_cases(tier: Tier) -> Vec<Case> {
    let ks = kinds();
    let menu = leaf_menu();
    let mut out: Vec<Case> = Vec::new();
    let mut add = |label: String, tree: RE| {
        // two routes into the parser's image: the minimal text (relies on the precedence table)
        // and the fully parenthesised one (does not)
        if let Some(text) = tree.unparse() {
            out.push(Case { label: label.clone(), text, tree: tree.clone() });
        }
        if let Some(text) = tree.unparse_full() {
            out.push(Case { label: format!("{label}/full-parens"), text, tree });
        }
    };
    // depth 1: every kind over every leaf of the menu (same leaf in all positions, and x elsewhere)
    for k in &ks {
        for (li, l) in menu.iter().enumerate() {
            add(format!("{}/leaf{li}", k.label), (k.build)((0..k.arity).map(|_| l.clone()).collect()));
            for pos in 0..k.arity {
                let ch: Vec<RE> = (0..k.arity).map(|i| if i == pos { l.clone() } else { RE::reff("y") }).collect();
                add(format!("{}[{pos}]=leaf{li}", k.label), (k.build)(ch));
            }
        }
    }
    // depth 2: every kind in every child position of every kind
    for p in &ks {
        for pos in 0..p.arity {
            for c in &ks {
                for leaf in [RE::reff("x"), RE::Val(RV::Int(-5))] {
                    let inner = (c.build)((0..c.arity).map(|_| leaf.clone()).collect());
                    let ch: Vec<RE> = (0..p.arity).map(|i| if i == pos { inner.clone() } else { RE::reff("y") }).collect();
                    add(format!("{}[{pos}]={}", p.label, c.label), (p.build)(ch));
                }
            }
        }
    }
    // both children nested (binary parents)
    for p in ks.iter().filter(|k| k.arity == 2) {
        for a in &ks {
            for b in &ks {
                let ia = (a.build)((0..a.arity).map(|_| RE::reff("x")).collect());
                let ib = (b.build)((0..b.arity).map(|_| RE::reff("z")).collect());
                add(format!("{}({},{})", p.label, a.label, b.label), (p.build)(vec![ia, ib]));
            }
        }
    }
    if tier == Tier::Thorough {
        // depth 3: every chain of three kinds in every position
        for p in &ks {
            for pos in 0..p.arity {
                for c in &ks {
                    for cpos in 0..c.arity {
                        for gk in &ks {
                            let inner = (gk.build)((0..gk.arity).map(|_| RE::reff("x")).collect());
                            let mid: Vec<RE> = (0..c.arity).map(|i| if i == cpos { inner.clone() } else { RE::reff("w") }).collect();
                            let midt = (c.build)(mid);
                            let ch: Vec<RE> = (0..p.arity).map(|i| if i == pos { midt.clone() } else { RE::reff("y") }).collect();
                            add(format!("{}[{pos}]={}[{cpos}]={}", p.label, c.label, gk.label), (p.build)(ch));
                        }
                    }
                }
            }
        }
    }
    // moderate size: long lists and maps, deep nesting of every kind
    {
        let items: Vec<RE> = (0..12).map(|i| if i % 2 == 0 { RE::reff(&format!("x{i}")) } else { RE::Val(RV::Int(i - 6)) }).collect();
        add("list-12".into(), RE::List(items.clone()));
        // long renderings (beyond any plausible line width) containing strings with separators inside
        let names: Vec<RE> = ["Smith, John", "Doe, Jane; Roe, Richard", "a, b, c, d", "x: y, z: w", "[1, 2]", "{k: v, l: w}", "tab,\ttab", "end,"].iter().map(|s| RE::Val(RV::str(s))).collect();
        add("long-list-of-strings".into(), RE::List(names.iter().cloned().cycle().take(24).collect()));
        add("long-map-of-strings".into(), RE::Map(names.iter().cloned().cycle().take(24).enumerate().map(|(i, e)| (format!("key_{i}"), e)).collect()));
        add("long-nested".into(), RE::List(vec![RE::List(names.clone()), RE::Map(names.iter().cloned().enumerate().map(|(i, e)| (format!("k{i}"), RE::List(vec![e, RE::reff("x")]))).collect())]));
        add("long-call-args".into(), RE::call("f", RE::List(names.iter().cloned().cycle().take(40).collect())));
        add("map-12".into(), RE::Map(items.iter().cloned().enumerate().map(|(i, e)| (format!("k{i}"), e)).collect()));
        for k in &ks {
            let mut t = RE::reff("x");
            for _ in 0..6 {
                t = (k.build)((0..k.arity).map(|i| if i == 0 { t.clone() } else { RE::reff("y") }).collect());
            }
            add(format!("{}-nested-6-left", k.label), t);
            if k.arity >= 2 {
                let mut t = RE::reff("x");
                for _ in 0..6 {
                    let last = k.arity - 1;
                    t = (k.build)((0..k.arity).map(|i| if i == last { t.clone() } else { RE::reff("y") }).collect());
                }
                add(format!("{}-nested-6-right", k.label), t);
            }
        }
    }
    // structural odds and ends
    for (l, t) in [
        ("empty-list", RE::List(vec![])),
        ("empty-map", RE::Map(Default::default())),
        ("list-of-lists", RE::List(vec![RE::List(vec![]), RE::List(vec![RE::reff("x")])])),
        ("index-chain", RE::idxn(RE::idxf(RE::idxn(RE::reff("x"), 0), "g"), 18446744073709551615)),
        ("field-named-like-float", RE::idxn(RE::idxf(RE::reff("x"), "f"), 0)),
        ("field-named-like-decimal", RE::idxn(RE::idxf(RE::reff("x"), "d1"), 2)),
        ("call-of-call", RE::call("g", RE::call("g", RE::reff("x")))),
        ("if-in-if", RE::iff(RE::iff(RE::reff("a"), RE::reff("b"), RE::reff("c")), RE::iff(RE::reff("a"), RE::reff("b"), RE::reff("c")), RE::iff(RE::reff("a"), RE::reff("b"), RE::reff("c")))),
        ("neg-literal", RE::un(UnOp::Neg, RE::Val(RV::Int(-5)))),
        ("sub-neg-literal", RE::bin(BinOp::Sub, RE::Val(RV::Int(1)), RE::Val(RV::Int(-1)))),
        ("none-call", RE::un(UnOp::IsNone, RE::Val(RV::None))),
    ] {
        add(l.to_string(), t);
    }
    // names that are a float / decimal literal prefix (`f`, `d`, then digits only): as a reference,
    // a symbol and a field, each followed by a numeric index, a field, and two numeric indices --
    // the rendering has to keep `f.0` from closing up into one literal, for the bare letter and for
    // digit runs beyond u64 as well
    for n in [
        "f", "d", "f0", "d0", "f5", "d12", "f007", "d18446744073709551615", "f18446744073709551616", "d340282366920938463463374607431768211456",
        "f99999999999999999999999999999999999999999", "f_", "d_1", "fe1", "f1e5", "f1_0", "df", "fd", "ff1", "e", "e1", "x1", "inf", "nan", "NaN",
    ] {
        for (bl, base) in [("ref", RE::reff(n)), ("sym", RE::Sym(n.to_string())), ("field", RE::idxf(RE::reff("x"), n)), ("field-of-sym", RE::idxf(RE::Sym("s".into()), n))] {
            for i in [0usize, 1, 25, 18446744073709551615] {
                add(format!("literal-prefix-name/{n}/{bl}/index-{i}"), RE::idxn(base.clone(), i));
            }
            add(format!("literal-prefix-name/{n}/{bl}/two-indices"), RE::idxn(RE::idxn(base.clone(), 0), 0));
            add(format!("literal-prefix-name/{n}/{bl}/field-then-index"), RE::idxn(RE::idxf(base.clone(), n), 3));
            add(format!("literal-prefix-name/{n}/{bl}/index-under-neg"), RE::un(UnOp::Neg, RE::idxn(base.clone(), 2)));
            add(format!("literal-prefix-name/{n}/{bl}/index-in-add"), RE::bin(BinOp::Add, RE::idxn(base.clone(), 2), RE::idxn(base.clone(), 4)));
        }
    }
    out
}

fn literal_cases() -> Vec<Case> {
    let ks = kinds();
    let leaves = literal_leaves();
    let parents: Vec<&super::c05::Kind> =
        ks.iter().filter(|k| ["Add", "Contains", "BitAnd", "Neg", "List2", "Map2", "Call", "IndexField", "IndexPos", "If", "Eq", "Int"].contains(&k.label.as_str())).collect();
    let mut out = Vec::new();
    for (ll, leaf) in &leaves {
        if let Some(text) = leaf.unparse() {
            out.push(Case { label: format!("literal/{ll}"), text, tree: leaf.clone() });
        }
        // a second route into the image: every character of a string spelled as \u{hex}
        if let RE::Val(RV::Str(s)) = leaf {
            let esc: String = s.chars().map(|c| format!("\\u{{{:x}}}", c as u32)).collect();
            out.push(Case { label: format!("literal/{ll}/escaped-spelling"), text: format!("\"{esc}\""), tree: leaf.clone() });
            out.push(Case { label: format!("literal/{ll}/escaped-spelling-in-list"), text: format!("[\"{esc}\", x]"), tree: RE::List(vec![leaf.clone(), RE::reff("x")]) });
        }
        for p in &parents {
            let t = (p.build)((0..p.arity).map(|_| leaf.clone()).collect());
            if let Some(text) = t.unparse() {
                out.push(Case { label: format!("literal/{ll}/under-{}", p.label), text, tree: t.clone() });
            }
            // where the literal touches the operator, also enter through the fully parenthesised
            // text (a lexer change can close the minimal route and leave this one open)
            if ["IndexField", "IndexPos", "Neg", "Contains", "BitAnd"].contains(&p.label.as_str()) {
                if let Some(text) = t.unparse_with_extra(u64::MAX) {
                    out.push(Case { label: format!("literal/{ll}/under-{}/every-node-parenthesised", p.label), text, tree: t });
                }
            }
        }
    }
    // floats across the whole exponent range (decimal and binary powers, short mantissas), where
    // the printed form switches between plain and exponent notation and grows to 300+ digits
    {
        let mut fl: Vec<f64> = Vec::new();
        for k in -324i32..=308 {
            for m in ["1", "2", "5", "9", "1.5", "9.999999999999999", "9.5", "9.3", "1.1", "2.5", "7.5"] {
                if let Ok(x) = format!("{m}e{k}").parse::<f64>() {
                    if x.is_finite() {
                        fl.push(x);
                    }
                }
            }
        }
        for k in -1074i32..=1023 {
            fl.push(2f64.powi(k));
        }
        // around the integer type limits: between a power of two and the next power of ten a
        // printer that goes through an integer type saturates or wraps
        for k in [7, 8, 15, 16, 24, 31, 32, 52, 53, 54, 62, 63, 64, 65, 96, 127, 128] {
            let p = 2f64.powi(k);
            for mult in [0.97, 1.0, 1.03, 1.25, 1.5, 1.9] {
                let x = p * mult;
                fl.extend([x, f64::from_bits(x.to_bits() + 1), f64::from_bits(x.to_bits() - 1), x.floor(), x.floor() + 1.0]);
            }
        }
        for x in [123456789012345680.0, 0.000001, 0.0000001, 1e15 + 0.5, 1e16 + 2.0, 4503599627370497.5, 0.1 + 0.2, 1.0 / 3.0, 2.0 / 3.0, 1e23, 8.41e21, 9.5e-5, 5e-5, 0.00001234] {
            fl.push(x);
        }
        let neg = ks.iter().find(|k| k.label == "Neg");
        let list2 = ks.iter().find(|k| k.label == "List2");
        for x in fl {
            for sign in [1.0, -1.0] {
                let leaf = RE::Val(RV::float(x * sign));
                if let Some(text) = leaf.unparse() {
                    out.push(Case { label: "literal/float-range".into(), text, tree: leaf.clone() });
                }
                if sign > 0.0 {
                    for p in [neg, list2].into_iter().flatten() {
                        let t = (p.build)((0..p.arity).map(|_| leaf.clone()).collect());
                        if let Some(text) = t.unparse() {
                            out.push(Case { label: format!("literal/float-range/under-{}", p.label), text, tree: t });
                        }
                    }
                }
            }
        }
    }
    // literals that only exist as text
    for (l, text, t) in [
        ("float-overflow", "f1e999", RE::Val(RV::float(f64::INFINITY))),
        ("float-overflow-neg", "f-1e999", RE::Val(RV::float(f64::NEG_INFINITY))),
        ("float-overflow-in-list", "[f1e999, x]", RE::List(vec![RE::Val(RV::float(f64::INFINITY)), RE::reff("x")])),
    ] {
        out.push(Case { label: format!("literal/{l}"), text: text.to_string(), tree: t });
    }
    out
}

fn check_case(c: &Case, acc: &mut Acc) {
    acc.count("executions", 1);
    let first = catch(|| Expr::parse(&c.text));
    let e = match first {
        Err(p) => {
            acc.count("first_parse_panicked", 1);
            acc.outcome(format!("first-parse-panic:{}", p.len().min(1)));
            return;
        }
        Ok(Err(_)) => {
            acc.count("not_in_parser_image", 1);
            acc.outcome("not-in-image:rejected");
            return;
        }
        Ok(Ok(e)) => e,
    };
    let t1 = RE::from_expr(&e);
    if t1 != c.tree {
        // the parser reads the reference text differently: that is C07/C08's business; the tree it
        // did produce is still in its image, so the round trip is checked on it
        acc.count("parsed_differently_from_reference", 1);
    }
    let rendered = match catch(|| e.to_string()) {
        Ok(s) => s,
        Err(p) => {
            acc.violation(Violation {
                sig: format!("display-panic/{}", c.label),
                what: format!("Display of the tree parsed from {:?} panicked: {p}", c.text),
                case: json!({"kind": "roundtrip", "text": c.text}),
                size: c.text.len(),
            });
            return;
        }
    };
    // the alternate flag must not produce a different language either
    if let Ok(alt) = catch(|| format!("{e:#}")) {
        if alt != rendered {
            let same = matches!(catch(|| Expr::parse(&alt)), Ok(Ok(e3)) if RE::from_expr(&e3) == t1);
            if !same {
                acc.violation(Violation {
                    sig: format!("alternate-rendering/{}", c.label),
                    what: format!("{:?} parses; its `{{:#}}` rendering {alt:?} does not parse back to the same expression", c.text),
                    case: json!({"kind": "roundtrip", "text": c.text}),
                    size: c.text.len(),
                });
            }
        }
    }
    let second = catch(|| Expr::parse(&rendered));
    let problem = match second {
        Err(p) => Some(("reparse-panic", format!("parsing the rendering {rendered:?} panicked: {p}"))),
        Ok(Err(err)) => Some(("not-valid-syntax", format!("rendering {rendered:?} does not parse: {}", err.to_string().lines().next().unwrap_or("")))),
        Ok(Ok(e2)) => {
            let t2 = RE::from_expr(&e2);
            // the rendering is rule syntax: it must read back the same through the rule-text front end
            let as_rule = catch(|| Rule::parse(&format!("// n\n{rendered}")));
            let rule_problem = match as_rule {
                Err(p) => Some(format!("Rule::parse of the rendering panicked: {p}")),
                Ok(Err(e)) => Some(format!("rendering {rendered:?} is not accepted as a rule body: {}", e.to_string().lines().next().unwrap_or(""))),
                Ok(Ok(r)) => {
                    let t3 = RE::from_expr(r.expr());
                    if t3 != t1 {
                        Some(format!("as a rule body the rendering {rendered:?} parses to {:?}, the original is {:?}", super::syntax::show_tree(&t3), super::syntax::show_tree(&t1)))
                    } else {
                        None
                    }
                }
            };
            if t2 != t1 {
                Some(("different-tree", format!("rendering {rendered:?} parses to {:?}, the original is {:?}", super::syntax::show_tree(&t2), super::syntax::show_tree(&t1))))
            } else if let Some(rp) = rule_problem {
                Some(("rule-text", rp))
            } else {
                // consequence: both evaluate identically (cheap sanity check on one input)
                let facts = Value::Map([("x".to_string(), Value::Int(3)), ("y".to_string(), Value::Bool(true))].into_iter().collect());
                let (o1, o2): (Obs, Obs) = (eval_expr(&e, &facts), eval_expr(&e2, &facts));
                if o1 != o2 {
                    Some(("evaluates-differently", format!("{:?} vs {:?}", o1.show(), o2.show())))
                } else {
                    None
                }
            }
        }
    };
    acc.outcome(match &problem {
        None => "roundtrip-ok".to_string(),
        Some((w, _)) => format!("roundtrip-{w}"),
    });
    if let Some((which, desc)) = problem {
        let is_inf = |t: &RE| format!("{t:?}").contains("Float(9218868437227405312)") || format!("{t:?}").contains("Float(18442240474082181120)");
        let sig = if is_inf(&t1) { format!("infinite-float/{}", c.text.replace(' ', "")) } else { format!("{which}/{}", c.label) };
        acc.violation(Violation {
            sig,
            what: format!("{:?} parses, prints as {rendered:?}: {desc}", c.text),
            case: json!({"kind": "roundtrip", "text": c.text}),
            size: c.text.len(),
        });
    }
}

pub fn run(tier: Tier) -> i32 {
    let mut rep = Report::new("C16", tier);
    let mut cases = structural_cases(tier);
    let n_struct = cases.len();
    cases.extend(literal_cases());
    rep.bound("structural_trees", n_struct);
    rep.bound("literal_trees", cases.len() - n_struct);
    rep.bound("depth", tier.pick("2: every kind in every child position of every kind, both children nested", "3: every chain of three kinds in every position"));
    let acc = cases
        .par_chunks(64)
        .map(|chunk| {
            let mut acc = Acc::new();
            for c in chunk {
                check_case(c, &mut acc);
            }
            acc.sample("tree", 1, || json!({"label": chunk[0].label, "text": chunk[0].text}));
            acc
        })
        .reduce(Acc::new, |a, b| a.merge(b));
    rep.absorb(acc);
    rep.states = cases.len() as u64;
    rep.transitions = rep.acc.get("executions") * 3;
    rep.traces = rep.acc.get("executions");
    rep.rule = "E4: every tree of the stated depth over all 47 node kinds (built as reference trees, turned into text by the reference unparser and obtained through the real parser so that it is in the parser's image), plus ~1100 literal leaves (every character U+0000..U+02FF as a string, quotes/backslashes/non-BMP, integer limits, floats needing 300+ digits, -0.0, max-scale decimals) under 11 parent kinds; each: parse -> Display -> parse, trees compared bit-exactly".into();
    rep.assume("texts the parser rejects or reads differently from the reference are counted (not_in_parser_image / parsed_differently_from_reference) and left to C07/C08");
    rep.finish()
}

pub fn replay(case: &serde_json::Value) -> i32 {
    let text = case.get("text").and_then(|t| t.as_str()).unwrap_or("").to_string();
    let c = Case { label: "replay".into(), text: text.clone(), tree: RE::Val(RV::None) };
    let mut acc = Acc::new();
    check_case(&c, &mut acc);
    println!("text: {text:?}");
    if let Ok(Ok(e)) = catch(|| Expr::parse(&text)) {
        println!("rendering: {:?}", e.to_string());
    }
    if acc.violations.is_empty() {
        println!("verdict: round trip holds");
        0
    } else {
        for v in acc.violations.values() {
            println!("verdict: VIOLATED — {}", v.what);
        }
        1
    }
}
