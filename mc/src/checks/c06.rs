//! C06 — parsing any text returns a tree or a parse error, never a panic; out-of-range literals,
//! indexes and bad escapes are parse errors.
use super::syntax::*;
use crate::engine::report::{Acc, Report, Tier};
use crate::spec::grammar::*;
use rayon::prelude::*;
use serde_json::json;

pub const C06_KINDS: [DisKind; 2] = [DisKind::Panic, DisKind::AcceptsBadLiteral];

/// the full token alphabet: every operator, punctuation and keyword token, an identifier, and for
/// each literal class an in-range and an out-of-range representative
pub fn full_alphabet() -> Vec<String> {
    let mut v: Vec<String> = Vec::new();
    for (s, _) in crate::spec::lex::PUNCT {
        v.push(s.to_string());
    }
    for (s, _) in crate::spec::lex::KEYWORDS {
        v.push(s.to_string());
    }
    v.push("x".into());
    v.push("i1".into());
    v.push("i170141183460469231731687303715884105728".into());
    v.push("0x1".into());
    v.push("0x80000000000000000000000000000000".into());
    v.push("0o7".into());
    v.push("0o8".into());
    v.push("0b1".into());
    v.push(format!("0b1{}", "0".repeat(127)));
    v.push("f1".into());
    v.push("f1e999".into());
    v.push("d1".into());
    v.push("d79228162514264337593543950336".into());
    v.push("\"a\"".into());
    v.push("\"\\q\"".into());
    v.push("\"\\u{110000}\"".into());
    v.push("0".into());
    v.push("99999999999999999999".into());
    v
}

pub const CHARS: [char; 35] = [
    'i', 'f', 'd', '0', '1', '9', 'x', 'b', 'o', 'e', '.', '-', '+', '"', '\\', 'u', '{', '}', '/', '_', 'a', 'é', '\0', '\n', '\r', ' ', '(', ')', ':', '@', ';', '=', '!', '<', '>',
];

fn both(g: &Grammar, text: &str, acc: &mut Acc) {
    record(acc, "C06", text, "Expr::parse", compare_expr(g, text), &C06_KINDS);
    let rt = format!("// n\n{text}");
    record(acc, "C06", &rt, "Rule::parse", compare_rule_expr(g, &rt), &C06_KINDS);
}

fn token_leg(g: &Grammar, max_len: usize) -> (Acc, u64) {
    let alpha = full_alphabet();
    let n = alpha.len();
    let mut acc0 = Acc::new();
    both(g, "", &mut acc0);
    // partition by first token
    let (acc, count) = (0..n)
        .into_par_iter()
        .map(|a| {
            let mut acc = Acc::new();
            let mut count = 0u64;
            let mut idx = vec![a];
            // odometer over the remaining positions, all lengths 1..=max_len
            loop {
                let text: String = idx.iter().map(|&i| alpha[i].as_str()).collect::<Vec<_>>().join(" ");
                both(g, &text, &mut acc);
                count += 1;
                if count == 1 {
                    acc.sample("token-sequence", 1, || json!(text));
                }
                // next sequence in DFS order below root a
                if idx.len() < max_len {
                    idx.push(0);
                    continue;
                }
                loop {
                    if idx.len() == 1 {
                        return (acc, count);
                    }
                    let last = idx.len() - 1;
                    if idx[last] + 1 < n {
                        idx[last] += 1;
                        break;
                    }
                    idx.pop();
                }
            }
        })
        .reduce(|| (Acc::new(), 0), |(a, c1), (b, c2)| (a.merge(b), c1 + c2));
    (acc0.merge(acc), count + 1)
}

pub fn string_leg(g: &Grammar, max_len: usize, rule_too: bool, prop: &'static str, kinds: &'static [DisKind]) -> (Acc, u64) {
    let n = CHARS.len();
    (0..n)
        .into_par_iter()
        .map(|a| {
            let mut acc = Acc::new();
            let mut count = 0u64;
            let mut idx = vec![a];
            loop {
                let text: String = idx.iter().map(|&i| CHARS[i]).collect();
                record(&mut acc, prop, &text, "Expr::parse", compare_expr(g, &text), kinds);
                if rule_too {
                    let rt = format!("// n\n{text}");
                    record(&mut acc, prop, &rt, "Rule::parse", compare_rule_expr(g, &rt), kinds);
                }
                count += 1;
                if idx.len() == 3 && count % 5000 == 3 {
                    acc.sample("char-string", 2, || json!(text));
                }
                if idx.len() < max_len {
                    idx.push(0);
                    continue;
                }
                loop {
                    if idx.len() == 1 {
                        return (acc, count);
                    }
                    let last = idx.len() - 1;
                    if idx[last] + 1 < n {
                        idx[last] += 1;
                        break;
                    }
                    idx.pop();
                }
            }
        })
        .reduce(|| (Acc::new(), 0), |(a, c1), (b, c2)| (a.merge(b), c1 + c2))
}

/// digit strings around every limit
pub fn digit_strings() -> Vec<String> {
    let mut v: Vec<String> = Vec::new();
    for n in 1..=45usize {
        v.push("9".repeat(n));
        v.push(format!("1{}", "0".repeat(n - 1)));
        v.push("0".repeat(n));
        v.push(format!("{}1", "0".repeat(n)));
    }
    for s in [
        "170141183460469231731687303715884105727",
        "170141183460469231731687303715884105728",
        "170141183460469231731687303715884105729",
        "340282366920938463463374607431768211455",
        "340282366920938463463374607431768211456",
        "79228162514264337593543950335",
        "79228162514264337593543950336",
        "18446744073709551615",
        "18446744073709551616",
        "18446744073709551617",
        "9223372036854775807",
        "9223372036854775808",
        "4294967295",
        "4294967296",
    ] {
        v.push(s.to_string());
    }
    v.sort();
    v.dedup();
    v
}

fn radix_strings() -> Vec<String> {
    let mut v = Vec::new();
    // hex
    for n in [1usize, 8, 16, 31, 32, 33, 40] {
        v.push(format!("0x{}", "f".repeat(n)));
        v.push(format!("0x{}", "F".repeat(n)));
        v.push(format!("0x1{}", "0".repeat(n - 1)));
    }
    v.push(format!("0x7{}", "f".repeat(31)));
    v.push(format!("0x8{}", "0".repeat(31)));
    // oct
    for n in [1usize, 21, 42, 43, 44, 50] {
        v.push(format!("0o{}", "7".repeat(n)));
        v.push(format!("0o1{}", "0".repeat(n - 1)));
    }
    v.push(format!("0o1{}", "7".repeat(42)));
    v.push(format!("0o2{}", "0".repeat(42)));
    v.push("0o8".into());
    v.push("0o18".into());
    v.push("0o781".into());
    // bin
    for n in [1usize, 64, 126, 127, 128, 129, 200] {
        v.push(format!("0b{}", "1".repeat(n)));
        v.push(format!("0b1{}", "0".repeat(n - 1)));
    }
    v
}

fn boundary_leg(g: &Grammar, all_scalars: bool) -> Acc {
    let ds = digit_strings();
    let mut lits: Vec<String> = Vec::new();
    for d in &ds {
        for p in ["i", "i-", "i+", "f", "f-", "f.", "d", "d-", "d+", "d.", "d0.", "f1e", "f1e-", "f1e+", "f0."] {
            lits.push(format!("{p}{d}"));
        }
    }
    lits.extend(radix_strings());
    let mut texts: Vec<String> = Vec::new();
    for l in &lits {
        texts.push(l.clone());
        texts.push(format!("[{l}]"));
        texts.push(format!("[i1, {l}, x]"));
        texts.push(format!("{{a: {l}}}"));
        texts.push(format!("f({l})"));
        texts.push(format!("{l} + {l}"));
        texts.push(format!("-{l}"));
        texts.push(format!("x.a == {l}"));
        texts.push(format!("{l}.0"));
        texts.push(format!("@k: {l};\nx"));
        texts.push(format!("@k: [{l}];\n@j: {{a: {l}}};\nx"));
    }
    // built-ins applied to a literal inside metadata (a front end that folds constant metadata must
    // not panic on the out-of-range ones)
    for d in &ds {
        for f in ["int", "float", "dec", "datetime", "date_time", "duration", "week", "day", "hour", "minute", "second", "year", "month", "round", "floor", "fract", "uppercase", "trim", "is_some", "-", "!"] {
            for pre in ["i", "i-", "f", "d"] {
                texts.push(format!("@k: {f}({pre}{d});\nx"));
            }
            texts.push(format!("@k: [{f}(i{d})];\n@j: {{a: {f}(\"{d}\")}};\nx"));
        }
    }
    for d in &ds {
        texts.push(format!("x.{d}"));
        texts.push(format!("x.{d}.{d}"));
        texts.push(format!("[x].{d}"));
        texts.push(format!("x.a.{d}.b"));
        texts.push(format!("(x).{d} + i1"));
        texts.push(format!("@k: x.{d};\nx"));
    }
    // escapes: every \c for c in ASCII and representatives of the planes; \u{h} around the limits
    let mut esc: Vec<String> = Vec::new();
    for c in 0u32..128 {
        esc.push(format!("\\{}", char::from_u32(c).unwrap()));
    }
    for c in ['é', 'ß', '日', '\u{7ff}', '\u{800}', '\u{ffff}', '😀', '\u{10ffff}', '\u{85}', '\u{2028}'] {
        esc.push(format!("\\{c}"));
    }
    for h in [
        "0", "00", "41", "0041", "00000041", "000000000041", "7f", "80", "7ff", "800", "d7ff", "D7FF", "d800", "D800", "dfff", "e000", "ffff", "10000", "10ffff", "10FFFF",
        "110000", "ffffffff", "100000000", "fffffffff", "", " ", "g", "4g", "-41", "+41", "é", "4 1", "0x41",
    ] {
        esc.push(format!("\\u{{{h}}}"));
        esc.push(format!("\\u{{{h}"));
        esc.push(format!("\\u{h}}}"));
    }
    esc.push("\\u".into());
    esc.push("\\u{".into());
    esc.push("\\".into());
    // atoms for sequences: raw characters of every UTF-8 length mixed with escapes
    let atoms: Vec<String> = ["a", "é", "日", "😀", "\\n", "\\\"", "\\\\", "\\u{41}", "\\u{e9}", "\\u{1F600}", "\\u{110000}", "\\q", "\n", "\t", "'", "//"]
        .iter()
        .map(|s| s.to_string())
        .collect();
    let mut strings: Vec<String> = Vec::new();
    for e in &esc {
        // moderate length: the escape sits behind / in front of a run of multi-byte characters
        strings.push(format!("\"{}{e}\"", "é".repeat(20)));
        strings.push(format!("\"{}{e}{}\"", "a".repeat(17), "日".repeat(20)));
        strings.push(format!("\"{}{e}{}\"", "😀".repeat(9), "é".repeat(33)));
        strings.push(format!("\"{e}\""));
        strings.push(format!("\"a{e}b\""));
        strings.push(format!("\"é{e}日\""));
    }
    for a in &atoms {
        for b in &atoms {
            strings.push(format!("\"{a}{b}\""));
            for c in &atoms {
                strings.push(format!("\"{a}{b}{c}\""));
            }
        }
    }
    for s in &strings {
        // misplaced literal (an operator is missing): the error path quotes the token
        texts.push(format!("x {s}"));
        texts.push(format!("{s} {s}"));
        texts.push(s.clone());
        texts.push(format!("[{s}, {s}]"));
        texts.push(format!("@k: {s};\nx"));
        texts.push(format!("x == {s} and y"));
    }
    // very long non-ASCII literals (9 KiB of 2-, 3- and 4-byte characters behind 0..3 ASCII bytes, so
    // that a cut at any byte offset up to 8192 falls inside a character for one of the alignments)
    // in valid and misplaced positions, with and without a bad escape
    for wide in ['é', '€', '😀'] {
        let w = wide.len_utf8();
        for pre in 0..w {
            let body = format!("{}{}", "a".repeat(pre), wide.to_string().repeat(9000 / w));
            for lit in [format!("\"{body}\""), format!("\"{body}\\q\""), format!("\"\\q{body}\""), format!("\"{body}\\u{{110000}}{body}\"")] {
                texts.push(lit.clone());
                texts.push(format!("x {lit}"));
                texts.push(format!("[i1 {lit}]"));
                texts.push(format!("{lit} {lit}"));
                texts.push(format!("@k: {lit} x;\nx"));
                texts.push(format!("{{a: i1 b: {lit}}}"));
            }
            texts.push(format!("x{body} y{body}"));
            texts.push(format!("// {body}\nx y"));
        }
    }
    for t in ["\"", "\"abc", "\"abc\\", "\"abc\\\"", "\"\\u{41\"", "\"\n", "i", "f", "d", "0x", "0o", "0b", "@", "@k", "@k:", "@k: i1", "//", "// c", "/", "/ /", "\u{feff}x", "x\u{0}", "\u{85}x\u{2028}"] {
        texts.push(t.to_string());
    }
    // rule texts with several non-ASCII comment lines of different byte lengths in front of a
    // syntax error, LF and CRLF (error positions are computed from byte offsets and lines)
    let comment_lines = ["// contrôle de majorité", "// vérifie l'âge déclaré", "// auteur: René", "// 日本語のコメント", "// ascii only", "//é", "// 😀😀"];
    let bad_lines = ["age => i18", "x y", "i1 +", ") x", "@k: ;", "x == \"é\" \"日本\"", "f(x", "\"unterminated é"];
    for mask in 1u32..(1 << comment_lines.len()) {
        let chosen: Vec<&str> = comment_lines.iter().enumerate().filter(|(i, _)| mask >> i & 1 == 1).map(|(_, l)| *l).collect();
        if chosen.len() > 5 {
            continue;
        }
        for bad in bad_lines {
            for eol in ["\n", "\r\n"] {
                texts.push(format!("{}{eol}{bad}{eol}", chosen.join(eol)));
            }
        }
    }
    // character classes: every scalar below U+3000 and every numeric or white-space character
    // of the whole code space (thorough: every scalar), in each position where the lexer decides by
    // character class (digits of every literal kind and of index steps, identifier characters,
    // separators, string contents, escapes, comments, metadata keys)
    {
        let mut cs: Vec<char> = Vec::new();
        for u in 0x80u32..=0x10ffff {
            if let Some(c) = char::from_u32(u) {
                if all_scalars || u < 0x3000 || c.is_numeric() || c.is_whitespace() {
                    cs.push(c);
                }
            }
        }
        for c in cs {
            for t in [
                format!("x.{c}"), format!("x.1{c}"), format!("x.{c}1.y"), format!("[i1].{c}"), format!("i{c}"), format!("i1{c}"), format!("i-{c}"), format!("f1.{c}"), format!("f{c}.5"), format!("f1e{c}"),
                format!("d{c}"), format!("d1.{c}"), format!("0x{c}"), format!("0b1{c}"), format!("x{c}"), format!("{c}"), format!("{c}x"), format!("x{c}y"), format!("x {c} y"), format!("\"{c}\""),
                format!("\"\\{c}\""), format!("\"\\u{{{c}}}\""), format!("// {c}\nx"), format!("@k{c}: i1;\nx"), format!("@{c}: i1;\nx"), format!("// n{c}\n@k: \"{c}\";\nx.{c}"),
            ] {
                texts.push(t);
            }
        }
    }
    texts.sort();
    texts.dedup();
    texts
        .par_chunks(256)
        .map(|chunk| {
            let mut acc = Acc::new();
            for t in chunk {
                both(g, t, &mut acc);
                acc.count("boundary_texts", 1);
            }
            acc.sample("boundary", 1, || json!(chunk[chunk.len() / 2]));
            acc
        })
        .reduce(Acc::new, |a, b| a.merge(b))
}

pub fn run(tier: Tier) -> i32 {
    let mut rep = Report::new("C06", tier);
    let g = Grammar::new();
    let tok_len = tier.pick(3, 4);
    let str_len = tier.pick(3, 4);
    rep.bound("token_alphabet", full_alphabet().len());
    rep.bound("token_sequence_length", tok_len);
    rep.bound("char_alphabet", CHARS.len());
    rep.bound("char_string_length", str_len);
    let (a1, n1) = token_leg(&g, tok_len);
    rep.absorb(a1);
    let (a2, n2) = string_leg(&g, str_len, true, "C06", &C06_KINDS);
    rep.absorb(a2);
    rep.absorb(boundary_leg(&g, tier == Tier::Thorough));
    rep.bound("character_class_sweep", tier.pick("every scalar below U+3000 plus every numeric / white-space scalar, 26 contexts", "every Unicode scalar, 26 contexts"));
    {
        let mut acc = Acc::new();
        let n = super::context::parse_context_leg(&mut acc);
        rep.bound("parse_contexts", format!("{n} call sites (main thread, fresh thread, thread that parsed before, thread-local destructors in three registration orders, a destructor run while unwinding, inside a polled future), one child process each"));
        rep.absorb(acc);
    }
    let nb = rep.acc.get("boundary_texts");
    rep.states = n1 + n2 + nb;
    rep.transitions = n1 + n2 + nb;
    rep.traces = rep.acc.get("executions");
    rep.rule = "E3 with a panic / bad-literal oracle: every token sequence up to the bound over the full 79-token alphabet (incl. out-of-range literal representatives), every character string up to the bound over a 35-character lexer-stress alphabet, and boundary lists (digit strings of length 1..45 around every limit in every numeric position, every escape form, sequences of raw multi-byte characters and escapes), each through Expr::parse and Rule::parse; the reference (lexer + Earley + literal denotation) says which texts must be rejected".into();
    rep.assume("accept/reject and tree agreement for in-range text is decided by C07/C08; disagreements of those kinds are counted here but not reported");
    rep.finish()
}
