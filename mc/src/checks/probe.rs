//! Harness user functions: every call is routed to a handler closure that stands for the
//! environment (logs, decides the answer, decides how often to suspend first).
use async_trait::async_trait;
use reval::prelude::*;
use std::future::Future;
use std::pin::Pin;
use std::sync::Arc;
use std::task::{Context, Poll};

/// (result, number of times the call returns Pending before completing)
pub type Handler = Arc<dyn Fn(&'static str, Value) -> (FunctionResult, u32) + Send + Sync>;

pub struct ProbeFn {
    pub name: &'static str,
    pub cacheable: bool,
    /// when present, overrides `cacheable` (the answer may change while a ruleset is evaluated)
    pub cacheable_flag: Option<Arc<std::sync::atomic::AtomicBool>>,
    /// when present, answers every `cacheable()` query (environment-scripted)
    pub cacheable_script: Option<Arc<dyn Fn() -> bool + Send + Sync>>,
    pub handler: Handler,
}

/// Suspends once: returns Pending (after waking itself), then Ready.
pub struct YieldOnce(bool);
impl Future for YieldOnce {
    type Output = ();
    fn poll(mut self: Pin<&mut Self>, cx: &mut Context<'_>) -> Poll<()> {
        if self.0 {
            Poll::Ready(())
        } else {
            self.0 = true;
            cx.waker().wake_by_ref();
            Poll::Pending
        }
    }
}

#[async_trait]
impl UserFunction for ProbeFn {
    async fn call(&self, params: Value) -> FunctionResult {
        let (r, n) = (self.handler)(self.name, params);
        for _ in 0..n {
            YieldOnce(false).await;
        }
        r
    }
    fn name(&self) -> &'static str {
        self.name
    }
    fn cacheable(&self) -> bool {
        if let Some(f) = &self.cacheable_script {
            return f();
        }
        match &self.cacheable_flag {
            Some(f) => f.load(std::sync::atomic::Ordering::SeqCst),
            None => self.cacheable,
        }
    }
}

pub fn probe(name: &'static str, cacheable: bool, handler: &Handler) -> ProbeFn {
    ProbeFn { name, cacheable, cacheable_flag: None, cacheable_script: None, handler: handler.clone() }
}

/// Zero-sized user functions (unit structs, as in the crate's own documentation): nothing in them
/// can tell two of them apart except their type and name.  `zd` doubles, `zt` triples, `zn` negates
/// (not cacheable); each counts its invocations in a static.
pub mod zst {
    use async_trait::async_trait;
    use reval::prelude::*;
    use std::sync::atomic::{AtomicUsize, Ordering};
    pub static CALLS: [AtomicUsize; 3] = [AtomicUsize::new(0), AtomicUsize::new(0), AtomicUsize::new(0)];
    pub fn reset() {
        for c in &CALLS {
            c.store(0, Ordering::SeqCst);
        }
    }
    pub fn calls() -> [usize; 3] {
        [CALLS[0].load(Ordering::SeqCst), CALLS[1].load(Ordering::SeqCst), CALLS[2].load(Ordering::SeqCst)]
    }
    fn arith(p: Value, f: impl Fn(i128) -> i128) -> FunctionResult {
        match p {
            Value::Int(i) => Ok(Value::Int(f(i))),
            other => Ok(Value::Vec(vec![other])),
        }
    }
    pub struct ZDouble;
    pub struct ZTriple;
    pub struct ZNegate;
    #[async_trait]
    impl UserFunction for ZDouble {
        async fn call(&self, p: Value) -> FunctionResult {
            CALLS[0].fetch_add(1, Ordering::SeqCst);
            arith(p, |i| i * 2)
        }
        fn name(&self) -> &'static str {
            "zd"
        }
    }
    #[async_trait]
    impl UserFunction for ZTriple {
        async fn call(&self, p: Value) -> FunctionResult {
            CALLS[1].fetch_add(1, Ordering::SeqCst);
            arith(p, |i| i * 3)
        }
        fn name(&self) -> &'static str {
            "zt"
        }
    }
    #[async_trait]
    impl UserFunction for ZNegate {
        async fn call(&self, p: Value) -> FunctionResult {
            CALLS[2].fetch_add(1, Ordering::SeqCst);
            arith(p, |i| -i)
        }
        fn name(&self) -> &'static str {
            "zn"
        }
        fn cacheable(&self) -> bool {
            false
        }
    }
}
