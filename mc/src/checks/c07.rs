//! C07 — one fixed precedence/associativity table; accepted language = grammar; unique tree.
//! E3: token-class trie explored depth-first with an incremental Earley recogniser (sentences,
//! viable prefixes, viable prefix + one dead token; unpruned below L_full), operator matrices, and
//! trees under every redundant parenthesisation (E4).
use super::syntax::*;
use crate::engine::report::{Acc, Report, Tier};
use crate::spec::grammar::*;
use crate::spec::lex::{lex_all, TK};
use crate::spec::re::*;
use crate::spec::rv::RV;
use rayon::prelude::*;
use serde_json::json;

pub const CLASSES: [&str; 26] = [
    "if", "then", "else", "and", "==", "+", "-", "*", "&", "contains", "in", "!", ".", "x", "0", "(", ")", "[", "]", "{", "}", ",", ":", "i1", "int", "none",
];

pub const C07_KINDS: [DisKind; 5] = [DisKind::OverAccept, DisKind::OverReject, DisKind::Tree, DisKind::Position, DisKind::AcceptsBadLiteral];

const RULE_PREFIX: &str = "// n\n@k: i1;\n";

/// the same exploration through `Rule::parse` (start symbol Rule: metadata items then an expression)
struct RuleTrie<'a> {
    g: &'a Grammar,
    classes: Vec<&'static str>,
    kinds: Vec<TK>,
    l_full: usize,
    l_deep: usize,
    nodes: u64,
}

impl RuleTrie<'_> {
    fn visit(&mut self, seq: &mut Vec<usize>, e: &mut Earley, viable: bool, acc: &mut Acc) {
        self.nodes += 1;
        let text: String = format!("// n\n{}", seq.iter().map(|&i| self.classes[i]).collect::<Vec<_>>().join(" "));
        record(acc, "C07", &text, "Rule::parse", compare_rule_expr(self.g, &text), &C07_KINDS);
        if seq.len() >= self.l_deep || (!viable && seq.len() >= self.l_full) {
            return;
        }
        for c in 0..self.classes.len() {
            let ok = viable && e.push(self.kinds[c]);
            seq.push(c);
            self.visit(seq, e, ok, acc);
            seq.pop();
            if ok {
                e.pop();
            }
        }
    }
}

fn rule_trie_leg(g: &Grammar, l_full: usize, l_deep: usize) -> (Acc, u64) {
    let mut classes: Vec<&'static str> = CLASSES.to_vec();
    classes.push("@");
    classes.push(";");
    let kinds: Vec<TK> = classes.iter().map(|c| lex_all(c).unwrap()[0].kind).collect();
    (0..classes.len())
        .into_par_iter()
        .map(|a| {
            let mut acc = Acc::new();
            let mut e = Earley::new(g, NT::Rule);
            let va = e.push(kinds[a]);
            let mut t = RuleTrie { g, classes: classes.clone(), kinds: kinds.clone(), l_full, l_deep, nodes: 0 };
            let mut seq = vec![a];
            t.visit(&mut seq, &mut e, va, &mut acc);
            (acc, t.nodes)
        })
        .reduce(|| (Acc::new(), 0), |(a, n1), (b, n2)| (a.merge(b), n1 + n2))
}

struct Trie<'a> {
    g: &'a Grammar,
    kinds: Vec<TK>,
    l_full: usize,
    l_deep: usize,
    nodes: u64,
    edges: u64,
}

impl Trie<'_> {
    fn visit(&mut self, seq: &mut Vec<usize>, e: &mut Earley, viable: bool, acc: &mut Acc) {
        self.nodes += 1;
        let text: String = seq.iter().map(|&i| CLASSES[i]).collect::<Vec<_>>().join(" ");
        let cmp = compare_expr(self.g, &text);
        let sentence = matches!(cmp, Cmp::Agree(Class::Sentence));
        record(acc, "C07", &text, "Expr::parse", cmp, &C07_KINDS);
        if sentence {
            let rt = format!("{RULE_PREFIX}{text}");
            record(acc, "C07", &rt, "Rule::parse", compare_rule_expr(self.g, &rt), &C07_KINDS);
            acc.sample("sentence", 3, || json!(text));
        } else if viable {
            acc.sample("viable-prefix", 2, || json!(text));
        } else {
            acc.sample("dead", 2, || json!(text));
        }
        if seq.len() >= self.l_deep {
            return;
        }
        if !viable && seq.len() >= self.l_full {
            return;
        }
        for c in 0..CLASSES.len() {
            let ok = viable && e.push(self.kinds[c]);
            seq.push(c);
            self.edges += 1;
            self.visit(seq, e, ok, acc);
            seq.pop();
            if ok {
                e.pop();
            }
        }
    }
}

fn trie_leg(g: &Grammar, l_full: usize, l_deep: usize) -> (Acc, u64, u64) {
    let kinds: Vec<TK> = CLASSES.iter().map(|c| lex_all(c).unwrap()[0].kind).collect();
    // the empty sequence and all length-1 sequences sequentially, then one task per 2-token root
    let mut acc0 = Acc::new();
    record(&mut acc0, "C07", "", "Expr::parse", compare_expr(g, ""), &C07_KINDS);
    let roots: Vec<(usize, usize)> = (0..CLASSES.len()).flat_map(|a| (0..CLASSES.len()).map(move |b| (a, b))).collect();
    let mut nodes = 1u64;
    let mut edges = 0u64;
    for a in 0..CLASSES.len() {
        let t = CLASSES[a];
        record(&mut acc0, "C07", t, "Expr::parse", compare_expr(g, t), &C07_KINDS);
        nodes += 1;
        edges += 1;
    }
    let (acc, n, ed) = roots
        .par_iter()
        .map(|&(a, b)| {
            let mut acc = Acc::new();
            let mut e = Earley::new(g, NT::If);
            let va = e.push(kinds[a]);
            let vb = va && e.push(kinds[b]);
            let mut t = Trie { g, kinds: kinds.clone(), l_full, l_deep, nodes: 0, edges: 1 };
            // a length-2 node is visited if its parent is viable or within the unpruned depth
            if va || 1 < l_full {
                let mut seq = vec![a, b];
                t.visit(&mut seq, &mut e, vb, &mut acc);
            }
            (acc, t.nodes, t.edges)
        })
        .reduce(|| (Acc::new(), 0, 0), |(a, n1, e1), (b, n2, e2)| (a.merge(b), n1 + n2, e1 + e2));
    (acc0.merge(acc), nodes + n, edges + ed)
}

const BIN_TOKENS: [&str; 19] = ["=", "==", "!=", ">", "<", ">=", "<=", "+", "-", "*", "/", "%", "&", "|", "^", "and", "or", "contains", "in"];

fn matrix_leg(g: &Grammar, triples: bool) -> Acc {
    let mut texts: Vec<String> = Vec::new();
    for a in BIN_TOKENS {
        texts.push(format!("x {a} y"));
        for b in BIN_TOKENS {
            texts.push(format!("x {a} y {b} z"));
            texts.push(format!("(x {a} y) {b} z"));
            texts.push(format!("x {a} (y {b} z)"));
            if triples {
                for c in BIN_TOKENS {
                    texts.push(format!("x {a} y {b} z {c} w"));
                }
            }
        }
        for u in ["-", "!"] {
            texts.push(format!("{u} x {a} y"));
            texts.push(format!("x {a} {u} y"));
            texts.push(format!("{u} {u} x {a} y"));
            texts.push(format!("{u} (x {a} y)"));
            texts.push(format!("({u} x) {a} y"));
            texts.push(format!("{u} x.f {a} y.0"));
        }
        texts.push(format!("x.f {a} y.0.g"));
        texts.push(format!("if x {a} y then x {a} y else x {a} y"));
        texts.push(format!("x {a} if a then b else c"));
        texts.push(format!("(if a then b else c) {a} x"));
        texts.push(format!("f(x {a} y) {a} [x {a} y, z]"));
    }
    // map literals with repeated keys (the entry written last is the map's entry), every key
    // sequence of length 2..4 over {a, b}, distinct values, with and without a trailing comma, and
    // list literals with and without one
    for n in 2..=4usize {
        for code in 0..(1u32 << n) {
            let items: Vec<String> = (0..n).map(|i| format!("{}: i{}", if code >> i & 1 == 0 { "a" } else { "b" }, i + 1)).collect();
            texts.push(format!("{{{}}}", items.join(", ")));
            texts.push(format!("{{{},}}", items.join(", ")));
            texts.push(format!("{{{}}}.a", items.join(", ")));
            texts.push(format!("[{{{},}}, {{{}}}]", items.join(", "), items.join(", ")));
            let vals: Vec<String> = (0..n).map(|i| format!("i{}", i + 1)).collect();
            texts.push(format!("[{}]", vals.join(", ")));
            texts.push(format!("[{},]", vals.join(", ")));
        }
    }
    for t in ["{a: x, a: y, a: z,}", "{a: {a: i1, a: i2,}, a: {a: i3, a: i4}, b: i5}", "{,}", "[,]", "{a: i1,,}", "[i1,,]", "{a: i1 a: i2}"] {
        texts.push(t.to_string());
    }
    // index steps beyond the platform's index range denote nothing, wherever they stand
    for d in ["18446744073709551615", "18446744073709551616", "18446744073709551617", "36893488147419103232", "170141183460469231731687303715884105727", "170141183460469231731687303715884105728", "340282366920938463463374607431768211456", "99999999999999999999", "100000000000000000000000000000000000000000"] {
        for t in [format!("x.{d}"), format!("x.a.{d}.b"), format!("[x].{d}"), format!("(x).{d} + i1"), format!("x.0.{d}"), format!("f(x.{d})"), format!("{{k: x.{d}}}"), format!("if x.{d} then a else b")] {
            texts.push(t);
        }
    }
    for u in ["-", "!"] {
        for v in ["-", "!"] {
            texts.push(format!("{u}{v}x"));
            texts.push(format!("{u} {v} {u} x"));
            texts.push(format!("{u}({v}x)"));
            texts.push(format!("{u}x.a"));
            texts.push(format!("({u}x).a"));
        }
    }
    // every built-in keyword and alias with an argument, nested in each other
    let kws = [
        "int", "float", "dec", "date_time", "datetime", "duration", "is_some", "is_none", "some", "none", "to_upper", "to_lower", "uppercase", "lowercase", "trim",
        "round", "floor", "fract", "year", "month", "week", "day", "hour", "minute", "second", "userfn",
    ];
    for k in kws {
        texts.push(format!("{k}(x)"));
        texts.push(format!("{k} (x + y)"));
        texts.push(format!("{k}"));
        texts.push(format!("{k}()"));
        texts.push(format!("{k}(x, y)"));
        texts.push(format!("{k}(x).f"));
        texts.push(format!("x.{k}"));
        texts.push(format!("{{{k}: x}}"));
        texts.push(format!(":{k}"));
        texts.push(format!("-{k}(x) contains y"));
        for k2 in kws {
            texts.push(format!("{k}({k2}(x))"));
        }
    }
    for t in [
        "none", "none(x)", "none (none)", "none.a", "none(none).a", "true", "false", "true(x)", "x(y)(z)", "x.f(y)", ":s", ":s.f", ":s(x)", "[]", "[x]", "[x,]", "[x, y]",
        "[x, y,]", "[,]", "[x,,]", "{}", "{a: x}", "{a: x,}", "{a: x, b: y}", "{,}", "{a: x, a: y}", "{a}", "{a:}", "{1: x}", "{\"a\": x}", "()", "(x)", "((x))", "(x",
        "x)", "x y", "x.f.g.0.1", "x.0f", "x . f", "x.(f)", "if a then b", "if a then b else", "if a then b else c else d", "if if a then b else c then d else e",
        "if a then if b then c else d else e", "if a then b else if c then d else e", "a contains b contains c", "a in b in c", "a contains b in c",
        "(a contains b) contains c", "a contains (b contains c)", "a.f contains b.0", "a + b contains c", "a contains b + c", "a & b contains c", "a contains b & c",
        "a in b & c in d", "-a contains b", "(-a) contains b", "a contains -b", "!a in b", "@k: i1; x", "x;", "x, y",
    ] {
        texts.push(t.to_string());
    }
    // moderate-size structures: long lists / maps, deep nesting, long same-level chains
    for n in [3usize, 4, 5, 8, 13] {
        let items: Vec<String> = (0..n).map(|i| format!("x{i}")).collect();
        texts.push(format!("[{}]", items.join(", ")));
        texts.push(format!("[{},]", items.join(", ")));
        texts.push(format!("[{},,]", items.join(", ")));
        texts.push(format!("[{}]", items.join(" ")));
        let pairs: Vec<String> = (0..n).map(|i| format!("k{i}: x{i} + i{i}")).collect();
        texts.push(format!("{{{}}}", pairs.join(", ")));
        texts.push(format!("{{{},}}", pairs.join(", ")));
        texts.push(format!("{{{}}}", pairs.join("; ")));
        for op in BIN_TOKENS {
            texts.push(items.join(&format!(" {op} ")));
        }
        texts.push(format!("{}x{}", "f(".repeat(n), ")".repeat(n)));
        texts.push(format!("{}x{}", "[".repeat(n), "]".repeat(n)));
        texts.push(format!("{}x{}", "(".repeat(n), ")".repeat(n)));
        texts.push(format!("{}x{}", "(".repeat(n), ")".repeat(n - 1)));
        texts.push(format!("{}x{}", "{a: ".repeat(n), "}".repeat(n)));
        texts.push(format!("{}x", "- ! ".repeat(n)));
        texts.push(format!("x{}", ".a.0".repeat(n)));
        texts.push(format!("{}z", "if a then b else ".repeat(n)));
        texts.push(format!("{}a{}", "if ".repeat(n), " then b else c".repeat(n)));
        texts.push(format!("{}z", "if a then b else ".repeat(n)).replace("else z", "z"));
    }
    // reserved words that are not grammar keywords, and keyword look-alikes, in every identifier position
    for w in ["key", "val", "starts", "ends", "upper", "lower", "date", "datetimes", "is", "to", "Int", "IF", "nones", "i1_0", "f1_5", "true_", "inn", "android"] {
        texts.push(format!("{w}(x)"));
        texts.push(format!("{w}"));
        texts.push(format!("x.{w}"));
        texts.push(format!(":{w}"));
        texts.push(format!("{{{w}: {w}}}"));
        texts.push(format!("{w}({w}.{w}) + :{w}"));
        texts.push(format!("@{w}: i1; {w}"));
    }
    // many sequential groups (a counter that is not decremented would show) and real nesting
    for n in [63usize, 64, 65, 70, 130] {
        texts.push(format!("[{}]", (0..n).map(|i| format!("{{a: x{i}}}")).collect::<Vec<_>>().join(", ")));
        texts.push(format!("{{{}}}", (0..n).map(|i| format!("k{i}: {{a: i{i}}}")).collect::<Vec<_>>().join(", ")));
        texts.push((0..n).map(|i| format!("f({{a: i{i}}})")).collect::<Vec<_>>().join(" + "));
        texts.push((0..n).map(|i| format!("(x{i})")).collect::<Vec<_>>().join(" * "));
        texts.push((0..n).map(|i| format!("[x{i}].0")).collect::<Vec<_>>().join(" - "));
        texts.push(format!("{}x{}", "(".repeat(n), ")".repeat(n)));
        texts.push(format!("{}x{}", "[".repeat(n), "]".repeat(n)));
        texts.push(format!("{}x{}", "{a: ".repeat(n), "}".repeat(n)));
        texts.push(format!("{}x{}", "int(".repeat(n), ")".repeat(n)));
        texts.push(format!("\"{}\" + \"{}\"", "(".repeat(n), "{".repeat(n)));
    }
    texts.sort();
    texts.dedup();
    texts
        .par_chunks(64)
        .map(|chunk| {
            let mut acc = Acc::new();
            for t in chunk {
                record(&mut acc, "C07", t, "Expr::parse", compare_expr(g, t), &C07_KINDS);
                let rt = format!("{RULE_PREFIX}{t}");
                record(&mut acc, "C07", &rt, "Rule::parse", compare_rule_expr(g, &rt), &C07_KINDS);
                acc.count("matrix_texts", 1);
            }
            acc.sample("matrix", 1, || json!(chunk[0]));
            acc
        })
        .reduce(Acc::new, |a, b| a.merge(b))
}

/// E4: trees over one kind per level plus if/index/call/list/map, to the given depth
fn trees(depth: usize) -> Vec<RE> {
    let leaf = |n: &str| RE::Ref(n.to_string());
    let mut levels: Vec<Vec<RE>> = vec![vec![leaf("x")]];
    for _ in 1..depth {
        let prev: Vec<RE> = levels.iter().flatten().cloned().collect();
        let deepest: &Vec<RE> = levels.last().unwrap();
        let mut next = Vec::new();
        let is_deep = |t: &RE| deepest.contains(t);
        // at least one child must come from the deepest level so far (each tree generated once)
        for op in [BinOp::And, BinOp::Eq, BinOp::Add, BinOp::Mult, BinOp::BitAnd, BinOp::Contains] {
            for a in &prev {
                for b in &prev {
                    if is_deep(a) || is_deep(b) {
                        next.push(RE::bin(op, a.clone(), b.clone()));
                    }
                }
            }
        }
        for a in deepest {
            next.push(RE::un(UnOp::Neg, a.clone()));
            next.push(RE::un(UnOp::Not, a.clone()));
            next.push(RE::un(UnOp::Int, a.clone()));
            next.push(RE::call("f", a.clone()));
            next.push(RE::idxf(a.clone(), "f"));
            next.push(RE::idxn(a.clone(), 0));
            next.push(RE::List(vec![a.clone(), leaf("y")]));
            next.push(RE::Map([("k".to_string(), a.clone())].into_iter().collect()));
            next.push(RE::iff(a.clone(), leaf("y"), leaf("z")));
            next.push(RE::iff(leaf("y"), a.clone(), leaf("z")));
            next.push(RE::iff(leaf("y"), leaf("z"), a.clone()));
        }
        levels.push(next);
    }
    levels.into_iter().flatten().collect()
}

/// separators put between all tokens of a rendering
const RELAYOUT: [&str; 7] = ["\n", "\r", "\r\n", " // c\n", " // c\r", " //\r\n", "\t// \"c\r  "];

fn tree_leg(g: &Grammar, depth: usize, max_subset_nodes: usize, relayout_full: bool) -> Acc {
    let ts = trees(depth);
    ts.par_chunks(32)
        .map(|chunk| {
            let mut acc = Acc::new();
            for t in chunk {
                let n = t.paren_positions();
                let masks: Vec<u64> = if n <= max_subset_nodes {
                    (0..(1u64 << n)).collect()
                } else {
                    // minimal, every single position, all positions
                    let mut m: Vec<u64> = vec![0, (1u64 << n.min(63)) - 1];
                    m.extend((0..n.min(63)).map(|i| 1u64 << i));
                    m
                };
                acc.count("trees", 1);
                let full_mask = if n == 0 { 0 } else { (1u64 << n.min(63)) - 1 };
                for mask in masks {
                    let text = match t.unparse_with_extra(mask) {
                        Some(s) => s,
                        None => continue,
                    };
                    // the reference must itself read the rendering back as the tree
                    match reference_parse_expr(g, &text) {
                        RefParse::Accept(rt) if rt == *t => {}
                        other => {
                            acc.machinery(format!("reference unparser/parser disagree on {text:?}: {other:?}"));
                            continue;
                        }
                    }
                    acc.count("renderings", 1);
                    record(&mut acc, "C07", &text, "Expr::parse", compare_expr(g, &text), &C07_KINDS);
                    // the same token sequence under other layouts (line breaks of every kind and
                    // comments between all tokens): the structure is the table's, whatever the layout
                    if mask == 0 || (relayout_full && mask == full_mask) {
                        if let Ok(toks) = crate::spec::lex::lex_all(&text) {
                            for sep in RELAYOUT {
                                let mut relaid = String::new();
                                for (i, tk) in toks.iter().enumerate() {
                                    if i > 0 {
                                        relaid.push_str(sep);
                                    }
                                    relaid.push_str(&text[tk.start..tk.end]);
                                }
                                relaid.push_str(sep);
                                match reference_parse_expr(g, &relaid) {
                                    RefParse::Accept(rt) if rt == *t => {}
                                    other => {
                                        acc.machinery(format!("reference is layout-sensitive on {relaid:?}: {other:?}"));
                                        continue;
                                    }
                                }
                                acc.count("renderings", 1);
                                acc.count("relaid_renderings", 1);
                                record(&mut acc, "C07", &relaid, "Expr::parse", compare_expr(g, &relaid), &C07_KINDS);
                            }
                        }
                    }
                }
                acc.sample("tree", 2, || json!({"minimal": t.unparse(), "full": t.unparse_full()}));
            }
            acc
        })
        .reduce(Acc::new, |a, b| a.merge(b))
}

pub fn run(tier: Tier) -> i32 {
    let mut rep = Report::new("C07", tier);
    let g = Grammar::new();
    let (l_full, l_deep) = tier.pick((4, 6), (4, 7));
    rep.bound("token_classes", CLASSES.len());
    rep.bound("unpruned_depth", l_full);
    rep.bound("viable_prefix_depth", l_deep);
    let (acc, nodes, edges) = trie_leg(&g, l_full, l_deep);
    rep.absorb(acc);
    rep.absorb(matrix_leg(&g, tier == Tier::Thorough));
    // rule-level trie: 28 classes (the 26 plus `@` and `;`) through Rule::parse
    let (rf, rd) = tier.pick((2, 4), (3, 6));
    let (racc, rnodes) = rule_trie_leg(&g, rf, rd);
    rep.absorb(racc);
    rep.bound("rule_trie", format!("28 classes, unpruned to {rf}, viable prefixes to {rd}: {rnodes} sequences"));
    let (depth, subset_nodes) = tier.pick((3, 6), (3, 10));
    rep.bound("tree_depth", depth);
    rep.bound("all_parenthesis_subsets_up_to_nodes", subset_nodes);
    rep.absorb(tree_leg(&g, depth, subset_nodes, tier == Tier::Thorough));
    rep.bound("relayout_separators", RELAYOUT.to_vec());
    rep.states = nodes;
    rep.transitions = edges + rep.acc.get("matrix_texts") + rep.acc.get("renderings");
    rep.traces = rep.acc.get("executions");
    rep.rule = "E3: depth-first exploration of the trie of token sequences over 26 token classes (every sequence up to the unpruned depth; beyond it every sentence, viable prefix and viable prefix + one dead token, classified by an incremental Earley recogniser over the declarative grammar); each node parsed by the real parser and compared on accept/reject, error position and tree; plus operator pair/triple matrices and trees under every subset of redundant parentheses".into();
    rep.assume("error positions are read from lalrpop's message text; a message of unknown shape counts as a rejection whose position is not compared");
    rep.assume("identifier and literal spelling is C08's business: one representative per token class here");
    rep.finish()
}

pub fn replay(case: &serde_json::Value) -> i32 {
    if case.get("kind").and_then(|k| k.as_str()) == Some("parse-context") {
        let mut acc = Acc::new();
        let n = super::context::parse_context_leg(&mut acc);
        println!("re-ran the {n} parse contexts");
        return if acc.violations.is_empty() {
            println!("verdict: holds");
            0
        } else {
            for v in acc.violations.values() {
                println!("verdict: VIOLATED — {}", v.what);
            }
            1
        };
    }
    let text = case.get("text").and_then(|t| t.as_str()).unwrap_or("");
    let entry = case.get("entry").and_then(|t| t.as_str()).unwrap_or("Expr::parse");
    let g = Grammar::new();
    let (c1, c2) = if entry == "Rule::parse" {
        (compare_rule_expr(&g, text), compare_rule_expr(&g, text))
    } else {
        (compare_expr(&g, text), compare_expr(&g, text))
    };
    if c1 != c2 {
        println!("replay not deterministic");
        return 2;
    }
    println!("text      : {text:?}");
    println!("entry     : {entry}");
    if entry == "Rule::parse" {
        println!("reference : {:?}", reference_parse_rule(&g, text));
        println!("observed  : {:?}", impl_parse_rule(text));
    } else {
        println!("reference : {:?}", reference_parse_expr(&g, text));
        println!("observed  : {:?}", impl_parse_expr(text));
    }
    match c1 {
        Cmp::Agree(c) => {
            println!("verdict   : agree ({c:?})");
            0
        }
        Cmp::Disagree(k, c, d) => {
            println!("verdict   : DISAGREE {k:?} ({c:?}) — {d}");
            1
        }
        Cmp::Machinery(m) => {
            println!("machinery : {m}");
            2
        }
    }
}

#[allow(dead_code)]
fn _unused() -> RV {
    RV::None
}
