//! Argument crowd: one evaluation in which a cacheable identity function is called once with every
//! member of a large pool of pairwise different arguments.  Whatever the cache uses to recognise an
//! argument, two different members that it confuses show up as a call that returns the other
//! member.  The pool is built to contain the pairs a textual, hashed or normalised key is most
//! likely to confuse: values that compare equal but are not identical, values that differ in one
//! low-order unit, and strings / map keys whose content imitates the rendering of a neighbouring
//! structure under an enumerated family of plausible renderings.
use crate::checks::pool;
use crate::checks::probe::{probe, Handler};
use crate::engine::exec::block_on;
use crate::engine::panic::catch;
use crate::engine::report::{Acc, Violation};
use chrono::{DateTime, TimeDelta, Utc};
use reval::prelude::*;
use rust_decimal::Decimal;
use serde_json::json;
use std::collections::{BTreeMap, BTreeSet};
use std::sync::{Arc, Mutex};

/// bit-exact, injective rendering of a value (the harness's own notion of "the same argument")
pub fn ident(v: &Value) -> String {
    let mut s = String::new();
    ident_into(v, &mut s);
    s
}

fn ident_into(v: &Value, out: &mut String) {
    use std::fmt::Write;
    match v {
        Value::String(t) => {
            let _ = write!(out, "S{}:", t.len());
            out.push_str(t);
        }
        Value::Int(i) => {
            let _ = write!(out, "I{i};");
        }
        Value::Float(f) => {
            let _ = write!(out, "F{:016x};", f.to_bits());
        }
        Value::Decimal(d) => {
            let _ = write!(out, "D{:?};", d.serialize());
        }
        Value::Bool(b) => {
            let _ = write!(out, "B{};", *b as u8);
        }
        Value::DateTime(t) => {
            let _ = write!(out, "T{}.{};", t.timestamp(), t.timestamp_subsec_nanos());
        }
        Value::Duration(d) => {
            let _ = write!(out, "U{}.{};", d.num_seconds(), d.subsec_nanos());
        }
        Value::Vec(items) => {
            let _ = write!(out, "V{}[", items.len());
            for x in items {
                ident_into(x, out);
            }
            out.push(']');
        }
        Value::Map(m) => {
            let _ = write!(out, "M{}{{", m.len());
            for (k, x) in m {
                let _ = write!(out, "K{}:", k.len());
                out.push_str(k);
                ident_into(x, out);
            }
            out.push('}');
        }
        Value::None => out.push('N'),
    }
}

fn st(x: &str) -> Value {
    Value::String(x.to_string())
}
fn vmap(items: Vec<(String, Value)>) -> Value {
    Value::Map(items.into_iter().collect())
}

/// values that compare equal, print alike or differ in one low-order unit
pub fn near_equal() -> Vec<Value> {
    let mut v: Vec<Value> = Vec::new();
    // zeros and ones of every numeric type and spelling
    for bits in [0u64, 0x8000_0000_0000_0000, 0x7ff8_0000_0000_0000, 0x7ff8_0000_0000_0001, 0xfff8_0000_0000_0000, 0x7ff0_0000_0000_0001, 1, 0x3ff0_0000_0000_0000, 0x3ff0_0000_0000_0001, 0xbff0_0000_0000_0000] {
        v.push(Value::Float(f64::from_bits(bits)));
    }
    for scale in 0..=4u32 {
        for neg in [false, true] {
            // (from_parts clears the sign of a zero; set_sign_negative keeps it, as unary minus does)
            let mut z = Decimal::from_parts(0, 0, 0, false, scale);
            z.set_sign_negative(neg);
            v.push(Value::Decimal(z));
            v.push(Value::Decimal(Decimal::from_parts(10u32.pow(scale), 0, 0, neg, scale)));
        }
    }
    let mut z28 = Decimal::from_parts(0, 0, 0, false, 28);
    z28.set_sign_negative(true);
    v.push(Value::Decimal(z28));
    v.push(Value::Decimal(Decimal::from_parts(0, 0, 0, false, 28)));
    v.push(Value::Decimal(Decimal::from_parts(1, 0, 0, false, 0)));
    v.push(Value::Decimal(Decimal::from_parts(0, 1, 0, false, 0)));
    v.push(Value::Decimal(Decimal::from_parts(0, 0, 1, false, 0)));
    v.push(Value::Decimal(Decimal::from_parts(1, 1, 1, false, 0)));
    for i in [0i128, 1, -1, 10, 100, 1000, 1 << 32, 1 << 64, (1 << 64) + 1] {
        v.push(Value::Int(i));
    }
    for t in ["0", "-0", "1", "1.0", "1.00", "i1", "f1", "d1", "d1.0", "true", "none", "None", "", " ", "a", "a ", " a", "A", "\"", "\\", "\\\"", "\"\"", "\\n", "\n", "\0", "\\0", "\u{feff}", "a\u{301}", "\u{e1}"] {
        v.push(st(t));
    }
    v.push(Value::Bool(true));
    v.push(Value::Bool(false));
    v.push(Value::None);
    // durations: mirror images around zero below and above one second, one nanosecond apart
    for ns in [0i64, 1, 250_000_000, 500_000_000, 999_999_999, 1_000_000_000, 1_000_000_001, 1_250_000_000, 1_500_000_000, 2_000_000_000, 60_000_000_000, 60_000_000_001] {
        v.push(Value::Duration(TimeDelta::nanoseconds(ns)));
        if ns != 0 {
            v.push(Value::Duration(TimeDelta::nanoseconds(-ns)));
        }
    }
    v.push(Value::Duration(TimeDelta::MAX));
    v.push(Value::Duration(TimeDelta::MIN));
    // instants: sub-second neighbours on both sides of the epoch, of a leap second and of a year boundary
    for secs in [0i64, -1, 1, 1_438_226_773, 1_483_228_799, 1_483_228_800, -62_135_596_800] {
        for nanos in [0u32, 1, 250_000_000, 999_999_999, 1_000_000_000, 1_250_000_000, 1_999_999_999] {
            if let Some(t) = DateTime::<Utc>::from_timestamp(secs, nanos) {
                v.push(Value::DateTime(t));
            }
        }
    }
    v.push(Value::DateTime(DateTime::<Utc>::MAX_UTC));
    v.push(Value::DateTime(DateTime::<Utc>::MIN_UTC));
    v
}

/// every member wrapped the ways a key builder recurses: alone, in a list, in a nested list, twice
/// in a list, as a map value
fn wrapped(base: &[Value]) -> Vec<Value> {
    let mut v = Vec::new();
    for x in base {
        v.push(x.clone());
        v.push(Value::Vec(vec![x.clone()]));
        v.push(Value::Vec(vec![Value::Vec(vec![x.clone()])]));
        v.push(Value::Vec(vec![x.clone(), x.clone()]));
        v.push(vmap(vec![("a".into(), x.clone())]));
        v.push(vmap(vec![("a".into(), x.clone()), ("b".into(), x.clone())]));
    }
    v
}

/// the scalar in the middle of a forged sequence, with the spellings a key might give it
fn scalar_spellings() -> Vec<(Value, Vec<String>)> {
    vec![
        (Value::Int(1), vec!["Int(1)".into(), "i1".into(), "1".into(), "I1".into(), "Int:1".into()]),
        (Value::Float(1.0), vec!["Float(1.0)".into(), "f1".into(), "f1.0".into(), "1.0".into(), "f3ff0000000000000".into()]),
        (Value::Bool(true), vec!["Bool(true)".into(), "true".into()]),
        (Value::None, vec!["None".into(), "none".into(), "null".into()]),
        (st("c"), vec!["String(\"c\")".into(), "\"c\"".into(), "c".into()]),
    ]
}

const ENTRY_SEPS: [&str; 7] = [", ", ",", "; ", ";", " ", "|", "\n"];
const KV_SEPS: [&str; 5] = [": ", ":", "=", " => ", "->"];
/// (what closes a string before the separator, what opens one after it)
const QUOTES: [(&str, &str); 6] = [("", ""), ("\"", "\""), ("\")", "String(\""), ("'", "'"), ("\"", "s\""), ("\")", "Str(\"")];

/// genuine structured values and, for each, strings / keys whose content imitates the rendering of
/// the genuine one's middle part: `["a", X, "b", tail]` against `["a<sep><X><sep>b", tail]`,
/// `{a: X, b: 2}` against `{"a<kv><X><sep>b": 2}`, `{a: "x", b: "y"}` against `{a: "x<sep>b<kv>y"}`
pub fn forgeries() -> Vec<(Value, &'static str)> {
    let mut v: Vec<(Value, &'static str)> = Vec::new();
    let tails: Vec<Vec<Value>> = vec![vec![], vec![Value::Float(1.0)]];
    for (x, spellings) in scalar_spellings() {
        for tail in &tails {
            let mut g = vec![st("a"), x.clone(), st("b")];
            g.extend(tail.iter().cloned());
            v.push((Value::Vec(g), "genuine-list"));
        }
        v.push((vmap(vec![("a".into(), x.clone()), ("b".into(), Value::Int(2))]), "genuine-map"));
        for sp in &spellings {
            for (close, open) in QUOTES {
                for e1 in ENTRY_SEPS {
                    for e2 in ENTRY_SEPS {
                        let hole = format!("a{close}{e1}{sp}{e2}{open}b");
                        for tail in &tails {
                            let mut g = vec![st(&hole)];
                            g.extend(tail.iter().cloned());
                            v.push((Value::Vec(g), "forged-list-item"));
                        }
                    }
                    for kv in KV_SEPS {
                        // a map key swallowing the first entry and the next key
                        for (kclose, kopen) in [("", ""), ("\"", "\"")] {
                            let key = format!("a{kclose}{kv}{sp}{e1}{kopen}b");
                            v.push((vmap(vec![(key, Value::Int(2))]), "forged-map-key"));
                        }
                    }
                }
            }
        }
    }
    v.push((vmap(vec![("a".into(), st("x")), ("b".into(), st("y"))]), "genuine-map"));
    for (close, open) in QUOTES {
        for e1 in ENTRY_SEPS {
            for kv in KV_SEPS {
                for (kclose, kopen) in [("", ""), ("\"", "\"")] {
                    let val = format!("x{close}{e1}{kopen}b{kclose}{kv}{open}y");
                    v.push((vmap(vec![("a".into(), st(&val))]), "forged-map-value"));
                }
            }
        }
    }
    // length-prefix confusions: ["ab", "c"] / ["a", "bc"] / ["abc"] / ["a", "b", "c"], same for keys
    for parts in [vec!["ab", "c"], vec!["a", "bc"], vec!["abc"], vec!["a", "b", "c"], vec!["", "abc"], vec!["abc", ""], vec!["a,b", "c"], vec!["a", "b,c"], vec!["a, b", "c"], vec!["a", "b, c"]] {
        v.push((Value::Vec(parts.iter().map(|p| st(p)).collect()), "split-strings"));
    }
    for keys in [vec!["ab"], vec!["a", "b"], vec!["a.b"], vec!["a", "a.b"]] {
        v.push((vmap(keys.iter().map(|k| (k.to_string(), Value::Int(1))).collect()), "split-keys"));
    }
    v.push((vmap(vec![("a".into(), vmap(vec![("b".into(), Value::Int(1))]))]), "split-keys"));
    v.push((Value::Vec(vec![Value::Vec(vec![Value::Int(1)]), Value::Int(2)]), "nesting"));
    v.push((Value::Vec(vec![Value::Int(1), Value::Vec(vec![Value::Int(2)])]), "nesting"));
    v.push((Value::Vec(vec![Value::Vec(vec![Value::Int(1), Value::Int(2)])]), "nesting"));
    v.push((Value::Vec(vec![Value::Int(1), Value::Int(2)]), "nesting"));
    v.push((Value::Vec(vec![Value::Int(12)]), "nesting"));
    v
}

/// the whole crowd: pairwise different (by `ident`) arguments with a class label each
pub fn crowd() -> Vec<(Value, &'static str)> {
    let mut all: Vec<(Value, &'static str)> = Vec::new();
    let mut v0: Vec<Value> = pool::v0().iter().map(|r| r.to_value()).collect();
    v0.extend(pool::sweep_ints().iter().map(|r| r.to_value()));
    v0.extend(pool::sweep_decimals().iter().map(|r| r.to_value()));
    v0.extend(pool::sweep_floats().iter().map(|r| r.to_value()));
    v0.extend(pool::sweep_durations().iter().map(|r| r.to_value()));
    v0.extend(pool::sweep_lists().iter().map(|r| r.to_value()));
    v0.extend(pool::sweep_maps().iter().map(|r| r.to_value()));
    all.extend(v0.into_iter().map(|x| (x, "value-pool")));
    all.extend(wrapped(&near_equal()).into_iter().map(|x| (x, "near-equal")));
    all.extend(forgeries());
    let mut seen = BTreeSet::new();
    all.retain(|(x, _)| seen.insert(ident(x)));
    all
}

pub struct CrowdResult {
    pub acc: Acc,
    pub members: usize,
}

/// `per_rule` = how many calls each rule makes (the crowd is cut into consecutive rules of that
/// size; `usize::MAX` = one rule).  `reverse` runs the crowd back to front.
pub fn run_crowd(prop: &str, per_rule: usize, reverse: bool) -> CrowdResult {
    let mut acc = Acc::new();
    // one call per rule is the ruleset-level reading (C09): only the near-equal families, so that
    // the ruleset stays at a few hundred rules
    let mut members = if per_rule == 1 {
        let mut seen = BTreeSet::new();
        let mut m: Vec<(Value, &'static str)> = wrapped(&near_equal()).into_iter().map(|x| (x, "near-equal")).collect();
        m.retain(|(x, _)| seen.insert(ident(x)));
        m
    } else {
        crowd()
    };
    if reverse {
        members.reverse();
    }
    let n = members.len();
    let log: Arc<Mutex<u64>> = Arc::new(Mutex::new(0));
    let l2 = log.clone();
    let h: Handler = Arc::new(move |_name, p| {
        *l2.lock().unwrap() += 1;
        (Ok(p), 0)
    });
    let mut b = ruleset();
    let chunk = per_rule.min(n).max(1);
    for (ri, part) in members.chunks(chunk).enumerate() {
        let e = Expr::Vec(part.iter().map(|(x, _)| Expr::func("echo", Expr::value(x.clone()))).collect());
        b = match b.with_rule(Rule::new(format!("r{ri}"), BTreeMap::new(), e)) {
            Ok(b) => b,
            Err(e) => {
                acc.machinery(format!("argument crowd: {e}"));
                return CrowdResult { acc, members: n };
            }
        };
    }
    let rs = match b.with_function(probe("echo", true, &h)) {
        Ok(b) => b.build(),
        Err(e) => {
            acc.machinery(format!("argument crowd: {e}"));
            return CrowdResult { acc, members: n };
        }
    };
    acc.count("executions", 1);
    let out = catch(|| block_on(rs.evaluate_value(&Value::None)));
    let outcomes = match out {
        Ok(Ok(Ok(o))) => o,
        other => {
            acc.violation(Violation {
                sig: "argument-crowd/no-outcomes".into(),
                what: format!("evaluating {n} calls of a cacheable identity function: {:?}", other.map(|r| r.map(|x| x.map(|o| o.len()).map_err(|e| e.to_string())))),
                case: json!({"kind": "argument-crowd", "property": prop, "per_rule": per_rule as u64, "reverse": reverse}),
                size: 1,
            });
            return CrowdResult { acc, members: n };
        }
    };
    let mut got: Vec<Result<Value, String>> = Vec::new();
    for o in outcomes {
        match o.value {
            Ok(Value::Vec(items)) => got.extend(items.into_iter().map(Ok)),
            other => got.push(Err(format!("{:?}", other.map_err(|e| e.to_string())))),
        }
    }
    if got.len() != n {
        acc.violation(Violation {
            sig: "argument-crowd/count".into(),
            what: format!("{n} calls gave {} results", got.len()),
            case: json!({"kind": "argument-crowd", "property": prop, "per_rule": per_rule as u64, "reverse": reverse}),
            size: 1,
        });
        return CrowdResult { acc, members: n };
    }
    let idents: Vec<String> = members.iter().map(|(x, _)| ident(x)).collect();
    let mut wrong_by_class: BTreeMap<&'static str, (usize, String)> = BTreeMap::new();
    for (i, g) in got.iter().enumerate() {
        let ok = matches!(g, Ok(x) if ident(x) == idents[i]);
        if !ok {
            let class = members[i].1;
            let e = wrong_by_class.entry(class).or_insert_with(|| {
                let other = match g {
                    Ok(x) => {
                        let gi = ident(x);
                        match idents.iter().position(|y| *y == gi) {
                            Some(j) => format!("the result of call {j} with argument {:?} (class {})", members[j].0, members[j].1),
                            None => format!("{x:?}, which is no member's argument"),
                        }
                    }
                    Err(m) => m.clone(),
                };
                (0, format!("call {i} with argument {:?} returned {other}", members[i].0))
            });
            e.0 += 1;
        }
    }
    for (class, (count, first)) in wrong_by_class {
        acc.violation(Violation {
            sig: format!("argument-crowd/{class}"),
            what: format!(
                "one evaluation calling a cacheable identity function once with each of {n} pairwise different arguments ({} per rule{}): {count} call(s) of class {class} came back with another argument's result; first: {first}",
                if per_rule >= n { "all".to_string() } else { per_rule.to_string() },
                if reverse { ", back to front" } else { "" }
            ),
            case: json!({"kind": "argument-crowd", "property": prop, "per_rule": per_rule as u64, "reverse": reverse}),
            size: 1,
        });
    }
    let invoked = *log.lock().unwrap();
    if acc.violations.is_empty() && invoked != n as u64 {
        acc.violation(Violation {
            sig: "argument-crowd/invocations".into(),
            what: format!("{n} pairwise different arguments, {invoked} invocations"),
            case: json!({"kind": "argument-crowd", "property": prop, "per_rule": per_rule as u64, "reverse": reverse}),
            size: 1,
        });
    }
    acc.outcome(format!("argument-crowd:{}", if per_rule >= n { "one-rule" } else { "many-rules" }));
    CrowdResult { acc, members: n }
}

/// the ruleset-level twin without any function: one rule per near-equal value, each rule the
/// constant itself (and the constant under a neutral operation); a ruleset that shares work between
/// rules whose expressions compare equal hands one rule the other's value
pub fn run_constant_crowd(reverse: bool) -> CrowdResult {
    let mut acc = Acc::new();
    let mut seen = BTreeSet::new();
    let mut members: Vec<Value> = wrapped(&near_equal());
    members.retain(|x| seen.insert(ident(x)));
    if reverse {
        members.reverse();
    }
    let n = members.len();
    let mut rules = Vec::new();
    for (i, v) in members.iter().enumerate() {
        rules.push(Rule::new(format!("c{i}"), BTreeMap::new(), Expr::value(v.clone())));
        rules.push(Rule::new(format!("l{i}"), BTreeMap::new(), Expr::Vec(vec![Expr::value(v.clone()), Expr::reff("id")])));
    }
    let rs = match ruleset().with_rules(rules) {
        Ok(b) => b.build(),
        Err(e) => {
            acc.machinery(format!("constant crowd: {e}"));
            return CrowdResult { acc, members: n };
        }
    };
    acc.count("executions", 1);
    let facts = Value::Map([("id".to_string(), Value::Int(7))].into_iter().collect());
    let case = json!({"kind": "constant-crowd", "reverse": reverse});
    match catch(|| block_on(rs.evaluate_value(&facts))) {
        Ok(Ok(Ok(out))) if out.len() == 2 * n => {
            let mut wrong = 0;
            let mut first = None;
            for (i, v) in members.iter().enumerate() {
                let want_c = ident(v);
                let want_l = ident(&Value::Vec(vec![v.clone(), Value::Int(7)]));
                for (o, want) in [(&out[2 * i], &want_c), (&out[2 * i + 1], &want_l)] {
                    let ok = matches!(&o.value, Ok(x) if ident(x) == *want);
                    if !ok {
                        wrong += 1;
                        if first.is_none() {
                            first = Some(format!("rule {} (`{}`) yields {:?}", o.rule.name(), o.rule.expr(), o.value.as_ref().map_err(|e| e.to_string())));
                        }
                    }
                }
            }
            if let Some(f) = first {
                acc.violation(Violation {
                    sig: "constant-crowd/outcome".into(),
                    what: format!("a function-less ruleset of {} rules, each a constant (or a list of it and a field) from the near-equal families{}: {wrong} outcomes are not the rule's own constant, bit for bit; first: {f}", 2 * n, if reverse { ", back to front" } else { "" }),
                    case,
                    size: 1,
                });
            }
        }
        other => acc.violation(Violation {
            sig: "constant-crowd/no-outcomes".into(),
            what: format!("a function-less ruleset of {} constant rules: {:?}", 2 * n, other.map(|r| r.map(|x| x.map(|o| o.len()).map_err(|e| e.to_string())))),
            case,
            size: 1,
        }),
    }
    acc.outcome("constant-crowd");
    CrowdResult { acc, members: n }
}

/// function-table crowd: several hundred functions whose names mix one- to four-byte letters at
/// lengths 1..3 (so that byte length, character count and alphabetical order all disagree),
/// registered in three orders; one rule calls every one of them, each must answer with its own index
pub fn run_function_crowd() -> CrowdResult {
    let mut acc = Acc::new();
    let letters = ['a', 'z', 'é', 'ß', 'Ω', 'я', '中', '𝒳'];
    let mut names: Vec<String> = Vec::new();
    let mut frontier = vec![String::new()];
    for _ in 0..3 {
        let mut next = Vec::new();
        for w in &frontier {
            for c in letters {
                let mut t = w.clone();
                t.push(c);
                next.push(t);
            }
        }
        names.extend(next.iter().cloned());
        frontier = next;
    }
    names.extend(["max", "âge", "taux", "zz", "prix_net", "_x", "_é", "naïve", "straße", "x1", "é1", "ab_cd_ef", "aaaaaaaaaaaaaaaaaaaaaaaa", "ééééééé"].iter().map(|s| s.to_string()));
    names.sort();
    names.dedup();
    let names: Vec<&'static str> = names.into_iter().map(|n| &*Box::leak(n.into_boxed_str())).collect();
    let n = names.len();
    let index_of: std::collections::HashMap<&'static str, i128> = names.iter().enumerate().map(|(i, n)| (*n, i as i128)).collect();
    let index_of = Arc::new(index_of);
    let io = index_of.clone();
    let h: Handler = Arc::new(move |name, _p| (Ok(Value::Int(*io.get(name).unwrap_or(&-1))), 0));
    let mut orders: Vec<(&str, Vec<usize>)> = vec![("sorted", (0..n).collect()), ("reversed", (0..n).rev().collect())];
    let mut scrambled: Vec<usize> = (0..n).collect();
    scrambled.sort_by_key(|i| (*i as u64).wrapping_mul(0x9E37_79B9_7F4A_7C15) >> 7);
    orders.push(("scrambled", scrambled));
    for (label, order) in orders {
        let mut refused = Vec::new();
        let mut b = Some(ruleset());
        for &i in &order {
            // (a refusal consumes the builder: the order is abandoned and reported)
            match b.take().expect("builder present").with_function(probe(names[i], i % 2 == 0, &h)) {
                Ok(nb) => b = Some(nb),
                Err(e) => {
                    refused.push(format!("{}: {e}", names[i]));
                    break;
                }
            }
        }
        let case = json!({"kind": "function-crowd"});
        if !refused.is_empty() {
            acc.violation(Violation { sig: "function-crowd/refused".into(), what: format!("registering {n} distinct well-formed function names ({label} order): refused {refused:?}"), case, size: 1 });
            return CrowdResult { acc, members: n };
        }
        let all = Expr::Vec((0..n).map(|i| Expr::func(names[i], Expr::value(i as i128))).collect());
        let rs = match b.take().expect("builder present").with_rule(Rule::new("all", BTreeMap::new(), all)) {
            Ok(b) => b.build(),
            Err(e) => {
                acc.machinery(format!("function crowd: {e}"));
                return CrowdResult { acc, members: n };
            }
        };
        acc.count("executions", 1);
        match catch(|| block_on(rs.evaluate_value(&Value::None))) {
            Ok(Ok(Ok(out))) if out.len() == 1 => match &out[0].value {
                Ok(Value::Vec(items)) if items.len() == n => {
                    if let Some((i, v)) = items.iter().enumerate().find(|(i, v)| **v != Value::Int(*i as i128)) {
                        acc.violation(Violation {
                            sig: "function-crowd/wrong-function".into(),
                            what: format!("{n} functions registered ({label} order): the call `{}(..)` was answered by {}", names[i], match v { Value::Int(j) if *j >= 0 && (*j as usize) < n => format!("`{}`", names[*j as usize]), other => format!("{other:?}") }),
                            case,
                            size: 1,
                        });
                    }
                }
                other => acc.violation(Violation {
                    sig: "function-crowd/outcome".into(),
                    what: format!("{n} functions registered ({label} order), one rule calling each: {:?}", other.as_ref().map(|_| "a value of another shape").map_err(|e| e.to_string())),
                    case,
                    size: 1,
                }),
            },
            other => acc.violation(Violation {
                sig: "function-crowd/no-outcome".into(),
                what: format!("{n} functions registered ({label} order): {:?}", other.map(|r| r.map(|x| x.map(|o| o.len()).map_err(|e| e.to_string())))),
                case,
                size: 1,
            }),
        }
    }
    acc.outcome("function-crowd");
    CrowdResult { acc, members: n }
}

pub fn replay(case: &serde_json::Value) -> i32 {
    if case.get("kind").and_then(|k| k.as_str()) == Some("function-crowd") {
        let r = run_function_crowd();
        println!("re-ran the function crowd ({} names)", r.members);
        return if r.acc.violations.is_empty() {
            println!("verdict: holds");
            0
        } else {
            for v in r.acc.violations.values() {
                println!("verdict: VIOLATED — {}", v.what);
            }
            1
        };
    }
    if case.get("kind").and_then(|k| k.as_str()) == Some("constant-crowd") {
        let r = run_constant_crowd(case.get("reverse").and_then(|p| p.as_bool()).unwrap_or(false));
        println!("re-ran the constant crowd ({} members)", r.members);
        return if r.acc.violations.is_empty() {
            println!("verdict: holds");
            0
        } else {
            for v in r.acc.violations.values() {
                println!("verdict: VIOLATED — {}", v.what);
            }
            1
        };
    }
    let prop = case.get("property").and_then(|p| p.as_str()).unwrap_or("C11").to_string();
    let per_rule = case.get("per_rule").and_then(|p| p.as_u64()).map(|p| p.min(usize::MAX as u64) as usize).unwrap_or(usize::MAX);
    let reverse = case.get("reverse").and_then(|p| p.as_bool()).unwrap_or(false);
    let r = run_crowd(&prop, per_rule, reverse);
    println!("re-ran the argument crowd ({} members, {} per rule, reverse={reverse})", r.members, if per_rule >= r.members { "all".to_string() } else { per_rule.to_string() });
    if r.acc.violations.is_empty() {
        println!("verdict: holds");
        0
    } else {
        for v in r.acc.violations.values() {
            println!("verdict: VIOLATED — {}", v.what);
        }
        1
    }
}
