//! C12 — evaluation is deterministic, free of side effects and schedule-independent.
//! E5: a single-threaded executor whose every decision is an explicit choice — which unfinished
//! evaluation to poll next, how often the user function about to be called suspends, whether to
//! drop an evaluation at a suspension point — explored exhaustively.  Oracle: every completed
//! evaluation equals the same evaluation run alone, never suspended, on a freshly built ruleset.
use super::probe::*;
use crate::engine::choice::{explore, SharedChooser, TreeStats};
use crate::engine::exec::{poll_once, WakeCount};
use crate::engine::panic::catch;
use crate::engine::report::{Acc, Report, Tier, Violation};
use crate::spec::eval::*;
use crate::spec::rv::*;
use rayon::prelude::*;
use reval::prelude::*;
use serde_json::json;
use std::collections::BTreeMap;
use std::future::Future;
use std::pin::Pin;
use std::sync::atomic::Ordering;
use std::sync::{Arc, Mutex};
use std::task::Poll;

#[derive(Default)]
struct World {
    chooser: Option<SharedChooser>,
    /// real time the function `slow` sleeps (milliseconds)
    slow_ms: u64,
    max_susp: u32,
    current: usize,
    log: Vec<(usize, String, RV)>,
}

/// deterministic function value
fn fn_value(name: &str, arg: &RV) -> RV {
    RV::List(vec![RV::Str(name.to_string()), arg.clone()])
}

fn handler(world: &Arc<Mutex<World>>) -> Handler {
    let w = world.clone();
    Arc::new(move |name, param| {
        let mut g = w.lock().unwrap();
        let arg = RV::from_value(&param);
        let cur = g.current;
        g.log.push((cur, name.to_string(), arg.clone()));
        let n = match (&g.chooser, g.max_susp) {
            (Some(c), m) if m > 0 => c.lock().unwrap().choose(m + 1),
            _ => 0,
        };
        if name == "slow" {
            let ms = g.slow_ms;
            drop(g);
            if ms > 0 {
                std::thread::sleep(std::time::Duration::from_millis(ms));
            }
            return (Ok(Value::Int(0)), 0);
        }
        let r = if name == "bad" {
            Err(anyhow::Error::new(Injected(0)))
        } else if name == "conv" {
            // a user function that converts its parameter the way the documentation suggests
            match std::collections::HashMap::<String, i64>::try_from(param.clone()) {
                Ok(m) => Ok(Value::Int(m.values().map(|v| *v as i128).sum())),
                Err(e) => Err(anyhow::Error::new(e)),
            }
        } else {
            Ok(fn_value(name, &arg).to_value())
        };
        (r, n)
    })
}

struct Family {
    name: &'static str,
    rules: Vec<&'static str>,
    inputs: Vec<RV>,
}


fn nested_call(depth: usize) -> String {
    let mut s = "c(id)".to_string();
    for _ in 0..depth {
        s = format!("[{s}]");
    }
    s
}

static DEEP_RULE: std::sync::LazyLock<String> = std::sync::LazyLock::new(|| nested_call(150));

fn families() -> Vec<Family> {
    let in1 = RV::map(&[("id", RV::Int(1)), ("other", RV::Int(2))]);
    let in2 = RV::map(&[("id", RV::Int(2)), ("other", RV::Int(1))]);
    vec![
        Family { name: "cache-mix", rules: vec!["c(id)", "n(id)", "c(id)", "c(other)", "i1 / i0"], inputs: vec![in1.clone(), in2.clone()] },
        Family { name: "lists", rules: vec!["[c(id), c(i7)]", "c(id) == c(other)", "bad(id)", "if is_some(n(id)) then c(other) else c(id)"], inputs: vec![in1.clone(), in2.clone()] },
        Family { name: "two-cacheable", rules: vec!["c(id)", "c(other)"], inputs: vec![in1.clone(), in2.clone()] },
        // a call nested in an earlier list item must complete before the later items start
        Family { name: "nested-list", rules: vec!["[n(c(id)), n(other), c(i3)]"], inputs: vec![in1.clone(), in2.clone()] },
        // no user function at all: the input is reached through plain fields, through the `facts`
        // alias only, through a symbol-free constant (evaluated on alternating inputs in the
        // repetition leg)
        Family { name: "no-functions", rules: vec!["facts.id", "facts.other == i2", "id + other", "facts", "i1 + i1", "if facts.id > i1 then facts.other else id", "if false then i1 else id * i2", "if true then other else i0", "if i1 == i1 then [id, other] else none"], inputs: vec![in1.clone(), in2.clone(), RV::Int(21), RV::Int(16)] },
        // access paths through symbols, written in the DSL and built through the API, whose flattened
        // renderings coincide; evaluated on alternating inputs in the repetition leg
        Family {
            name: "symbol-paths",
            rules: vec![":status.404", "#api:status[\"404\"]", ":status.0", "#api:status[\"0\"]", ":codes.0", "#api:codes[\"0\"]", "if strict then :limits.eu.max else none", "#api:(limits.eu)[\"max\"]", ":limits.eu.max", ":limit * i2", "x.0", "#api:x[\"0\"]"],
            inputs: vec![RV::map(&[("strict", RV::Bool(true)), ("x", RV::List(vec![RV::Int(5)]))]), RV::map(&[("strict", RV::Bool(false)), ("x", RV::map(&[("0", RV::Int(6))]))])],
        },
        // a function converting a map parameter in which several entries do not convert: which error
        // comes back must not vary from run to run
        Family {
            name: "conversion-errors",
            rules: vec!["conv(m)", "conv(good)", "[conv(good), conv(m)]"],
            inputs: vec![
                RV::map(&[("m", RV::map(&[("a", RV::str("x")), ("b", RV::None), ("c", RV::float(1.5)), ("d", RV::List(vec![])), ("e", RV::Bool(true)), ("f", RV::str("y")), ("ok", RV::Int(1))])), ("good", RV::map(&[("p", RV::Int(1)), ("q", RV::Int(2))]))]),
                RV::map(&[("m", RV::map(&[("k1", RV::Int(i64::MAX as i128 + 1)), ("k2", RV::str("2")), ("k3", RV::map(&[])), ("k4", RV::None), ("k5", RV::float(0.5)), ("k6", RV::Bool(false))])), ("good", RV::map(&[]))]),
            ],
        },
        // both interleaved evaluations are suspended 150 levels deep (per-thread bookkeeping of
        // nesting adds up across suspended evaluations)
        Family { name: "deep-interleave", rules: vec![DEEP_RULE.as_str(), "c(other)"], inputs: vec![in1, in2] },
    ]
}

fn build(rules: &[String], world: &Arc<Mutex<World>>) -> Result<RuleSet, String> {
    let h = handler(world);
    let mut b = ruleset();
    for (n, v) in fixed_symbols() {
        b = b.with_symbol(n, v.to_value());
    }
    for (i, text) in rules.iter().enumerate() {
        let e = rule_expr(text)?;
        b = b.with_rule(Rule::new(format!("r{i}"), BTreeMap::new(), e)).map_err(|e| e.to_string())?;
    }
    for (n, c) in [("c", true), ("n", false), ("bad", true), ("conv", false), ("slow", false)] {
        b = b.with_function(probe(n, c, &h)).map_err(|e| e.to_string())?;
    }
    Ok(b.build())
}

/// symbols registered in every C12 ruleset (names and keys chosen so that a flattened rendering of
/// an access path would be ambiguous: digit keys, a symbol name containing a dot)
fn fixed_symbols() -> Vec<(&'static str, RV)> {
    vec![
        ("status", RV::map(&[("404", RV::str("not found")), ("200", RV::str("ok")), ("0", RV::str("zero"))])),
        ("codes", RV::List(vec![RV::str("first"), RV::str("second")])),
        ("limits", RV::map(&[("eu", RV::map(&[("max", RV::Int(50))]))])),
        ("limits.eu", RV::map(&[("max", RV::Int(100))])),
        ("limit", RV::Int(10)),
        ("flag", RV::Bool(true)),
    ]
}

/// a rule given as text; texts starting with `#api:` name expressions that only exist through the
/// constructor API
fn rule_expr(text: &str) -> Result<Expr, String> {
    use reval::expr::Index;
    Ok(match text {
        "#api:status[\"404\"]" => Expr::index(Expr::symbol("status"), Index::Map("404".into())),
        "#api:status[\"0\"]" => Expr::index(Expr::symbol("status"), Index::Map("0".into())),
        "#api:codes[\"0\"]" => Expr::index(Expr::symbol("codes"), Index::Map("0".into())),
        "#api:(limits.eu)[\"max\"]" => Expr::index(Expr::symbol("limits.eu"), Index::Map("max".into())),
        "#api:x[\"0\"]" => Expr::index(Expr::reff("x"), Index::Map("0".into())),
        t if t.starts_with("#api:") => return Err(format!("unknown api rule {t}")),
        t => Expr::parse(t).map_err(|e| format!("rule {t:?}: {e}"))?,
    })
}

type Outs = Vec<(String, Obs)>;

fn owned(out: reval::Result<Vec<reval::ruleset::Outcome<'_>>>) -> Result<Outs, String> {
    match out {
        Err(e) => Err(format!("evaluate_value failed: {e}")),
        Ok(v) => Ok(v.into_iter().map(|o| (o.rule.name().to_string(), observe(Ok(o.value)))).collect()),
    }
}

/// run one evaluation alone, never suspended, on a freshly built ruleset
fn baseline(rules: &[String], input: &RV) -> Result<(Outs, Vec<(String, RV)>), String> {
    let world = Arc::new(Mutex::new(World::default()));
    let rs = build(rules, &world)?;
    let facts = input.to_value();
    let out = catch(|| crate::engine::exec::block_on(rs.evaluate_value(&facts))).map_err(|p| format!("baseline panicked: {p}"))??;
    let o = owned(out)?;
    let log = world.lock().unwrap().log.iter().map(|(_, n, a)| (n.clone(), a.clone())).collect();
    Ok((o, log))
}

#[derive(Clone, Copy, PartialEq, Debug)]
enum Mode {
    /// tasks are only polled
    Interleave,
    /// task 0 may additionally be dropped at any of its suspension points; afterwards a fresh
    /// evaluation (never suspended) is run on the same ruleset
    Cancel,
}

struct Scenario<'a> {
    label: String,
    rules: &'a [String],
    /// input index per task
    tasks: Vec<usize>,
    inputs: &'a [RV],
    baselines: &'a [(Outs, Vec<(String, RV)>)],
    max_susp: u32,
    mode: Mode,
}

type EvalFut<'a> = Pin<Box<dyn Future<Output = reval::Result<Vec<reval::ruleset::Outcome<'a>>>> + 'a>>;

fn run_scenario(sc: &Scenario, acc: &mut Acc) -> TreeStats {
    let world = Arc::new(Mutex::new(World::default()));
    let rs = match build(sc.rules, &world) {
        Ok(r) => r,
        Err(m) => {
            acc.machinery(m);
            return TreeStats::default();
        }
    };
    let facts: Vec<Value> = sc.inputs.iter().map(|i| i.to_value()).collect();
    let res = explore(&[], None, 20_000_000, |ch, _| {
        {
            let mut g = world.lock().unwrap();
            g.chooser = Some(ch.clone());
            g.max_susp = sc.max_susp;
            g.log.clear();
        }
        let n = sc.tasks.len();
        let mut futs: Vec<Option<EvalFut>> = sc.tasks.iter().map(|&ii| Some(Box::pin(rs.evaluate_value(&facts[ii])) as EvalFut)).collect();
        let mut results: Vec<Option<Result<Outs, String>>> = (0..n).map(|_| None).collect();
        let mut pending_once: Vec<bool> = vec![false; n];
        let mut dropped: Vec<bool> = vec![false; n];
        let mut lost_wake = false;
        let mut trace: Vec<String> = Vec::new();
        let wc = Arc::new(WakeCount::default());
        loop {
            let live: Vec<usize> = (0..n).filter(|&t| futs[t].is_some()).collect();
            if live.is_empty() {
                break;
            }
            // options: poll any live task; in Cancel mode drop task 0 at one of its suspension points
            let mut opts: Vec<(bool, usize)> = live.iter().map(|&t| (false, t)).collect();
            if sc.mode == Mode::Cancel && futs[0].is_some() && pending_once[0] {
                opts.push((true, 0));
            }
            let c = if opts.len() == 1 { 0 } else { ch.lock().unwrap().choose(opts.len() as u32) as usize };
            let (is_drop, t) = opts[c];
            if is_drop {
                futs[t] = None;
                dropped[t] = true;
                trace.push(format!("drop{t}"));
                continue;
            }
            world.lock().unwrap().current = t;
            let before = wc.0.load(Ordering::SeqCst);
            let polled = catch(|| poll_once(futs[t].as_mut().unwrap().as_mut(), &wc));
            trace.push(format!("poll{t}"));
            match polled {
                Err(p) => {
                    futs[t] = None;
                    results[t] = Some(Err(format!("PANIC: {p}")));
                }
                Ok(Poll::Ready(out)) => {
                    futs[t] = None;
                    results[t] = Some(owned(out));
                }
                Ok(Poll::Pending) => {
                    pending_once[t] = true;
                    if wc.0.load(Ordering::SeqCst) == before {
                        lost_wake = true;
                    }
                }
            }
        }
        // after a cancellation: a fresh evaluation on the same ruleset, never suspended
        let mut fresh: Option<Result<Outs, String>> = None;
        let fresh_task = n;
        if sc.mode == Mode::Cancel {
            {
                let mut g = world.lock().unwrap();
                g.max_susp = 0;
                g.current = fresh_task;
            }
            let r = catch(|| crate::engine::exec::block_on(rs.evaluate_value(&facts[sc.tasks[0]])));
            fresh = Some(match r {
                Err(p) => Err(format!("PANIC: {p}")),
                Ok(Err(m)) => Err(m),
                Ok(Ok(o)) => owned(o),
            });
        }
        let log = {
            let mut g = world.lock().unwrap();
            g.chooser = None;
            std::mem::take(&mut g.log)
        };
        acc.count("executions", 1);
        acc.count("polls", trace.iter().filter(|s| s.starts_with("poll")).count() as u64);
        let mut problem: Option<(String, String)> = None;
        if lost_wake {
            problem = Some(("lost-wakeup".into(), "a poll returned Pending without waking".into()));
        }
        let check = |task: usize, input: usize, got: &Result<Outs, String>, what: &str| -> Option<(String, String)> {
            let (bo, bl) = &sc.baselines[input];
            match got {
                Err(m) => Some((format!("{what}-failed"), format!("{what} (task {task}) did not complete normally: {m}"))),
                Ok(o) if o != bo => {
                    let diff: Vec<String> = o.iter().zip(bo.iter()).filter(|(a, b)| a != b).map(|(a, b)| format!("{}: {} (alone: {})", a.0, a.1.show(), b.1.show())).collect();
                    Some((format!("{what}-outcome"), format!("{what} (task {task}) differs from the isolated run: {}", diff.join("; "))))
                }
                Ok(_) => {
                    let mine: Vec<(String, RV)> = log.iter().filter(|(t, _, _)| *t == task).map(|(_, n, a)| (n.clone(), a.clone())).collect();
                    if mine != *bl {
                        let f = |l: &[(String, RV)]| l.iter().map(|(n, a)| format!("{n}({})", a.show())).collect::<Vec<_>>().join(" ");
                        Some((format!("{what}-calls"), format!("{what} (task {task}) invoked [{}], the isolated run invokes [{}]", f(&mine), f(bl))))
                    } else {
                        None
                    }
                }
            }
        };
        for t in 0..n {
            if problem.is_some() {
                break;
            }
            if dropped[t] {
                continue;
            }
            if let Some(r) = &results[t] {
                problem = check(t, sc.tasks[t], r, "interleaved evaluation");
            }
        }
        if problem.is_none() {
            if let Some(f) = &fresh {
                problem = check(fresh_task, sc.tasks[0], f, "evaluation after an abandoned one");
            }
        }
        let completed = results.iter().filter(|r| matches!(r, Some(Ok(_)))).count();
        acc.outcome(format!("{}:completed={completed}:dropped={}", sc.mode as u8, dropped.iter().filter(|d| **d).count()));
        if let Some((which, desc)) = problem {
            acc.violation(Violation {
                sig: format!("{}/{which}", sc.label),
                what: format!("{} schedule [{}]: {desc}", sc.label, trace.join(" ")),
                case: json!({"kind": "schedule", "scenario": sc.label, "trace": trace}),
                size: trace.len(),
            });
        }
    });
    acc.sample("scenario", 6, || json!({"scenario": sc.label, "rules": sc.rules}));
    match res {
        Ok(s) => s,
        Err((s, m)) => {
            acc.machinery(format!("{}: {m}", sc.label));
            s
        }
    }
}

/// repetition and long histories (single path each; deterministic)
fn sequential_legs(fam: &Family, rules: &[String], baselines: &[(Outs, Vec<(String, RV)>)], abandon_n: usize, acc: &mut Acc) {
    let world = Arc::new(Mutex::new(World::default()));
    let rs = match build(rules, &world) {
        Ok(r) => r,
        Err(m) => return acc.machinery(m),
    };
    // (a) repetition: same input three times, outcomes equal, input unchanged
    let n_in = fam.inputs.len();
    for step in 0..(3 * n_in) {
        // inputs alternate, so a value remembered from the previous (different) input shows
        let (ii, round) = (step % n_in, step / n_in);
        let input = &fam.inputs[ii];
        let facts = input.to_value();
        {
            acc.count("executions", 1);
            let r = catch(|| crate::engine::exec::block_on(rs.evaluate_value(&facts)));
            let got = match r {
                Ok(Ok(o)) => owned(o),
                other => Err(format!("{:?}", other.map(|_| ()))),
            };
            if got.as_ref().ok() != Some(&baselines[ii].0) || RV::from_value(&facts) != *input {
                acc.violation(Violation {
                    sig: format!("{}/repetition", fam.name),
                    what: format!("{}: run {round} on input {ii} differs from the isolated run or changed its input", fam.name),
                    case: json!({"kind": "repetition", "family": fam.name}),
                    size: round,
                });
            }
            acc.outcome("repetition");
        }
    }
    // (d') long history: abandon the same evaluation N times at its k-th suspension, then run fresh
    let calls = baselines[0].1.len();
    for k in 1..=calls {
        let facts = fam.inputs[0].to_value();
        for _ in 0..abandon_n {
            // suspend every call once; poll until the k-th Pending, then drop
            {
                let mut g = world.lock().unwrap();
                g.chooser = None;
                g.max_susp = 0;
            }
            let always = Arc::new(Mutex::new(crate::engine::choice::Chooser::with_prefix(vec![1; 64])));
            {
                let mut g = world.lock().unwrap();
                g.chooser = Some(always);
                g.max_susp = 1;
            }
            let wc = Arc::new(WakeCount::default());
            let mut fut: EvalFut = Box::pin(rs.evaluate_value(&facts));
            let mut pend = 0;
            loop {
                match catch(|| poll_once(fut.as_mut(), &wc)) {
                    Ok(Poll::Pending) => {
                        pend += 1;
                        if pend >= k {
                            break;
                        }
                    }
                    _ => break,
                }
            }
            drop(fut);
        }
        {
            let mut g = world.lock().unwrap();
            g.chooser = None;
            g.max_susp = 0;
            g.log.clear();
            g.current = 0;
        }
        acc.count("executions", 1);
        acc.count("abandonments", abandon_n as u64);
        let r = catch(|| crate::engine::exec::block_on(rs.evaluate_value(&facts)));
        let got = match r {
            Ok(Ok(o)) => owned(o),
            other => Err(format!("{:?}", other.map(|_| ()))),
        };
        let log: Vec<(String, RV)> = world.lock().unwrap().log.iter().map(|(_, n, a)| (n.clone(), a.clone())).collect();
        if got.as_ref().ok() != Some(&baselines[0].0) || log != baselines[0].1 {
            acc.violation(Violation {
                sig: format!("{}/after-{abandon_n}-abandonments", fam.name),
                what: format!(
                    "{}: after abandoning an evaluation {abandon_n} times at its suspension #{k}, a fresh evaluation gives {:?} (isolated run: {:?})",
                    fam.name,
                    got.as_ref().map(|o| o.iter().map(|x| x.1.show()).collect::<Vec<_>>()),
                    baselines[0].0.iter().map(|x| x.1.show()).collect::<Vec<_>>()
                ),
                case: json!({"kind": "long-history", "family": fam.name, "suspension": k, "times": abandon_n}),
                size: k,
            });
        }
        acc.outcome("long-history");
    }
}

/// N evaluations all suspended 150 levels deep at the same time (bookkeeping summed over all
/// in-flight evaluations), resumed in order and in reverse order: a few fixed schedules
fn pile_up_leg(acc: &mut Acc, n: usize) {
    let world = Arc::new(Mutex::new(World::default()));
    let rules = vec![nested_call(150), "c(other)".to_string()];
    let rs = match build(&rules, &world) {
        Ok(r) => r,
        Err(m) => return acc.machinery(m),
    };
    let inputs: Vec<RV> = (0..n).map(|i| RV::map(&[("id", RV::Int(i as i128)), ("other", RV::Int(100 + i as i128))])).collect();
    let bases: Vec<_> = match inputs.iter().map(|i| baseline(&rules, i)).collect::<Result<Vec<_>, _>>() {
        Ok(b) => b,
        Err(m) => return acc.machinery(m),
    };
    let facts: Vec<Value> = inputs.iter().map(|i| i.to_value()).collect();
    for reverse in [false, true] {
        let always = Arc::new(Mutex::new(crate::engine::choice::Chooser::with_prefix(vec![1; 4 * n + 8])));
        {
            let mut g = world.lock().unwrap();
            g.chooser = Some(always);
            g.max_susp = 1;
            g.log.clear();
        }
        let wc = Arc::new(WakeCount::default());
        let mut futs: Vec<Option<EvalFut>> = facts.iter().map(|f| Some(Box::pin(rs.evaluate_value(f)) as EvalFut)).collect();
        let mut results: Vec<Option<Result<Outs, String>>> = (0..n).map(|_| None).collect();
        // first: every evaluation polled once (all suspended deep inside the first rule)
        let mut order: Vec<usize> = (0..n).collect();
        loop {
            let live: Vec<usize> = order.iter().copied().filter(|&t| futs[t].is_some()).collect();
            if live.is_empty() {
                break;
            }
            for t in live {
                world.lock().unwrap().current = t;
                match catch(|| poll_once(futs[t].as_mut().unwrap().as_mut(), &wc)) {
                    Ok(Poll::Ready(o)) => {
                        futs[t] = None;
                        results[t] = Some(owned(o));
                    }
                    Ok(Poll::Pending) => {}
                    Err(p) => {
                        futs[t] = None;
                        results[t] = Some(Err(format!("PANIC: {p}")));
                    }
                }
            }
            if reverse {
                order.reverse();
            }
        }
        acc.count("executions", n as u64);
        for t in 0..n {
            if results[t].as_ref().and_then(|r| r.as_ref().ok()) != Some(&bases[t].0) {
                acc.violation(Violation {
                    sig: "pile-up/outcome".into(),
                    what: format!("{n} evaluations suspended 150 levels deep at the same time: evaluation {t} returned {:?}, alone it returns the nested list", results[t].as_ref().map(|r| r.as_ref().map(|o| o.iter().map(|x| x.1.class()).collect::<Vec<_>>()))),
                    case: json!({"kind": "pile-up", "n": n}),
                    size: t,
                });
                break;
            }
        }
        world.lock().unwrap().chooser = None;
        acc.outcome("pile-up");
    }
}

/// N evaluations of one ruleset in flight at the same time (N above every plausible pool size),
/// their arguments overlapping, every call suspending once.  Schedules: round-robin forwards and
/// backwards, and for every evaluation v: all polled twice, v driven to completion, then the rest.
/// Oracle: outcomes and per-evaluation call log of the isolated run.
fn crowd_leg(acc: &mut Acc, n: usize) {
    let world = Arc::new(Mutex::new(World::default()));
    let rules: Vec<String> = ["c(id)", "c(other)", "[c(id), n(id)]", "c(third)", "c(id)"].iter().map(|s| s.to_string()).collect();
    let rs = match build(&rules, &world) {
        Ok(r) => r,
        Err(m) => return acc.machinery(m),
    };
    let inputs: Vec<RV> = (0..n).map(|i| RV::map(&[("id", RV::Int(i as i128)), ("other", RV::Int(((i + 1) % n) as i128)), ("third", RV::Int(((i + n / 2) % n) as i128))])).collect();
    let bases: Vec<_> = match inputs.iter().map(|i| baseline(&rules, i)).collect::<Result<Vec<_>, _>>() {
        Ok(b) => b,
        Err(m) => return acc.machinery(m),
    };
    let facts: Vec<Value> = inputs.iter().map(|i| i.to_value()).collect();
    // schedule = (label, victim): victim None = plain round-robin
    let mut schedules: Vec<(String, Option<usize>, bool)> = vec![("forward".into(), None, false), ("reverse".into(), None, true)];
    for v in 0..n {
        schedules.push((format!("finish-{v}-early"), Some(v), false));
    }
    for (label, victim, reverse) in schedules {
        let always = Arc::new(Mutex::new(crate::engine::choice::Chooser::with_prefix(vec![1; 16 * n + 16])));
        {
            let mut g = world.lock().unwrap();
            g.chooser = Some(always);
            g.max_susp = 1;
            g.log.clear();
        }
        let wc = Arc::new(WakeCount::default());
        let mut futs: Vec<Option<EvalFut>> = facts.iter().map(|f| Some(Box::pin(rs.evaluate_value(f)) as EvalFut)).collect();
        let mut results: Vec<Option<Result<Outs, String>>> = (0..n).map(|_| None).collect();
        let mut poll = |t: usize, futs: &mut Vec<Option<EvalFut>>, results: &mut Vec<Option<Result<Outs, String>>>| {
            if futs[t].is_none() {
                return;
            }
            world.lock().unwrap().current = t;
            match catch(|| poll_once(futs[t].as_mut().unwrap().as_mut(), &wc)) {
                Ok(Poll::Ready(o)) => {
                    futs[t] = None;
                    results[t] = Some(owned(o));
                }
                Ok(Poll::Pending) => {}
                Err(p) => {
                    futs[t] = None;
                    results[t] = Some(Err(format!("PANIC: {p}")));
                }
            }
        };
        let mut order: Vec<usize> = (0..n).collect();
        if reverse {
            order.reverse();
        }
        if let Some(v) = victim {
            for _ in 0..2 {
                for &t in &order {
                    poll(t, &mut futs, &mut results);
                }
            }
            for _ in 0..64 {
                poll(v, &mut futs, &mut results);
            }
        }
        for _ in 0..64 {
            if futs.iter().all(|f| f.is_none()) {
                break;
            }
            for &t in &order {
                poll(t, &mut futs, &mut results);
            }
        }
        drop(futs);
        acc.count("executions", n as u64);
        acc.count("crowd_schedules", 1);
        let log = std::mem::take(&mut world.lock().unwrap().log);
        for t in 0..n {
            let my_log: Vec<(String, RV)> = log.iter().filter(|l| l.0 == t).map(|l| (l.1.clone(), l.2.clone())).collect();
            let ok_out = results[t].as_ref().and_then(|r| r.as_ref().ok()) == Some(&bases[t].0);
            if !ok_out || my_log != bases[t].1 {
                let f = |l: &[(String, RV)]| l.iter().map(|(n, a)| format!("{n}({})", a.show())).collect::<Vec<_>>().join(" ");
                acc.violation(Violation {
                    sig: format!("crowd/{}", if ok_out { "calls" } else { "outcome" }),
                    what: format!(
                        "{n} evaluations of one ruleset in flight, schedule {label}: evaluation {t} returned {:?} with calls [{}]; alone it returns {:?} with calls [{}]",
                        results[t].as_ref().map(|r| r.as_ref().map(|o| o.iter().map(|x| x.1.show()).collect::<Vec<_>>())),
                        f(&my_log),
                        bases[t].0.iter().map(|x| x.1.show()).collect::<Vec<_>>(),
                        f(&bases[t].1)
                    ),
                    case: json!({"kind": "crowd", "n": n, "schedule": label}),
                    size: n * 1000 + t,
                });
                break;
            }
        }
        world.lock().unwrap().chooser = None;
        acc.outcome("crowd");
    }
}


/// a user function that stays pending until its gate is opened (it wakes its task on every poll,
/// as a function waiting on a busy backend polled by a simple executor does)
struct GateFn {
    gate: Arc<std::sync::atomic::AtomicBool>,
    entered: Arc<std::sync::atomic::AtomicUsize>,
}
struct WaitForGate(Arc<std::sync::atomic::AtomicBool>);
impl Future for WaitForGate {
    type Output = ();
    fn poll(self: Pin<&mut Self>, cx: &mut std::task::Context<'_>) -> Poll<()> {
        if self.0.load(Ordering::SeqCst) {
            Poll::Ready(())
        } else {
            cx.waker().wake_by_ref();
            Poll::Pending
        }
    }
}
#[async_trait::async_trait]
impl UserFunction for GateFn {
    async fn call(&self, p: Value) -> FunctionResult {
        self.entered.fetch_add(1, Ordering::SeqCst);
        WaitForGate(self.gate.clone()).await;
        match p {
            Value::Int(i) => Ok(Value::Int(i * 2)),
            other => Ok(other),
        }
    }
    fn name(&self) -> &'static str {
        "g"
    }
    fn cacheable(&self) -> bool {
        false
    }
}

/// Very many evaluations of one ruleset in flight at once, all waiting inside a user function;
/// some of them are then abandoned (the last ones started and every 13th), the backend answers,
/// the rest run to completion, and fresh evaluations are made afterwards.  Every evaluation that
/// was not abandoned returns what it returns alone, and every fresh one completes.  Sizes straddle
/// the powers of two a bounded pool or counter would be sized with.
pub fn gate_crowd_leg(acc: &mut Acc, n: usize, prop: &str) {
    use std::sync::atomic::{AtomicBool, AtomicUsize};
    let gate = Arc::new(AtomicBool::new(false));
    let entered = Arc::new(AtomicUsize::new(0));
    let rs = match ruleset()
        .with_rule(Rule::new("doubled", BTreeMap::new(), Expr::func("g", Expr::reff("id"))))
        .and_then(|b| b.with_rule(Rule::new("plain", BTreeMap::new(), Expr::add(Expr::reff("id"), Expr::value(1i128)))))
        .and_then(|b| b.with_function(GateFn { gate: gate.clone(), entered: entered.clone() }))
    {
        Ok(b) => b.build(),
        Err(e) => return acc.machinery(format!("gate crowd: {e}")),
    };
    let facts: Vec<Value> = (0..n + 8).map(|i| Value::Map([("id".to_string(), Value::Int(i as i128))].into_iter().collect())).collect();
    let want = |i: usize| vec![format!("doubled=Ok(Int({}))", 2 * i), format!("plain=Ok(Int({}))", i + 1)];
    let show = |o: reval::Result<Vec<reval::ruleset::Outcome<'_>>>| -> Vec<String> {
        match o {
            Ok(out) => out.iter().map(|x| format!("{}={:?}", x.rule.name(), x.value.as_ref().map_err(|e| e.to_string()))).collect(),
            Err(e) => vec![format!("evaluation failed: {e}")],
        }
    };
    let case = json!({"kind": "gate-crowd", "n": n, "property": prop});
    let wc = Arc::new(WakeCount::default());
    let mut futs: Vec<Option<EvalFut>> = facts[..n].iter().map(|f| Some(Box::pin(rs.evaluate_value(f)) as EvalFut)).collect();
    let mut results: Vec<Option<Vec<String>>> = (0..n).map(|_| None).collect();
    let mut panicked: Option<String> = None;
    // phase 1: start them all (two polls each): every one is now waiting inside `g`, or wherever the
    // library makes it wait
    for _ in 0..2 {
        for t in 0..n {
            if let Some(f) = futs[t].as_mut() {
                match catch(|| poll_once(f.as_mut(), &wc)) {
                    Ok(Poll::Ready(o)) => {
                        results[t] = Some(show(o));
                        futs[t] = None;
                    }
                    Ok(Poll::Pending) => {}
                    Err(p) => {
                        panicked = Some(p);
                        futs[t] = None;
                    }
                }
            }
        }
    }
    let waiting_inside = entered.load(Ordering::SeqCst);
    // phase 2: abandon the 7 % started last and every 13th of the others
    let mut abandoned = vec![false; n];
    for t in 0..n {
        if t >= n - n / 14 || t % 13 == 5 {
            abandoned[t] = true;
            futs[t] = None;
        }
    }
    // phase 3: the backend answers; everything left runs to completion
    gate.store(true, Ordering::SeqCst);
    for _round in 0..64 {
        if futs.iter().all(|f| f.is_none()) {
            break;
        }
        for t in 0..n {
            if let Some(f) = futs[t].as_mut() {
                match catch(|| poll_once(f.as_mut(), &wc)) {
                    Ok(Poll::Ready(o)) => {
                        results[t] = Some(show(o));
                        futs[t] = None;
                    }
                    Ok(Poll::Pending) => {}
                    Err(p) => {
                        panicked = Some(p);
                        futs[t] = None;
                    }
                }
            }
        }
    }
    acc.count("executions", n as u64);
    let stuck = futs.iter().filter(|f| f.is_some()).count();
    drop(futs);
    if let Some(p) = panicked {
        acc.violation(Violation { sig: "gate-crowd/panic".into(), what: format!("{n} evaluations in flight: panicked: {p}"), case: case.clone(), size: n });
    }
    if stuck > 0 {
        acc.violation(Violation {
            sig: "gate-crowd/stuck".into(),
            what: format!("{n} evaluations of one ruleset in flight ({waiting_inside} calls had reached the user function), {} abandoned, then the function answers: {stuck} of the remaining evaluations are still pending after 64 more polls each", abandoned.iter().filter(|a| **a).count()),
            case: case.clone(),
            size: n,
        });
    }
    if let Some(t) = (0..n).find(|t| !abandoned[*t] && results[*t].is_some() && results[*t].as_ref() != Some(&want(*t))) {
        acc.violation(Violation {
            sig: "gate-crowd/outcome".into(),
            what: format!("{n} evaluations of one ruleset in flight: evaluation {t} returned {:?}, alone it returns {:?}", results[t], want(t)),
            case: case.clone(),
            size: n,
        });
    }
    // phase 4: fresh evaluations afterwards
    for k in 0..8 {
        let i = n + k;
        let mut f: EvalFut = Box::pin(rs.evaluate_value(&facts[i]));
        let mut got = None;
        for _ in 0..10_000 {
            match catch(|| poll_once(f.as_mut(), &wc)) {
                Ok(Poll::Ready(o)) => {
                    got = Some(show(o));
                    break;
                }
                Ok(Poll::Pending) => {}
                Err(p) => {
                    got = Some(vec![format!("PANIC {p}")]);
                    break;
                }
            }
        }
        acc.count("executions", 1);
        if got.as_ref() != Some(&want(i)) {
            acc.violation(Violation {
                sig: format!("gate-crowd/afterwards/{}", if got.is_none() { "never-completes" } else { "outcome" }),
                what: format!(
                    "after {n} evaluations of one ruleset were in flight at once ({waiting_inside} inside the user function) and {} of them were abandoned, a fresh evaluation {}",
                    abandoned.iter().filter(|a| **a).count(),
                    match &got {
                        None => "is still pending after 10000 polls although its user function answers at once".to_string(),
                        Some(g) => format!("returns {g:?} instead of {:?}", want(i)),
                    }
                ),
                case: case.clone(),
                size: n,
            });
            break;
        }
    }
    acc.outcome("gate-crowd");
}


/// a user function that evaluates the very ruleset it is registered in (on a smaller input) before
/// answering: evaluation is re-entrant — nothing is held across a user-function call that a nested
/// evaluation of the same ruleset needs
struct Reenter {
    rs: Arc<std::sync::OnceLock<Arc<RuleSet>>>,
    cacheable: bool,
    name: &'static str,
}
#[async_trait::async_trait]
impl UserFunction for Reenter {
    async fn call(&self, p: Value) -> FunctionResult {
        let n = match p {
            Value::Int(n) => n,
            other => return Ok(other),
        };
        if n <= 0 {
            return Ok(Value::Int(0));
        }
        let rs = self.rs.get().ok_or_else(|| anyhow::anyhow!("ruleset not published"))?.clone();
        let facts = Value::Map([("id".to_string(), Value::Int(n - 1))].into_iter().collect());
        let out = rs.evaluate_value(&facts).await.map_err(|e| anyhow::anyhow!("nested evaluation failed: {e}"))?;
        match out.first().map(|o| &o.value) {
            Some(Ok(Value::Int(k))) => Ok(Value::Int(k + 1)),
            other => Err(anyhow::anyhow!("nested evaluation returned {:?}", other.map(|r| r.as_ref().map_err(|e| e.to_string())))),
        }
    }
    fn name(&self) -> &'static str {
        self.name
    }
    fn cacheable(&self) -> bool {
        self.cacheable
    }
}

pub fn reentrant_leg(acc: &mut Acc) {
    for cacheable in [false, true] {
        // every level evaluates all rules, so a non-cacheable function makes 3^depth nested evaluations
        for depth in if cacheable { vec![1i128, 2, 5, 40] } else { vec![1i128, 2, 5, 7] } {
            let slot: Arc<std::sync::OnceLock<Arc<RuleSet>>> = Arc::new(std::sync::OnceLock::new());
            let rs = ruleset()
                .with_rule(Rule::new("count", BTreeMap::new(), Expr::func("again", Expr::reff("id"))))
                .and_then(|b| b.with_rule(Rule::new("twice", BTreeMap::new(), Expr::Vec(vec![Expr::func("again", Expr::reff("id")), Expr::func("again", Expr::reff("id"))]))))
                .and_then(|b| b.with_function(Reenter { rs: slot.clone(), cacheable, name: "again" }));
            let rs = match rs {
                Ok(b) => Arc::new(b.build()),
                Err(e) => return acc.machinery(format!("re-entrant leg: {e}")),
            };
            let _ = slot.set(rs.clone());
            let facts = Value::Map([("id".to_string(), Value::Int(depth))].into_iter().collect());
            acc.count("executions", 1);
            let got = catch(|| crate::engine::exec::block_on(rs.evaluate_value(&facts)));
            let shown: Vec<String> = match &got {
                Ok(Ok(Ok(out))) => out.iter().map(|o| format!("{:?}", o.value.as_ref().map_err(|e| e.to_string()))).collect(),
                Ok(Ok(Err(e))) => vec![format!("evaluation failed: {e}")],
                Ok(Err(m)) => vec![format!("did not complete: {m}")],
                Err(p) => vec![format!("PANIC {p}")],
            };
            let want = vec![format!("Ok(Int({depth}))"), format!("Ok(Vec([Int({depth}), Int({depth})]))")];
            if shown != want {
                acc.violation(Violation {
                    sig: format!("re-entrant/{}", if cacheable { "cacheable" } else { "plain" }),
                    what: format!("a {} user function that evaluates its own ruleset {depth} levels deep: outcomes {shown:?}, expected {want:?}", if cacheable { "cacheable" } else { "non-cacheable" }),
                    case: json!({"kind": "re-entrant"}),
                    size: depth as usize,
                });
            }
            // break the reference cycle ruleset -> function -> slot -> ruleset
            drop(rs);
        }
    }
    acc.outcome("re-entrant");
}

/// Rule objects travel between rulesets: a rule taken from an outcome of ruleset A (or cloned
/// before / after A was evaluated) is registered in ruleset B, whose symbols and input differ.
/// Every chain of up to three rulesets over three symbol tables; oracle = the same rule text
/// parsed afresh in a fresh ruleset with B's symbols.
fn rule_reuse_leg(acc: &mut Acc) {
    let texts = [":limit * i2", "i1 + i1", ":limit", "if :flag then :limit else i0", "c(:limit)", "id + :limit", "[:limit, id]", ":table.k", "is_some(:opt)"];
    let tables: Vec<Vec<(&str, RV)>> = vec![
        vec![("limit", RV::Int(10)), ("flag", RV::Bool(true)), ("table", RV::map(&[("k", RV::Int(1))])), ("opt", RV::None)],
        vec![("limit", RV::Int(50)), ("flag", RV::Bool(false)), ("table", RV::map(&[("k", RV::Int(2))])), ("opt", RV::Int(1))],
        vec![("limit", RV::str("fifty")), ("flag", RV::Bool(true)), ("table", RV::List(vec![])), ("opt", RV::None)],
    ];
    let inputs = [RV::map(&[("id", RV::Int(1))]), RV::map(&[("id", RV::Int(2))])];
    let world = Arc::new(Mutex::new(World::default()));
    let h = handler(&world);
    let make = |rules: Vec<Rule>, table: &Vec<(&str, RV)>| -> Result<RuleSet, String> {
        let mut b = ruleset();
        for (n, v) in table {
            b = b.with_symbol(n, v.to_value());
        }
        b = b.with_rules(rules).map_err(|e| e.to_string())?;
        b = b.with_function(probe("c", true, &h)).map_err(|e| e.to_string())?;
        Ok(b.build())
    };
    let fresh_rules = || -> Vec<Rule> {
        texts.iter().enumerate().map(|(i, t)| if i % 2 == 0 { Rule::parse(&format!("// r{i}\n{t}")).unwrap() } else { Rule::new(format!("r{i}"), BTreeMap::new(), Expr::parse(t).unwrap()) }).collect()
    };
    let eval = |rs: &RuleSet, input: &RV| -> Result<(Outs, Vec<Rule>), String> {
        let facts = input.to_value();
        let out = catch(|| crate::engine::exec::block_on(rs.evaluate_value(&facts))).map_err(|p| format!("panicked: {p}"))??.map_err(|e| e.to_string())?;
        let rules: Vec<Rule> = out.iter().map(|o| o.rule.clone()).collect();
        Ok((out.into_iter().map(|o| (o.rule.name().to_string(), observe(Ok(o.value)))).collect(), rules))
    };
    // baselines: fresh rules, fresh ruleset, per (table, input)
    let mut base: BTreeMap<(usize, usize), Outs> = BTreeMap::new();
    for ti in 0..tables.len() {
        for ii in 0..inputs.len() {
            match make(fresh_rules(), &tables[ti]).and_then(|rs| eval(&rs, &inputs[ii])) {
                Ok((o, _)) => {
                    base.insert((ti, ii), o);
                }
                Err(m) => return acc.machinery(format!("rule-reuse baseline: {m}")),
            }
        }
    }
    let nt = tables.len();
    for chain in 0..(nt * nt * nt) {
        let tis = [chain % nt, chain / nt % nt, chain / nt / nt];
        for carry in ["from-outcome", "clone-before-evaluation"] {
            let mut rules = fresh_rules();
            for (step, &ti) in tis.iter().enumerate() {
                let ii = (step + chain) % inputs.len();
                let kept = rules.clone();
                let rs = match make(rules, &tables[ti]) {
                    Ok(r) => r,
                    Err(m) => return acc.machinery(format!("rule-reuse: {m}")),
                };
                acc.count("executions", 1);
                acc.count("rule_reuse_evaluations", 1);
                let got = eval(&rs, &inputs[ii]);
                let ok = matches!(&got, Ok((o, _)) if Some(o) == base.get(&(ti, ii)));
                if !ok {
                    acc.violation(Violation {
                        sig: format!("rule-reuse/{carry}"),
                        what: format!(
                            "rules carried ({carry}) through rulesets with symbol tables {:?}: at step {step} the outcomes are {:?}, freshly parsed rules give {:?}",
                            &tis[..=step],
                            got.as_ref().map(|(o, _)| o.iter().map(|x| x.1.show()).collect::<Vec<_>>()),
                            base.get(&(ti, ii)).map(|o| o.iter().map(|x| x.1.show()).collect::<Vec<_>>())
                        ),
                        case: json!({"kind": "rule-reuse", "chain": tis, "carry": carry}),
                        size: step * 100 + chain,
                    });
                    break;
                }
                rules = if carry == "from-outcome" { got.unwrap().1 } else { kept };
                // a carried rule is still the rule that was written
                let f = fresh_rules();
                if rules != f {
                    acc.violation(Violation {
                        sig: "rule-reuse/rule-changed".into(),
                        what: format!("a rule taken from an outcome no longer equals the rule that was registered (chain {:?}, step {step})", tis),
                        case: json!({"kind": "rule-reuse", "chain": tis, "carry": carry}),
                        size: step,
                    });
                    break;
                }
            }
        }
    }
    acc.outcome("rule-reuse");
}

/// Real time must not be an input: one evaluation in which `secs` seconds of wall-clock time pass
/// (inside a user function) between two uses of the same cacheable call gives the outcomes and the
/// call log of the instantaneous run.  (reval reads no clock today; a bounded wait is all a check
/// can do about one it might read tomorrow, so the scan of /repo/src for clock reads is reported
/// next to it.)
fn real_time_leg(acc: &mut Acc, secs: u64) {
    let rules: Vec<String> = ["c(id)", "slow(i0)", "[c(id), n(id), c(other)]", "c(id) == c(id)"].iter().map(|s| s.to_string()).collect();
    let input = RV::map(&[("id", RV::Int(1)), ("other", RV::Int(2))]);
    let (base_out, base_log) = match baseline(&rules, &input) {
        Ok(b) => b,
        Err(m) => return acc.machinery(m),
    };
    let world = Arc::new(Mutex::new(World::default()));
    let rs = match build(&rules, &world) {
        Ok(r) => r,
        Err(m) => return acc.machinery(m),
    };
    world.lock().unwrap().slow_ms = secs * 1000;
    acc.count("executions", 1);
    let facts = input.to_value();
    let got = match catch(|| crate::engine::exec::block_on(rs.evaluate_value(&facts))) {
        Ok(Ok(o)) => owned(o),
        other => Err(format!("{:?}", other.map(|_| ()))),
    };
    let log: Vec<(String, RV)> = world.lock().unwrap().log.iter().map(|(_, n, a)| (n.clone(), a.clone())).collect();
    if got.as_ref().ok() != Some(&base_out) || log != base_log {
        let f = |l: &[(String, RV)]| l.iter().map(|(n, a)| format!("{n}({})", a.show())).collect::<Vec<_>>().join(" ");
        acc.violation(Violation {
            sig: "real-time/outcome-or-calls".into(),
            what: format!("an evaluation during which {secs} s of real time pass inside a user function made the calls [{}] and returned {:?}; the instantaneous run makes [{}]", f(&log), got.as_ref().map(|o| o.iter().map(|x| x.1.show()).collect::<Vec<_>>()), f(&base_log)),
            case: json!({"kind": "real-time", "seconds": secs}),
            size: secs as usize,
        });
    }
    acc.outcome("real-time");
}

/// source lines of reval that read a clock or a random source
fn clock_scan() -> Vec<String> {
    let mut hits = Vec::new();
    fn walk(dir: &std::path::Path, hits: &mut Vec<String>) {
        if let Ok(rd) = std::fs::read_dir(dir) {
            for e in rd.flatten() {
                let p = e.path();
                if p.is_dir() {
                    walk(&p, hits);
                } else if p.extension().map(|x| x == "rs" || x == "lalrpop").unwrap_or(false) {
                    if let Ok(text) = std::fs::read_to_string(&p) {
                        for (i, l) in text.lines().enumerate() {
                            if ["Instant::now", "SystemTime::now", "Utc::now", "Local::now", "elapsed()", "rand::", "RandomState", "thread_rng", "getrandom"].iter().any(|k| l.contains(k)) && !l.trim_start().starts_with("//") {
                                hits.push(format!("{}:{}: {}", p.display(), i + 1, l.trim()));
                            }
                        }
                    }
                }
            }
        }
    }
    walk(&std::path::Path::new(&crate::engine::report::repo_dir()).join("src"), &mut hits);
    hits
}

/// state that builds up over many *different* inputs (process-wide memo tables, bounded caches):
/// evaluate N distinct inputs, then the first ones again; every outcome must equal the one the same
/// input produced the first time round and the reference value
fn many_inputs_leg(acc: &mut Acc, n: usize) {
    let world = Arc::new(Mutex::new(World::default()));
    let rules: Vec<String> = ["datetime(ts)", "year(datetime(ts)) * i100 + month(datetime(ts))", "int(num) + i1", "uppercase(name)", "c(name)", "dec(price)", "datetime(secs)"].iter().map(|s| s.to_string()).collect();
    let rs = match build(&rules, &world) {
        Ok(r) => r,
        Err(m) => return acc.machinery(m),
    };
    let input = |i: usize| -> (Value, (i64, u32, u32)) {
        let day = i as i64;
        let secs = 946_684_800 + day * 86_400 + 3_600;
        let (y, m, d, ..) = crate::spec::civil::components(secs);
        let ts = format!("{y:04}-{m:02}-{d:02}T01:00:00Z");
        let v = Value::Map(
            [
                ("ts".to_string(), Value::String(ts)),
                ("num".to_string(), Value::String(format!("{}", i * 7919))),
                ("name".to_string(), Value::String(format!("name{i}"))),
                ("price".to_string(), Value::String(format!("{}.{:02}", i, i % 100))),
                ("secs".to_string(), Value::Int(secs as i128)),
            ]
            .into_iter()
            .collect(),
        );
        (v, (y, m, d))
    };
    let mut first: Vec<Outs> = Vec::new();
    let order: Vec<usize> = (0..n).chain(0..n.min(40)).chain((0..n).rev().take(40)).collect();
    for &i in &order {
        let (facts, (y, m, _)) = input(i);
        acc.count("executions", 1);
        let out = match catch(|| crate::engine::exec::block_on(rs.evaluate_value(&facts))) {
            Ok(Ok(o)) => owned(o),
            other => Err(format!("{:?}", other.map(|_| ()))),
        };
        let out = match out {
            Ok(o) => o,
            Err(m) => {
                acc.violation(Violation { sig: "many-inputs/failed".into(), what: format!("evaluation of input #{i} failed: {m}"), case: json!({"kind": "many-inputs", "input": i}), size: i });
                return;
            }
        };
        // independent expectation for the calendar rule
        let want = RV::Int(y as i128 * 100 + m as i128);
        if out[1].1 != Obs::Ok(want.clone()) {
            acc.violation(Violation {
                sig: "many-inputs/value".into(),
                what: format!("input #{i} (after {} other evaluations): year*100+month = {}, expected {}", first.len(), out[1].1.show(), want.show()),
                case: json!({"kind": "many-inputs", "input": i}),
                size: i,
            });
            return;
        }
        if i < first.len() {
            if first[i] != out {
                acc.violation(Violation {
                    sig: "many-inputs/changed".into(),
                    what: format!("input #{i} gives different outcomes the second time, after {} other evaluations on the same ruleset", order.len()),
                    case: json!({"kind": "many-inputs", "input": i}),
                    size: i,
                });
                return;
            }
        } else {
            first.push(out);
        }
    }
    acc.outcome("many-inputs");
}

/// Expr::evaluate: repeated and interleaved polls of several evaluations of one expression
fn expr_leg(acc: &mut Acc) {
    let texts = ["a + b * i2", "if a > b then [a, b] else {k: a}", "a / (b - b)", "uppercase(s) contains \"X\""];
    let inputs = [
        RV::map(&[("a", RV::Int(3)), ("b", RV::Int(2)), ("s", RV::str("x"))]),
        RV::map(&[("a", RV::Int(1)), ("b", RV::Int(5)), ("s", RV::str("y"))]),
    ];
    for t in texts {
        let e = match Expr::parse(t) {
            Ok(e) => e,
            Err(m) => {
                acc.machinery(m.to_string());
                continue;
            }
        };
        let before = e.clone();
        let base: Vec<Obs> = inputs.iter().map(|i| super::common::eval_expr(&e, &i.to_value())).collect();
        // all interleavings of creating/polling two evaluations (each completes in one poll)
        for order in [[0usize, 1], [1, 0]] {
            let facts: Vec<Value> = inputs.iter().map(|i| i.to_value()).collect();
            let mut futs: Vec<Pin<Box<dyn Future<Output = reval::Result<Value>> + '_>>> = vec![Box::pin(e.evaluate(&facts[0])), Box::pin(e.evaluate(&facts[1]))];
            let wc = Arc::new(WakeCount::default());
            let mut got: Vec<Option<Obs>> = vec![None, None];
            for &t in &order {
                match catch(|| poll_once(futs[t].as_mut(), &wc)) {
                    Ok(Poll::Ready(v)) => got[t] = Some(observe(Ok(v))),
                    Ok(Poll::Pending) => got[t] = Some(Obs::Panic("pending without user functions".into())),
                    Err(p) => got[t] = Some(Obs::Panic(p)),
                }
            }
            acc.count("executions", 2);
            for t in 0..2 {
                if got[t].as_ref() != Some(&base[t]) {
                    acc.violation(Violation {
                        sig: format!("expr/{t}"),
                        what: format!("Expr::evaluate of {t:?}: interleaved result {:?} differs from {:?}", got[t].as_ref().map(|o| o.show()), base[t].show()),
                        case: json!({"kind": "expr", "text": t}),
                        size: 1,
                    });
                }
            }
            drop(futs);
        }
        if e != before {
            acc.violation(Violation { sig: "expr/mutated".into(), what: format!("expression {t:?} changed by evaluation"), case: json!({"kind": "expr", "text": t}), size: 1 });
        }
        acc.outcome("expr");
    }
}

pub fn run(tier: Tier) -> i32 {
    let mut rep = Report::new("C12", tier);
    let fams = families();
    let mut scenarios_owned: Vec<(usize, String, Vec<usize>, u32, Mode)> = Vec::new();
    let mut fam_rules: Vec<Vec<String>> = Vec::new();
    let mut fam_base: Vec<Vec<(Outs, Vec<(String, RV)>)>> = Vec::new();
    for (fi, f) in fams.iter().enumerate() {
        let rules: Vec<String> = f.rules.iter().map(|s| s.to_string()).collect();
        let mut bases = Vec::new();
        for i in &f.inputs {
            match baseline(&rules, i) {
                Ok(b) => bases.push(b),
                Err(m) => {
                    // a plain, never-suspending evaluation driven by a wake-respecting executor
                    // did not complete: that is already schedule dependence
                    rep.acc.outcome("baseline-failed");
                    rep.acc.violation(Violation {
                        sig: format!("{}/baseline", f.name),
                        what: format!("{}: an isolated evaluation did not complete under a wake-driven executor: {m}", f.name),
                        case: json!({"kind": "baseline", "family": f.name}),
                        size: 1,
                    });
                    rep.states = 1;
                    rep.transitions = 1;
                    rep.traces = 1;
                    return rep.finish();
                }
            }
        }
        fam_rules.push(rules);
        fam_base.push(bases);
        let k = tier.pick(1, 2);
        // (b) one evaluation, every suspension assignment
        scenarios_owned.push((fi, format!("{}/single/k{k}", f.name), vec![0], k, Mode::Interleave));
        scenarios_owned.push((fi, format!("{}/single/k2", f.name), vec![0], 2, Mode::Interleave));
        // (c) two evaluations, equal and different inputs
        scenarios_owned.push((fi, format!("{}/two-different/k1", f.name), vec![0, 1], 1, Mode::Interleave));
        scenarios_owned.push((fi, format!("{}/two-equal/k1", f.name), vec![0, 0], 1, Mode::Interleave));
        // (d) cancellation at every suspension point, alone and with another evaluation in flight
        scenarios_owned.push((fi, format!("{}/cancel-single/k1", f.name), vec![0], 1, Mode::Cancel));
        scenarios_owned.push((fi, format!("{}/cancel-with-other/k1", f.name), vec![0, 1], 1, Mode::Cancel));
        if tier == Tier::Thorough {
            if f.name == "two-cacheable" {
                scenarios_owned.push((fi, format!("{}/three/k1", f.name), vec![0, 1, 0], 1, Mode::Interleave));
                scenarios_owned.push((fi, format!("{}/two-different/k2", f.name), vec![0, 1], 2, Mode::Interleave));
            }
            scenarios_owned.push((fi, format!("{}/cancel-single/k2", f.name), vec![0], 2, Mode::Cancel));
        }
    }
    rep.bound("families", fams.iter().map(|f| json!({"name": f.name, "rules": f.rules})).collect::<Vec<_>>());
    rep.bound("scenarios", scenarios_owned.iter().map(|s| s.1.clone()).collect::<Vec<_>>());
    let (acc, stats) = scenarios_owned
        .par_iter()
        .map(|(fi, label, tasks, k, mode)| {
            let sc = Scenario { label: label.clone(), rules: &fam_rules[*fi], tasks: tasks.clone(), inputs: &fams[*fi].inputs, baselines: &fam_base[*fi], max_susp: *k, mode: *mode };
            let mut acc = Acc::new();
            let st = run_scenario(&sc, &mut acc);
            acc.count(&format!("schedules_{label}"), st.leaves);
            (acc, st)
        })
        .reduce(
            || (Acc::new(), TreeStats::default()),
            |(a, mut sa), (b, sb)| {
                sa.add(&sb);
                (a.merge(b), sa)
            },
        );
    rep.absorb(acc);
    let mut acc = Acc::new();
    let abandon_n = tier.pick(300, 2000);
    for (fi, f) in fams.iter().enumerate() {
        sequential_legs(f, &fam_rules[fi], &fam_base[fi], abandon_n, &mut acc);
    }
    // deep nesting: the abandoned evaluation is suspended 60 levels deep
    let deep_rules = vec![nested_call(60), "c(other)".to_string()];
    let deep_in = vec![RV::map(&[("id", RV::Int(1)), ("other", RV::Int(2))])];
    match baseline(&deep_rules, &deep_in[0]) {
        Ok(b) => {
            let fam = Family { name: "deep-nesting", rules: vec![], inputs: deep_in.clone() };
            sequential_legs(&fam, &deep_rules, &[b], tier.pick(50, 200), &mut acc);
        }
        Err(m) => acc.machinery(m),
    }
    pile_up_leg(&mut acc, 8);
    let crowd: Vec<usize> = tier.pick(vec![17, 33, 65], vec![17, 33, 65, 130, 260]);
    for &n in &crowd {
        crowd_leg(&mut acc, n);
    }
    rep.bound("crowd_sizes", crowd);
    let gate_sizes: Vec<usize> = tier.pick(vec![300, 1100, 2100], vec![300, 1100, 2100, 4200, 8300, 16500, 33000, 66000]);
    for &n in &gate_sizes {
        gate_crowd_leg(&mut acc, n, "C12");
    }
    rep.bound("gate_crowd_sizes", format!("{gate_sizes:?} evaluations waiting inside a user function at once, 13 % abandoned, 8 fresh evaluations afterwards"));
    rule_reuse_leg(&mut acc);
    reentrant_leg(&mut acc);
    // an evaluation reads its input once (c09.rs): a serde input that changes on every read gives
    // every rule of one evaluation the same reading
    super::c09::single_read_leg(&mut acc);
    rep.bound("reentrant_leg", "a user function evaluating its own ruleset 1 / 2 / 5 / 40 levels deep (cacheable) and 1 / 2 / 5 / 7 levels deep (not cacheable: 3^depth nested evaluations)");
    let wait = tier.pick(6u64, 65u64);
    real_time_leg(&mut acc, wait);
    rep.bound("real_time_wait_seconds", wait);
    let clock = clock_scan();
    if !clock.is_empty() {
        println!("WARNING property=C12 reval now reads a clock or a random source ({} source lines, see clock_scan in the evidence); the schedule exploration runs in virtual time and only the {wait} s real-time leg can observe it", clock.len());
        rep.note(format!("{} source lines reading a clock / random source", clock.len()));
    }
    rep.extra.insert("clock_scan".into(), json!(clock));
    expr_leg(&mut acc);
    many_inputs_leg(&mut acc, tier.pick(300, 3000));
    // history and environment (context.rs): the battery of casts over edit neighbourhoods, in
    // order / reversed / repeated in this process, and once per child process per environment
    {
        let n = super::context::history_leg(&mut acc, tier == Tier::Thorough);
        rep.bound("history_battery", format!("{n} expressions (casts of every text within two edits of canonical timestamps / numbers, case mapping, date components), three passes in one process: forward, reversed, forward"));
        let e = super::context::environment_leg(&mut acc, tier == Tier::Thorough);
        rep.bound("environments", format!("{e} child processes (time zones, locales, an empty environment), each evaluating the same battery"));
    }
    rep.absorb(acc);
    rep.bound("abandonments_per_long_history", abandon_n);
    rep.states = stats.nodes;
    rep.transitions = stats.edges;
    rep.traces = rep.acc.get("executions");
    rep.extra.insert("schedules".into(), json!(stats.leaves));
    rep.rule = "E5 async schedule exploration: a single-threaded executor in which the next evaluation to poll, the number of suspensions (0..k) of the user function about to be called, and dropping an evaluation at one of its suspension points are explicit choices, explored exhaustively per scenario (one evaluation; two/three interleaved evaluations of one ruleset on equal and different inputs; cancellation alone and with another evaluation in flight, followed by a fresh evaluation); plus repetition, long histories (N abandonments at each suspension point, also 60 levels deep) and Expr::evaluate interleavings; oracle = outcomes and per-evaluation call log of the isolated, never-suspended run on a fresh ruleset".into();
    rep.assume("user functions are deterministic; interleavings finer than suspension points do not exist on one thread (threads: C18)");
    rep.finish()
}

pub fn replay(case: &serde_json::Value) -> i32 {
    println!("recorded schedule: {}", case);
    println!("re-running the scenario exhaustively (schedules are enumerated deterministically):");
    let label = case.get("scenario").and_then(|s| s.as_str()).unwrap_or("");
    let fams = families();
    for f in &fams {
        if !label.starts_with(f.name) {
            continue;
        }
        let rules: Vec<String> = f.rules.iter().map(|s| s.to_string()).collect();
        let bases: Vec<_> = f.inputs.iter().filter_map(|i| baseline(&rules, i).ok()).collect();
        let parts: Vec<&str> = label.split('/').collect();
        let k: u32 = parts.last().and_then(|p| p.strip_prefix('k')).and_then(|p| p.parse().ok()).unwrap_or(1);
        let (tasks, mode) = match parts.get(1).copied().unwrap_or("") {
            "single" => (vec![0], Mode::Interleave),
            "two-different" => (vec![0, 1], Mode::Interleave),
            "two-equal" => (vec![0, 0], Mode::Interleave),
            "three" => (vec![0, 1, 0], Mode::Interleave),
            "cancel-single" => (vec![0], Mode::Cancel),
            "cancel-with-other" => (vec![0, 1], Mode::Cancel),
            _ => return 2,
        };
        let sc = Scenario { label: label.to_string(), rules: &rules, tasks, inputs: &f.inputs, baselines: &bases, max_susp: k, mode };
        let mut acc = Acc::new();
        let st = run_scenario(&sc, &mut acc);
        println!("{} schedules explored", st.leaves);
        if acc.violations.is_empty() {
            println!("verdict: holds");
            return 0;
        }
        for v in acc.violations.values() {
            println!("verdict: VIOLATED — {}", v.what);
        }
        return 1;
    }
    // legs outside the scenario families: re-run the whole (deterministic) leg
    let kind = case.get("kind").and_then(|k| k.as_str()).unwrap_or("");
    let mut acc = Acc::new();
    if let Some(a) = super::context::replay_c12(case) {
        println!("re-ran the {kind} leg");
        return if a.violations.is_empty() {
            println!("verdict: holds");
            0
        } else {
            for v in a.violations.values() {
                println!("verdict: VIOLATED — {}", v.what);
            }
            1
        };
    }
    match kind {
        "crowd" => crowd_leg(&mut acc, case.get("n").and_then(|n| n.as_u64()).unwrap_or(17) as usize),
        "gate-crowd" => gate_crowd_leg(&mut acc, case.get("n").and_then(|n| n.as_u64()).unwrap_or(1100) as usize, "C12"),
        "pile-up" => pile_up_leg(&mut acc, case.get("n").and_then(|n| n.as_u64()).unwrap_or(8) as usize),
        "rule-reuse" => rule_reuse_leg(&mut acc),
        "re-entrant" => reentrant_leg(&mut acc),
        "single-read" => super::c09::single_read_leg(&mut acc),
        "real-time" => real_time_leg(&mut acc, case.get("seconds").and_then(|n| n.as_u64()).unwrap_or(6)),
        "many-inputs" => many_inputs_leg(&mut acc, 300),
        "repetition" | "long-history" => {
            let fname = case.get("family").and_then(|f| f.as_str()).unwrap_or("");
            match fams.iter().find(|f| f.name == fname) {
                Some(f) => {
                    let rules: Vec<String> = f.rules.iter().map(|s| s.to_string()).collect();
                    let bases: Vec<_> = f.inputs.iter().filter_map(|i| baseline(&rules, i).ok()).collect();
                    if bases.len() != f.inputs.len() {
                        println!("baseline failed");
                        return 2;
                    }
                    sequential_legs(f, &rules, &bases, case.get("times").and_then(|n| n.as_u64()).unwrap_or(300) as usize, &mut acc);
                }
                None => {
                    println!("unknown family {fname}");
                    return 2;
                }
            }
        }
        _ => {
            println!("this case kind cannot be replayed individually");
            return 2;
        }
    }
    if acc.violations.is_empty() {
        println!("verdict: holds");
        0
    } else {
        for v in acc.violations.values() {
            println!("verdict: VIOLATED — {}", v.what);
        }
        1
    }
}
