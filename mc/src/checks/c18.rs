//! C18 — rulesets can be shared across threads and evaluated from any task.
//! Type-level half: the gate crate compiles only if the Send/Sync bounds hold (decided by rustc).
//! Behavioural half: loom explores all interleavings (within a preemption bound) of threads
//! evaluating one shared ruleset; driven from here as a child process.
use crate::engine::report::{repo_dir, target_dir, verif_dir, Acc, Report, Tier, Violation};
use serde_json::json;
use std::process::Command;
use std::time::{Duration, Instant};

fn cargo(args: &[&str]) -> (bool, String) {
    let mut cmd = Command::new("cargo");
    cmd.args(args).current_dir(format!("{}/mc", verif_dir())).env("CARGO_NET_OFFLINE", "true").env("CARGO_TARGET_DIR", target_dir());
    if repo_dir() != "/repo" {
        cmd.arg("--config").arg(format!("paths=[\"{}\"]", repo_dir()));
    }
    let out = cmd.output();
    match out {
        Ok(o) => (o.status.success(), format!("{}{}", String::from_utf8_lossy(&o.stdout), String::from_utf8_lossy(&o.stderr))),
        Err(e) => (false, format!("cannot run cargo: {e}")),
    }
}

fn run_with_timeout(cmd: &mut Command, limit: Duration) -> Result<(Option<i32>, String), String> {
    use std::io::Read;
    let mut child = cmd.stdout(std::process::Stdio::piped()).stderr(std::process::Stdio::null()).spawn().map_err(|e| e.to_string())?;
    let start = Instant::now();
    loop {
        match child.try_wait() {
            Ok(Some(st)) => {
                let mut s = String::new();
                if let Some(mut o) = child.stdout.take() {
                    let _ = o.read_to_string(&mut s);
                }
                return Ok((st.code(), s));
            }
            Ok(None) => {
                if start.elapsed() > limit {
                    let _ = child.kill();
                    let _ = child.wait();
                    return Err(format!("timed out after {:?}", limit));
                }
                std::thread::sleep(Duration::from_millis(50));
            }
            Err(e) => return Err(e.to_string()),
        }
    }
}

fn scan_repo() -> Vec<String> {
    let mut hits = Vec::new();
    let pats = ["unsafe", "static mut", "Mutex", "RwLock", "Atomic", "Cell<", "RefCell", "thread_local", "OnceLock", "OnceCell", "lazy_static"];
    fn walk(dir: &std::path::Path, out: &mut Vec<std::path::PathBuf>) {
        if let Ok(rd) = std::fs::read_dir(dir) {
            for e in rd.flatten() {
                let p = e.path();
                if p.is_dir() {
                    walk(&p, out);
                } else if p.extension().map(|x| x == "rs").unwrap_or(false) {
                    out.push(p);
                }
            }
        }
    }
    let mut files = Vec::new();
    walk(std::path::Path::new(&format!("{}/src", repo_dir())), &mut files);
    files.sort();
    for f in files {
        if let Ok(text) = std::fs::read_to_string(&f) {
            for (i, line) in text.lines().enumerate() {
                let code = line.split("//").next().unwrap_or("");
                for p in pats {
                    if code.contains(p) {
                        hits.push(format!("{}:{}: {}", f.display(), i + 1, line.trim()));
                        break;
                    }
                }
            }
        }
    }
    hits
}

/// Migration leg (real OS threads, strictly alternating, hence deterministic): an evaluation is
/// polled on thread A up to its k-th suspension, handed to thread B and finished there, N times
/// in a row, for every suspension point k; then thread A evaluates afresh.  Everything must equal
/// the sequential run.  This is where per-thread state inside reval (which loom cannot see: model
/// threads share one OS thread) would show.
fn migration_leg(acc: &mut Acc, rounds: usize) {
    use super::probe::*;
    use crate::engine::exec::{poll_once, WakeCount};
    use crate::spec::eval::{observe, Obs};
    use reval::prelude::*;
    use std::collections::BTreeMap;
    use std::future::Future;
    use std::pin::Pin;
    use std::sync::{mpsc, Arc};
    use std::task::Poll;
    type Outs = Vec<(String, Obs)>;
    type Fut = Pin<Box<dyn Future<Output = Outs> + Send + 'static>>;
    let mut deep = String::from("c(id)");
    for _ in 0..100 {
        deep = format!("[{deep}]");
    }
    // after the suspended call returns, the same rule still has a deeply nested operand to enter
    let mut nest = String::from("i1");
    for _ in 0..40 {
        nest = format!("(i1 + {nest})");
    }
    let texts = vec![deep, "c(other)".to_string(), "[n(id), c(id)]".to_string(), format!("[c(i7), {nest}, n(i8), {nest}]")];
    let suspend = Arc::new(std::sync::atomic::AtomicBool::new(false));
    let s2 = suspend.clone();
    let calls: Arc<std::sync::Mutex<Vec<String>>> = Arc::new(std::sync::Mutex::new(Vec::new()));
    let c2 = calls.clone();
    let h: Handler = Arc::new(move |name, p| {
        let n = if s2.load(std::sync::atomic::Ordering::SeqCst) { 1 } else { 0 };
        c2.lock().unwrap().push(format!("{name}({})", crate::spec::rv::RV::from_value(&p).show().chars().take(20).collect::<String>()));
        (Ok(Value::Vec(vec![Value::String(name.to_string()), p])), n)
    });
    let mut b = ruleset();
    for (i, t) in texts.iter().enumerate() {
        b = b.with_rule(Rule::new(format!("r{i}"), BTreeMap::new(), Expr::parse(t).unwrap())).unwrap();
    }
    let rs = Arc::new(b.with_function(probe("c", true, &h)).unwrap().with_function(probe("n", false, &h)).unwrap().build());
    let facts = Value::Map([("id".to_string(), Value::Int(1)), ("other".to_string(), Value::Int(2))].into_iter().collect());
    let mk = |rs: &Arc<RuleSet>, facts: &Value| -> Fut {
        let (rs, facts) = (rs.clone(), facts.clone());
        Box::pin(async move {
            match rs.evaluate_value(&facts).await {
                Ok(v) => v.into_iter().map(|o| (o.rule.name().to_string(), observe(Ok(o.value)))).collect(),
                Err(e) => vec![("whole-call".to_string(), Obs::Panic(e.to_string()))],
            }
        })
    };
    let baseline = crate::engine::exec::block_on(mk(&rs, &facts)).unwrap_or_default();
    let baseline_calls: Vec<String> = std::mem::take(&mut *calls.lock().unwrap());
    suspend.store(true, std::sync::atomic::Ordering::SeqCst);
    // thread B: finishes whatever it is handed
    let (to_b, from_a) = mpsc::channel::<Fut>();
    let (to_a, from_b) = mpsc::channel::<Outs>();
    let worker = std::thread::spawn(move || {
        while let Ok(f) = from_a.recv() {
            let r = crate::engine::exec::block_on(f).unwrap_or_default();
            if to_a.send(r).is_err() {
                break;
            }
        }
    });
    let suspension_points = 6; // c(id) deep, c(other), n(id), c(id) cached, c(i7), n(i8) -> 5 calls; one spare
    for k in 1..=suspension_points {
        for round in 0..rounds {
            acc.count("executions", 1);
            acc.count("migrations", 1);
            let wc = Arc::new(WakeCount::default());
            let mut fut = mk(&rs, &facts);
            let mut pend = 0;
            let mut done: Option<Outs> = None;
            loop {
                match poll_once(fut.as_mut(), &wc) {
                    Poll::Ready(o) => {
                        done = Some(o);
                        break;
                    }
                    Poll::Pending => {
                        pend += 1;
                        if pend >= k {
                            break;
                        }
                    }
                }
            }
            let got = match done {
                Some(o) => o,
                None => {
                    if to_b.send(fut).is_err() {
                        acc.machinery("worker thread gone");
                        return;
                    }
                    match from_b.recv() {
                        Ok(o) => o,
                        Err(_) => {
                            acc.violation(Violation { sig: "migration/worker-died".into(), what: "finishing a migrated evaluation killed the worker thread".into(), case: json!({"kind": "migration"}), size: 1 });
                            return;
                        }
                    }
                }
            };
            acc.outcome("migration:completed");
            let made: Vec<String> = std::mem::take(&mut *calls.lock().unwrap());
            if made != baseline_calls {
                acc.violation(Violation {
                    sig: "migration/calls".into(),
                    what: format!("evaluation polled {k} time(s) on one thread and finished on another invoked {made:?}, sequentially {baseline_calls:?}"),
                    case: json!({"kind": "migration", "suspension": k, "round": round}),
                    size: round,
                });
                break;
            }
            if got != baseline {
                acc.violation(Violation {
                    sig: "migration/outcome".into(),
                    what: format!("evaluation polled {k} time(s) on one thread and finished on another (round {round}) returned {:?}, sequentially {:?}", got.iter().map(|x| x.1.show()).collect::<Vec<_>>(), baseline.iter().map(|x| x.1.show()).collect::<Vec<_>>()),
                    case: json!({"kind": "migration", "suspension": k, "round": round}),
                    size: round,
                });
                break;
            }
        }
        // a fresh evaluation on the thread that started (and gave away) all those evaluations
        let fresh = crate::engine::exec::block_on(mk(&rs, &facts)).unwrap_or_default();
        calls.lock().unwrap().clear();
        acc.count("executions", 1);
        if fresh != baseline {
            acc.violation(Violation {
                sig: "migration/fresh-after".into(),
                what: format!("after {rounds} evaluations started here and finished on another thread (hand-off at suspension {k}), a fresh evaluation returns {:?}, sequentially {:?}", fresh.iter().map(|x| x.1.show()).collect::<Vec<_>>(), baseline.iter().map(|x| x.1.show()).collect::<Vec<_>>()),
                case: json!({"kind": "migration", "suspension": k}),
                size: k,
            });
        }
    }
    drop(to_b);
    let _ = worker.join();
}

thread_local! {
    static CROWD_EVAL: std::cell::Cell<usize> = const { std::cell::Cell::new(usize::MAX) };
}

/// N OS threads, each owning one evaluation of the shared ruleset and polling it only when the
/// coordinator says so (strictly serialised, so the schedule is the coordinator's and nothing
/// else): all N evaluations are in flight at once, their arguments overlap, every call suspends
/// once.  Schedules: round-robin forwards / backwards, and for chosen v: all polled twice, v
/// driven to completion, then the rest.  Oracle: outcomes and per-evaluation call log of the
/// evaluation run alone.
fn thread_crowd_leg(acc: &mut Acc, n: usize) {
    use super::probe::*;
    use crate::engine::exec::{poll_once, WakeCount};
    use crate::spec::eval::{observe, Obs};
    use crate::spec::rv::RV;
    use reval::prelude::*;
    use std::collections::BTreeMap;
    use std::future::Future;
    use std::pin::Pin;
    use std::sync::{mpsc, Arc, Mutex};
    use std::task::Poll;
    type Outs = Vec<(String, Obs)>;
    type Fut = Pin<Box<dyn Future<Output = Outs> + Send + 'static>>;
    enum Cmd {
        New(Arc<RuleSet>, Value),
        Poll,
        Quit,
    }
    let log: Arc<Mutex<Vec<(usize, String)>>> = Arc::new(Mutex::new(Vec::new()));
    let l2 = log.clone();
    let h: Handler = Arc::new(move |name, p| {
        let who = CROWD_EVAL.with(|c| c.get());
        l2.lock().unwrap().push((who, format!("{name}({})", RV::from_value(&p).show())));
        (Ok(Value::Vec(vec![Value::String(name.to_string()), p])), 1)
    });
    // a fresh ruleset per schedule: whatever a ruleset counts or pools starts from zero each time
    let build = || -> Arc<RuleSet> {
        let mut b = ruleset();
        for (i, t) in ["c(id)", "c(other)", "[c(id), n(id), (i1 + (i1 + (i1 + (i1 + (i1 + (i1 + (i1 + (i1 + (i1 + (i1 + (i1 + (i1 + (i1 + (i1 + (i1 + (i1 + (i1 + (i1 + (i1 + (i1 + i1))))))))))))))))))))]", "c(third)", "c(id)"].iter().enumerate() {
            b = b.with_rule(Rule::new(format!("r{i}"), BTreeMap::new(), Expr::parse(t).unwrap())).unwrap();
        }
        Arc::new(b.with_function(probe("c", true, &h)).unwrap().with_function(probe("n", false, &h)).unwrap().build())
    };
    let rs = build();
    let facts: Vec<Value> = (0..n)
        .map(|i| Value::Map([("id".to_string(), Value::Int(i as i128)), ("other".to_string(), Value::Int(((i + 1) % n) as i128)), ("third".to_string(), Value::Int(((i + n / 2) % n) as i128))].into_iter().collect()))
        .collect();
    let mk = |rs: &Arc<RuleSet>, facts: &Value| -> Fut {
        let (rs, facts) = (rs.clone(), facts.clone());
        Box::pin(async move {
            match rs.evaluate_value(&facts).await {
                Ok(v) => v.into_iter().map(|o| (o.rule.name().to_string(), observe(Ok(o.value)))).collect(),
                Err(e) => vec![("whole-call".to_string(), Obs::Panic(e.to_string()))],
            }
        })
    };
    // baselines: each evaluation alone (on this thread)
    let mut bases: Vec<(Outs, Vec<String>)> = Vec::new();
    for (t, f) in facts.iter().enumerate() {
        CROWD_EVAL.with(|c| c.set(t));
        let o = crate::engine::exec::block_on(mk(&rs, f)).unwrap_or_default();
        let l: Vec<String> = std::mem::take(&mut *log.lock().unwrap()).into_iter().map(|x| x.1).collect();
        bases.push((o, l));
    }
    // workers
    let mut to_w: Vec<mpsc::Sender<Cmd>> = Vec::new();
    let mut from_w: Vec<mpsc::Receiver<Option<Outs>>> = Vec::new();
    let mut handles = Vec::new();
    for t in 0..n {
        let (tx, rx) = mpsc::channel::<Cmd>();
        let (rtx, rrx) = mpsc::channel::<Option<Outs>>();
        handles.push(std::thread::spawn(move || {
            CROWD_EVAL.with(|c| c.set(t));
            let wc = Arc::new(WakeCount::default());
            let mut fut: Option<Fut> = None;
            while let Ok(cmd) = rx.recv() {
                match cmd {
                    Cmd::Quit => break,
                    Cmd::New(rs, f) => {
                        let facts = f;
                        fut = Some(Box::pin(async move {
                            match rs.evaluate_value(&facts).await {
                                Ok(v) => v.into_iter().map(|o| (o.rule.name().to_string(), observe(Ok(o.value)))).collect(),
                                Err(e) => vec![("whole-call".to_string(), Obs::Panic(e.to_string()))],
                            }
                        }));
                        let _ = rtx.send(None);
                    }
                    Cmd::Poll => {
                        let r = match fut.as_mut() {
                            None => None,
                            Some(f) => match std::panic::catch_unwind(std::panic::AssertUnwindSafe(|| poll_once(f.as_mut(), &wc))) {
                                Ok(Poll::Ready(o)) => Some(o),
                                Ok(Poll::Pending) => None,
                                Err(_) => Some(vec![("whole-call".to_string(), Obs::Panic("panicked while polled".into()))]),
                            },
                        };
                        if r.is_some() {
                            fut = None;
                        }
                        let _ = rtx.send(r);
                    }
                }
            }
        }));
        to_w.push(tx);
        from_w.push(rrx);
    }
    let victims: Vec<usize> = if n <= 33 { (0..n).collect() } else { vec![0, 1, 2, 9, 10, 11, n / 2, n - 2, n - 1] };
    let mut schedules: Vec<(String, Option<usize>, bool)> = vec![("forward".into(), None, false), ("reverse".into(), None, true)];
    schedules.extend(victims.iter().map(|v| (format!("finish-{v}-early"), Some(*v), false)));
    let schedules: Vec<(String, Option<usize>, bool, bool)> = schedules.iter().flat_map(|(l, v, r)| [(format!("{l}/fresh-ruleset"), *v, *r, true), (format!("{l}/used-ruleset"), *v, *r, false)]).collect();
    'sched: for (label, victim, reverse, fresh) in schedules {
        log.lock().unwrap().clear();
        let mut results: Vec<Option<Outs>> = (0..n).map(|_| None).collect();
        // on a ruleset that has never evaluated anything, and on the one that ran the baselines
        let rs_s = if fresh { build() } else { rs.clone() };
        for t in 0..n {
            if to_w[t].send(Cmd::New(rs_s.clone(), facts[t].clone())).is_err() || from_w[t].recv().is_err() {
                acc.machinery("crowd worker gone");
                break 'sched;
            }
        }
        let mut order: Vec<usize> = (0..n).collect();
        if reverse {
            order.reverse();
        }
        let mut died = false;
        let mut poll = |t: usize, results: &mut Vec<Option<Outs>>, died: &mut bool| {
            if results[t].is_some() || *died {
                return;
            }
            if to_w[t].send(Cmd::Poll).is_err() {
                *died = true;
                return;
            }
            match from_w[t].recv() {
                Ok(Some(o)) => results[t] = Some(o),
                Ok(None) => {}
                Err(_) => *died = true,
            }
        };
        if let Some(v) = victim {
            for _ in 0..2 {
                for &t in &order {
                    poll(t, &mut results, &mut died);
                }
            }
            for _ in 0..64 {
                poll(v, &mut results, &mut died);
            }
        }
        for _ in 0..64 {
            if results.iter().all(|r| r.is_some()) {
                break;
            }
            for &t in &order {
                poll(t, &mut results, &mut died);
            }
        }
        acc.count("executions", n as u64);
        acc.count("thread_crowd_schedules", 1);
        if died {
            acc.violation(Violation { sig: "thread-crowd/worker-died".into(), what: format!("{n} evaluations on {n} threads, schedule {label}: a worker thread died"), case: json!({"kind": "thread-crowd", "n": n, "schedule": label}), size: n });
            break;
        }
        let all = std::mem::take(&mut *log.lock().unwrap());
        for t in 0..n {
            let mine: Vec<String> = all.iter().filter(|l| l.0 == t).map(|l| l.1.clone()).collect();
            let ok_out = results[t].as_ref() == Some(&bases[t].0);
            if !ok_out || mine != bases[t].1 {
                acc.violation(Violation {
                    sig: format!("thread-crowd/{}", if ok_out { "calls" } else { "outcome" }),
                    what: format!(
                        "{n} evaluations of one ruleset in flight on {n} threads, schedule {label}: evaluation {t} returned {:?} with calls {mine:?}; alone it returns {:?} with calls {:?}",
                        results[t].as_ref().map(|o| o.iter().map(|x| x.1.show()).collect::<Vec<_>>()),
                        bases[t].0.iter().map(|x| x.1.show()).collect::<Vec<_>>(),
                        bases[t].1
                    ),
                    case: json!({"kind": "thread-crowd", "n": n, "schedule": label}),
                    size: n * 1000 + t,
                });
                break 'sched;
            }
        }
        acc.outcome("thread-crowd:completed");
    }
    for tx in &to_w {
        let _ = tx.send(Cmd::Quit);
    }
    for h in handles {
        let _ = h.join();
    }
}

/// Many threads inside the *serialization* step of `RuleSet::evaluate(&T)` at the same moment
/// (there is no await point in it, so no interleaving of suspended evaluations ever overlaps two
/// of them).  H holder threads each serialize a value nested `depth` deep whose innermost
/// `Serialize` impl parks on a barrier; while all of them are parked, the coordinating thread
/// evaluates a small input of its own; then the holders are released.  Every evaluation must give
/// what it gives alone.  Deterministic: the barrier fixes the overlap.
fn serialization_crowd_leg(acc: &mut Acc, holders: usize, depth: usize) {
    use crate::spec::eval::{observe, Obs};
    use reval::prelude::*;
    use serde::ser::SerializeSeq;
    use std::collections::BTreeMap;
    use std::sync::atomic::{AtomicBool, AtomicUsize, Ordering};
    use std::sync::Arc;
    // (arrived at the gate, released)
    struct Gated {
        depth: usize,
        gate: Option<Arc<(AtomicUsize, AtomicBool)>>,
    }
    impl serde::Serialize for Gated {
        fn serialize<S: serde::Serializer>(&self, s: S) -> Result<S::Ok, S::Error> {
            if self.depth == 0 {
                if let Some(g) = &self.gate {
                    g.0.fetch_add(1, Ordering::SeqCst);
                    let t0 = std::time::Instant::now();
                    while !g.1.load(Ordering::SeqCst) && t0.elapsed() < Duration::from_secs(60) {
                        std::thread::sleep(Duration::from_millis(1));
                    }
                }
                s.serialize_i8(1)
            } else {
                let mut q = s.serialize_seq(Some(1))?;
                q.serialize_element(&Gated { depth: self.depth - 1, gate: self.gate.clone() })?;
                q.end()
            }
        }
    }
    let rs = Arc::new(
        ruleset()
            .with_rule(Rule::new("whole", BTreeMap::new(), Expr::parse("is_some(facts)").unwrap()))
            .and_then(|b| b.with_rule(Rule::new("first", BTreeMap::new(), Expr::parse("is_some(facts.0)").unwrap())))
            .unwrap()
            .build(),
    );
    let eval = |rs: &RuleSet, v: &Gated| -> Vec<Obs> {
        match crate::engine::exec::block_on(rs.evaluate(v)) {
            Ok(Ok(o)) => o.into_iter().map(|x| observe(Ok(x.value))).collect(),
            other => vec![Obs::Panic(format!("{:?}", other.map(|r| r.map(|o| o.len()).map_err(|e| e.to_string()))))],
        }
    };
    let alone_deep = eval(&rs, &Gated { depth, gate: None });
    let alone_small = eval(&rs, &Gated { depth: 30, gate: None });
    let gate = Arc::new((AtomicUsize::new(0), AtomicBool::new(false)));
    let finished = Arc::new(AtomicUsize::new(0));
    let mut hs = Vec::new();
    for _ in 0..holders {
        let (rs, gate, finished) = (rs.clone(), gate.clone(), finished.clone());
        hs.push(std::thread::spawn(move || {
            let r = match crate::engine::exec::block_on(rs.evaluate(&Gated { depth, gate: Some(gate) })) {
                Ok(Ok(o)) => o.into_iter().map(|x| observe(Ok(x.value))).collect::<Vec<Obs>>(),
                other => vec![Obs::Panic(format!("{:?}", other.map(|r| r.map(|o| o.len()).map_err(|e| e.to_string()))))],
            };
            finished.fetch_add(1, Ordering::SeqCst);
            r
        }));
    }
    // wait until every holder is parked inside its innermost Serialize impl (or gave up early: a
    // holder that fails before it gets there must not hang the check)
    let t0 = std::time::Instant::now();
    while gate.0.load(Ordering::SeqCst) + finished.load(Ordering::SeqCst) < holders && t0.elapsed() < Duration::from_secs(30) {
        std::thread::sleep(Duration::from_millis(1));
    }
    let small = eval(&rs, &Gated { depth: 30, gate: None });
    gate.1.store(true, Ordering::SeqCst);
    let deep: Vec<Vec<Obs>> = hs.into_iter().map(|h| h.join().unwrap_or_else(|_| vec![Obs::Panic("holder thread panicked".into())])).collect();
    acc.count("executions", holders as u64 + 1);
    acc.count("serialization_crowd_evaluations", holders as u64 + 1);
    let show = |v: &Vec<Obs>| v.iter().map(|o| o.show()).collect::<Vec<_>>();
    if small != alone_small {
        acc.violation(Violation {
            sig: "serialization-crowd/bystander".into(),
            what: format!("while {holders} threads were each {depth} levels deep inside the serialization of their input, a 30-level input evaluated to {:?}; alone it gives {:?}", show(&small), show(&alone_small)),
            case: json!({"kind": "serialization-crowd", "holders": holders, "depth": depth}),
            size: holders,
        });
    } else if let Some(bad) = deep.iter().find(|d| **d != alone_deep) {
        acc.violation(Violation {
            sig: "serialization-crowd/holder".into(),
            what: format!("{holders} threads serializing {depth}-level inputs at the same moment: one evaluated to {:?}; alone it gives {:?}", show(bad), show(&alone_deep)),
            case: json!({"kind": "serialization-crowd", "holders": holders, "depth": depth}),
            size: holders,
        });
    }
    acc.outcome("serialization-crowd:completed");
}

fn stress_facts(round: usize, t: usize) -> reval::prelude::Value {
    use reval::prelude::Value;
    // `other` (and ts2/num2) are the same never-seen-before values for all threads of a round,
    // the rest is distinct per thread
    let sec = |x: usize| format!("2024-01-{:02}T{:02}:{:02}:{:02}Z", 1 + x % 28, x / 3600 % 24, x / 60 % 60, x % 60);
    Value::Map(
        [
            ("id".to_string(), Value::Int((100_000 + round * 8 + t) as i128)),
            ("other".to_string(), Value::Int(round as i128)),
            ("ts".to_string(), Value::String(sec(round * 8 + t))),
            ("ts2".to_string(), Value::String(sec(1_000_000 + round))),
            ("num".to_string(), Value::String(format!("{}", round * 8 + t))),
            ("num2".to_string(), Value::String(format!("{round}"))),
            ("name".to_string(), Value::String(format!("name-{t}-{round}"))),
        ]
        .into_iter()
        .collect(),
    )
}

/// Free-running stress on real OS threads.  NOT part of the deciding exploration (it samples
/// schedules); it is here because synchronisation primitives *inside* reval would be invisible to
/// loom.  A mismatch it finds is real (the baseline comes from an identically built ruleset that
/// is only ever evaluated sequentially); silence proves nothing.
fn stress_leg(acc: &mut Acc, rounds: usize, free_rounds: usize) {
    use super::probe::*;
    use crate::spec::eval::{observe, Obs};
    use reval::prelude::*;
    use std::collections::BTreeMap;
    use std::sync::{Arc, Barrier};
    let h: Handler = Arc::new(move |name, p| (Ok(Value::Vec(vec![Value::String(name.to_string()), p])), 1));
    let texts = ["c(other)", "c(id)", "[n(id), c(id), c(i7), c(other + i1000000)]", "c(id) == c(other)", "if id > other then c(other) else c(id + other)", "datetime(ts)", "[year(datetime(ts)), second(datetime(ts)), datetime(ts2)]", "int(num) + int(num2)", "uppercase(name)"];
    let build = || {
        let mut b = ruleset();
        for (i, t) in texts.iter().enumerate() {
            b = b.with_rule(Rule::new(format!("r{i}"), BTreeMap::new(), Expr::parse(t).unwrap())).unwrap();
        }
        Arc::new(b.with_function(probe("c", true, &h)).unwrap().with_function(probe("n", false, &h)).unwrap().build())
    };
    let shared = build();
    let reference = build();
    let threads = 8usize;
    let barrier = Arc::new(Barrier::new(threads));
    // `other` is the same never-seen-before value for all threads of a round, `id` is distinct
    let facts = |round: usize, t: usize| stress_facts(round, t);
    fn eval(rs: &RuleSet, f: &Value) -> Vec<Obs> {
        match crate::engine::exec::block_on(rs.evaluate_value(f)) {
            Ok(Ok(o)) => o.into_iter().map(|x| observe(Ok(x.value))).collect(),
            other => vec![Obs::Panic(format!("{:?}", other.map(|_| ())))],
        }
    }
    let mut handles = Vec::new();
    for t in 0..threads {
        let (rs, barrier) = (shared.clone(), barrier.clone());
        handles.push(std::thread::spawn(move || {
            let mut out = Vec::new();
            for round in 0..rounds {
                barrier.wait();
                let f = stress_facts(round, t);
                let o: Vec<Obs> = match crate::engine::exec::block_on(rs.evaluate_value(&f)) {
                    Ok(Ok(o)) => o.into_iter().map(|x| observe(Ok(x.value))).collect(),
                    other => vec![Obs::Panic(format!("{:?}", other.map(|_| ())))],
                };
                out.push(o);
            }
            out
        }));
    }
    let results: Vec<Vec<Vec<Obs>>> = handles.into_iter().map(|h| h.join().unwrap_or_default()).collect();
    let mut wrong = 0usize;
    let mut first: Option<String> = None;
    for (t, per_thread) in results.iter().enumerate() {
        for (round, got) in per_thread.iter().enumerate() {
            let want = eval(&reference, &facts(round, t));
            if *got != want {
                wrong += 1;
                if first.is_none() {
                    first = Some(format!("thread {t}, round {round}: {:?} instead of {:?}", got.iter().map(|o| o.show()).collect::<Vec<_>>(), want.iter().map(|o| o.show()).collect::<Vec<_>>()));
                }
            }
        }
    }
    // free-running phase: 16 threads, no barrier, a ruleset that spends its time inside reval's own
    // code (casts on never-seen-before strings), so that whatever global state reval keeps is
    // entered by many threads at once
    {
        let cast_texts = ["datetime(ts)", "[datetime(ts2), datetime(ts3), datetime(ts4)]", "[int(num), dec(num), float(num)]", "[uppercase(name), lowercase(name), trim(name)]", "year(datetime(ts3)) * i100 + month(datetime(ts3))"];
        let build_casts = || {
            let mut b = ruleset();
            for (i, t) in cast_texts.iter().enumerate() {
                b = b.with_rule(Rule::new(format!("r{i}"), BTreeMap::new(), Expr::parse(t).unwrap())).unwrap();
            }
            Arc::new(b.build())
        };
        let cast_facts = |round: usize, t: usize| -> Value {
            let sec = |x: usize| format!("20{:02}-{:02}-{:02}T{:02}:{:02}:{:02}Z", 10 + x / 31_536_000 % 80, 1 + x / 2_419_200 % 12, 1 + x / 86_400 % 28, x / 3600 % 24, x / 60 % 60, x % 60);
            let k = round * 64 + t;
            Value::Map(
                [
                    ("ts".to_string(), Value::String(sec(4 * k))),
                    ("ts2".to_string(), Value::String(sec(4 * k + 1))),
                    ("ts3".to_string(), Value::String(sec(4 * k + 2))),
                    ("ts4".to_string(), Value::String(sec(4 * k + 3))),
                    ("num".to_string(), Value::String(format!("{}", 7 * k + 1))),
                    ("name".to_string(), Value::String(format!("  Name-{k}  "))),
                ]
                .into_iter()
                .collect(),
            )
        };
        let shared = build_casts();
        let reference = build_casts();
        let free_threads = 16usize;
        let start = Arc::new(Barrier::new(free_threads));
        let mut hs = Vec::new();
        for t in 0..free_threads {
            let (rs, start) = (shared.clone(), start.clone());
            hs.push(std::thread::spawn(move || {
                start.wait();
                (0..free_rounds).map(|round| eval(&rs, &cast_facts(round, t))).collect::<Vec<_>>()
            }));
        }
        let res: Vec<Vec<Vec<Obs>>> = hs.into_iter().map(|h| h.join().unwrap_or_default()).collect();
        for (t, per_thread) in res.iter().enumerate() {
            if per_thread.len() != free_rounds {
                wrong += 1;
                first.get_or_insert(format!("free-running thread {t} died"));
            }
            for (round, got) in per_thread.iter().enumerate() {
                let want = eval(&reference, &cast_facts(round, t));
                if *got != want {
                    wrong += 1;
                    if first.is_none() {
                        first = Some(format!("free-running thread {t}, evaluation {round}: {:?} instead of {:?}", got.iter().map(|o| o.show()).collect::<Vec<_>>(), want.iter().map(|o| o.show()).collect::<Vec<_>>()));
                    }
                }
            }
        }
        acc.count("stress_evaluations_sampled_not_deciding", (free_threads * free_rounds) as u64);
    }
    acc.count("stress_evaluations_sampled_not_deciding", (threads * rounds) as u64);
    if let Some(f) = first {
        acc.violation(Violation {
            sig: "stress/outcome".into(),
            what: format!("{wrong} of {} concurrent evaluations on 8 / 16 OS threads differ from the sequential reference; first: {f}", 24 * rounds),
            case: json!({"kind": "stress"}),
            size: 1,
        });
    }
}

pub fn run(tier: Tier) -> i32 {
    let mut rep = Report::new("C18", tier);
    let mut acc = Acc::new();
    // 1. type-level gate
    let (ok, out) = cargo(&["check", "-q", "-p", "c18gate", "--offline"]);
    acc.count("executions", 1);
    if !ok {
        let auto_trait = out.contains("cannot be sent between threads safely") || out.contains("cannot be shared between threads safely") || out.contains("is not `Send`") || out.contains("is not `Sync`");
        if auto_trait {
            let first: Vec<&str> = out.lines().filter(|l| l.contains("error")).take(6).collect();
            acc.violation(Violation {
                sig: "type-level/send-sync".into(),
                what: format!("the Send/Sync gate no longer compiles: {}", first.join(" | ")),
                case: json!({"kind": "gate", "compiler_output": out.chars().take(6000).collect::<String>()}),
                size: 1,
            });
            acc.outcome("gate:violated");
            acc.outcome("gate");
            rep.absorb(acc);
            rep.states = 1;
            rep.transitions = 1;
            rep.traces = 1;
            rep.note("behavioural exploration skipped: the loom harness needs the bounds to compile");
            return rep.finish();
        }
        acc.machinery(format!("gate crate failed to build for another reason: {}", out.lines().filter(|l| l.contains("error")).take(4).collect::<Vec<_>>().join(" | ")));
        rep.absorb(acc);
        return rep.finish();
    }
    acc.outcome("gate:compiles");
    // 2. loom exploration
    let (ok, out) = cargo(&["build", "-q", "--release", "-p", "c18loom", "--offline"]);
    if !ok {
        acc.machinery(format!("loom harness failed to build: {}", out.lines().filter(|l| l.contains("error")).take(4).collect::<Vec<_>>().join(" | ")));
        rep.absorb(acc);
        return rep.finish();
    }
    let scenarios: Vec<(&str, &str, u64)> = match tier {
        Tier::Quick => vec![("two", "2", 60), ("two-short", "3", 60), ("handoff", "2", 60), ("two-nosuspend", "3", 60)],
        Tier::Thorough => vec![("two", "6", 900), ("two-short", "none", 900), ("handoff", "6", 900), ("two-nosuspend", "6", 900), ("three", "1", 900)],
    };
    rep.bound("loom_scenarios", scenarios.iter().map(|(s, b, _)| format!("{s} (preemption bound {b})")).collect::<Vec<_>>());
    rep.bound("migration_rounds_per_suspension_point", tier.pick(20, 200));
    rep.bound("stress_rounds_non_deciding", tier.pick(2000, 10000));
    let mut schedules = 0u64;
    let mut sync_ops = 0u64;
    let mut covered = Vec::new();
    for (sc, bound, limit) in &scenarios {
        let r = run_with_timeout(Command::new(format!("{}/release/c18loom", target_dir())).arg(sc).arg(bound), Duration::from_secs(*limit));
        match r {
            Err(m) => {
                // a cap, not a verdict
                rep.exhaustive = false;
                rep.note(format!("scenario {sc} (preemption bound {bound}) {m}: not covered"));
                acc.count("scenarios_timed_out", 1);
            }
            Ok((code, text)) => {
                let line = text.lines().rev().find(|l| l.starts_with('{')).unwrap_or("");
                match serde_json::from_str::<serde_json::Value>(line) {
                    Ok(j) => {
                        let n = j.get("executions").and_then(|x| x.as_u64()).unwrap_or(0);
                        schedules += n;
                        sync_ops += j.get("sync_ops").and_then(|x| x.as_u64()).unwrap_or(0);
                        acc.count("executions", n);
                        acc.count(&format!("schedules_{sc}_bound_{bound}"), n);
                        covered.push(json!({"scenario": sc, "preemption_bound": bound, "schedules": n}));
                        acc.outcome(format!("loom:{sc}:ok"));
                        for v in j.get("violations").and_then(|v| v.as_array()).cloned().unwrap_or_default() {
                            let v = v.as_str().unwrap_or("").to_string();
                            acc.violation(Violation {
                                sig: format!("loom/{sc}"),
                                what: format!("scenario {sc}, preemption bound {bound}: {v}"),
                                case: json!({"kind": "loom", "scenario": sc, "bound": bound}),
                                size: v.len(),
                            });
                        }
                    }
                    Err(_) => acc.machinery(format!("loom harness for {sc} exited with {code:?} without a result line")),
                }
            }
        }
    }
    if schedules == 0 {
        acc.machinery("no loom schedule explored");
    }
    migration_leg(&mut acc, tier.pick(20, 200));
    let crowd: Vec<usize> = tier.pick(vec![17, 33], vec![17, 33, 65, 130]);
    for &n in &crowd {
        thread_crowd_leg(&mut acc, n);
    }
    rep.bound("thread_crowd_sizes", crowd);
    // thousands of evaluations of the shared ruleset waiting inside a user function at once, part of
    // them abandoned (the leg is C12's, see c12.rs; here it is the "many tasks" reading of sharing)
    let gate_sizes: Vec<usize> = tier.pick(vec![1100, 2100], vec![1100, 2100, 4200, 16500, 66000]);
    for &n in &gate_sizes {
        super::c12::gate_crowd_leg(&mut acc, n, "C18");
    }
    rep.bound("gate_crowd_sizes", format!("{gate_sizes:?}"));
    for (h, d) in tier.pick(vec![(16usize, 100usize), (40, 40)], vec![(16, 100), (40, 40), (64, 200), (200, 20)]) {
        serialization_crowd_leg(&mut acc, h, d);
    }
    rep.bound("serialization_crowd", tier.pick("16 threads x 100 levels, 40 x 40", "16 x 100, 40 x 40, 64 x 200, 200 x 20"));
    stress_leg(&mut acc, tier.pick(2000, 10000), tier.pick(100_000, 600_000));
    acc.sample("scenario", 1, || json!({"two": "2 threads, rules [c(id), n(id), c(id), c(other), bad(id)], inputs {id:1,other:2} / {id:2,other:1}, every user-function call suspends once", "handoff": "thread 0 polls an evaluation once, hands the future to thread 1 which finishes it while thread 0 runs another evaluation"}));
    let hits = scan_repo();
    let unmodelled: Vec<&String> = hits.iter().filter(|h| !h.contains("lazy_static") && !h.contains("EMPTY_RULES")).collect();
    if !unmodelled.is_empty() {
        println!("WARNING property=C18 reval now contains state or synchronisation primitives that the loom exploration does not own ({} source lines, see closed_world_scan in the evidence); only the migration and stress legs can observe them", unmodelled.len());
        rep.note(format!("{} source lines with state/synchronisation primitives outside the loom model", unmodelled.len()));
    }
    rep.extra.insert("closed_world_scan".into(), json!(hits));
    rep.extra.insert("loom_scenarios".into(), json!(covered));
    rep.extra.insert("schedules".into(), json!(schedules));
    rep.absorb(acc);
    rep.states = schedules;
    rep.transitions = sync_ops.max(schedules);
    rep.traces = schedules;
    rep.rule = "loom (DPOR, preemption-bounded) over 2-3 model threads each running block_on(evaluate_value) on one Arc<RuleSet> with distinct inputs; user functions take a loom mutex, bump loom atomics and suspend once, which gives loom its scheduling points exactly where evaluations can meet; plus a hand-off scenario in which a suspended evaluation is finished on another thread, and a migration leg on real OS threads (strictly alternating, deterministic: an evaluation is polled k times on thread A and finished on thread B, N times in a row for every suspension point k, then A evaluates afresh; this is where per-thread state inside reval would show, which loom cannot see because its model threads share one OS thread), and a thread-crowd leg (17..130 OS threads each owning one in-flight evaluation of the shared ruleset, polled one at a time by a coordinator: round-robin both ways and one evaluation finished early, overlapping arguments, per-evaluation call logs); oracle: every evaluation's outcomes equal the sequential run and the invocation log is a permutation of the sequential logs; states = schedules explored, transitions = synchronisation operations executed".into();
    rep.assume("type-level half (Send/Sync of the public types and evaluation futures) is decided by rustc when mc/c18gate is compiled, not by exploration");
    rep.assume("the stress leg (8 OS threads, barrier-released rounds) samples schedules and is labelled non-deciding: a mismatch it reports is real, its silence is not evidence");
    rep.assume("loom only sees loom types: reval has no synchronisation primitive of its own (closed_world_scan lists what a grep for such primitives finds in /repo/src); a std lock added to reval would be invisible to the scheduler");
    rep.finish()
}

pub fn replay(case: &serde_json::Value) -> i32 {
    match case.get("kind").and_then(|k| k.as_str()) {
        Some("gate") => {
            let (ok, out) = cargo(&["check", "-q", "-p", "c18gate", "--offline"]);
            println!("{out}");
            if ok {
                0
            } else {
                1
            }
        }
        Some("loom") => {
            let sc = case.get("scenario").and_then(|s| s.as_str()).unwrap_or("two");
            let b = case.get("bound").and_then(|s| s.as_str()).unwrap_or("2");
            let (ok, out) = cargo(&["build", "-q", "--release", "-p", "c18loom", "--offline"]);
            if !ok {
                println!("{out}");
                return 2;
            }
            match run_with_timeout(Command::new(format!("{}/release/c18loom", target_dir())).arg(sc).arg(b), Duration::from_secs(600)) {
                Ok((_, text)) => {
                    println!("{text}");
                    if text.contains("\"violations\":[]") {
                        0
                    } else {
                        1
                    }
                }
                Err(m) => {
                    println!("{m}");
                    2
                }
            }
        }
        Some(k @ ("migration" | "thread-crowd" | "serialization-crowd" | "gate-crowd")) => {
            let mut acc = Acc::new();
            if k == "gate-crowd" {
                super::c12::gate_crowd_leg(&mut acc, case.get("n").and_then(|n| n.as_u64()).unwrap_or(1100) as usize, "C18");
            } else if k == "migration" {
                migration_leg(&mut acc, 200);
            } else if k == "serialization-crowd" {
                serialization_crowd_leg(&mut acc, case.get("holders").and_then(|n| n.as_u64()).unwrap_or(16) as usize, case.get("depth").and_then(|n| n.as_u64()).unwrap_or(100) as usize);
            } else {
                thread_crowd_leg(&mut acc, case.get("n").and_then(|n| n.as_u64()).unwrap_or(17) as usize);
            }
            if acc.violations.is_empty() {
                println!("verdict: holds");
                0
            } else {
                for v in acc.violations.values() {
                    println!("verdict: VIOLATED — {}", v.what);
                }
                1
            }
        }
        _ => 2,
    }
}
