//! C18 — rulesets can be shared across threads and evaluated from any task.
//! Type-level half: the gate crate compiles only if the Send/Sync bounds hold (decided by rustc).
//! Behavioural half: loom explores all interleavings (within a preemption bound) of threads
//! evaluating one shared ruleset; driven from here as a child process.
use crate::engine::report::{repo_dir, target_dir, verif_dir, Acc, Report, Tier, Violation};
use serde_json::json;
use std::process::Command;
use std::time::{Duration, Instant};

fn cargo(args: &[&str]) -> (bool, String) {
    let mut cmd = Command::new("cargo");
    cmd.args(args).current_dir(format!("{}/mc", verif_dir())).env("CARGO_NET_OFFLINE", "true").env("CARGO_TARGET_DIR", target_dir());
    if repo_dir() != "/repo" {
        cmd.arg("--config").arg(format!("paths=[\"{}\"]", repo_dir()));
    }
    let out = cmd.output();
    match out {
        Ok(o) => (o.status.success(), format!("{}{}", String::from_utf8_lossy(&o.stdout), String::from_utf8_lossy(&o.stderr))),
        Err(e) => (false, format!("cannot run cargo: {e}")),
    }
}

fn run_with_timeout(cmd: &mut Command, limit: Duration) -> Result<(Option<i32>, String), String> {
    use std::io::Read;
    let mut child = cmd.stdout(std::process::Stdio::piped()).stderr(std::process::Stdio::null()).spawn().map_err(|e| e.to_string())?;
    let start = Instant::now();
    loop {
        match child.try_wait() {
            Ok(Some(st)) => {
                let mut s = String::new();
                if let Some(mut o) = child.stdout.take() {
                    let _ = o.read_to_string(&mut s);
                }
                return Ok((st.code(), s));
            }
            Ok(None) => {
                if start.elapsed() > limit {
                    let _ = child.kill();
                    let _ = child.wait();
                    return Err(format!("timed out after {:?}", limit));
                }
                std::thread::sleep(Duration::from_millis(50));
            }
            Err(e) => return Err(e.to_string()),
        }
    }
}

fn scan_repo() -> Vec<String> {
    let mut hits = Vec::new();
    let pats = ["unsafe", "static mut", "Mutex", "RwLock", "Atomic", "Cell<", "RefCell", "thread_local", "OnceLock", "OnceCell", "lazy_static"];
    fn walk(dir: &std::path::Path, out: &mut Vec<std::path::PathBuf>) {
        if let Ok(rd) = std::fs::read_dir(dir) {
            for e in rd.flatten() {
                let p = e.path();
                if p.is_dir() {
                    walk(&p, out);
                } else if p.extension().map(|x| x == "rs").unwrap_or(false) {
                    out.push(p);
                }
            }
        }
    }
    let mut files = Vec::new();
    walk(std::path::Path::new(&format!("{}/src", repo_dir())), &mut files);
    files.sort();
    for f in files {
        if let Ok(text) = std::fs::read_to_string(&f) {
            for (i, line) in text.lines().enumerate() {
                let code = line.split("//").next().unwrap_or("");
                for p in pats {
                    if code.contains(p) {
                        hits.push(format!("{}:{}: {}", f.display(), i + 1, line.trim()));
                        break;
                    }
                }
            }
        }
    }
    hits
}

pub fn run(tier: Tier) -> i32 {
    let mut rep = Report::new("C18", tier);
    let mut acc = Acc::new();
    // 1. type-level gate
    let (ok, out) = cargo(&["check", "-q", "-p", "c18gate", "--offline"]);
    acc.count("executions", 1);
    if !ok {
        let auto_trait = out.contains("cannot be sent between threads safely") || out.contains("cannot be shared between threads safely") || out.contains("is not `Send`") || out.contains("is not `Sync`");
        if auto_trait {
            let first: Vec<&str> = out.lines().filter(|l| l.contains("error")).take(6).collect();
            acc.violation(Violation {
                sig: "type-level/send-sync".into(),
                what: format!("the Send/Sync gate no longer compiles: {}", first.join(" | ")),
                case: json!({"kind": "gate", "compiler_output": out.chars().take(6000).collect::<String>()}),
                size: 1,
            });
            acc.outcome("gate:violated");
            acc.outcome("gate");
            rep.absorb(acc);
            rep.states = 1;
            rep.transitions = 1;
            rep.traces = 1;
            rep.note("behavioural exploration skipped: the loom harness needs the bounds to compile");
            return rep.finish();
        }
        acc.machinery(format!("gate crate failed to build for another reason: {}", out.lines().filter(|l| l.contains("error")).take(4).collect::<Vec<_>>().join(" | ")));
        rep.absorb(acc);
        return rep.finish();
    }
    acc.outcome("gate:compiles");
    // 2. loom exploration
    let (ok, out) = cargo(&["build", "-q", "--release", "-p", "c18loom", "--offline"]);
    if !ok {
        acc.machinery(format!("loom harness failed to build: {}", out.lines().filter(|l| l.contains("error")).take(4).collect::<Vec<_>>().join(" | ")));
        rep.absorb(acc);
        return rep.finish();
    }
    let scenarios: Vec<(&str, &str, u64)> = match tier {
        Tier::Quick => vec![("two", "2", 60), ("two-short", "3", 60), ("handoff", "2", 60), ("two-nosuspend", "3", 60)],
        Tier::Thorough => vec![("two", "4", 600), ("two-short", "none", 600), ("handoff", "4", 600), ("two-nosuspend", "none", 600), ("three", "1", 600)],
    };
    let mut schedules = 0u64;
    let mut sync_ops = 0u64;
    let mut covered = Vec::new();
    for (sc, bound, limit) in &scenarios {
        let r = run_with_timeout(Command::new(format!("{}/release/c18loom", target_dir())).arg(sc).arg(bound), Duration::from_secs(*limit));
        match r {
            Err(m) => {
                // a cap, not a verdict
                rep.exhaustive = false;
                rep.note(format!("scenario {sc} (preemption bound {bound}) {m}: not covered"));
                acc.count("scenarios_timed_out", 1);
            }
            Ok((code, text)) => {
                let line = text.lines().rev().find(|l| l.starts_with('{')).unwrap_or("");
                match serde_json::from_str::<serde_json::Value>(line) {
                    Ok(j) => {
                        let n = j.get("executions").and_then(|x| x.as_u64()).unwrap_or(0);
                        schedules += n;
                        sync_ops += j.get("sync_ops").and_then(|x| x.as_u64()).unwrap_or(0);
                        acc.count("executions", n);
                        acc.count(&format!("schedules_{sc}_bound_{bound}"), n);
                        covered.push(json!({"scenario": sc, "preemption_bound": bound, "schedules": n}));
                        acc.outcome(format!("loom:{sc}:ok"));
                        for v in j.get("violations").and_then(|v| v.as_array()).cloned().unwrap_or_default() {
                            let v = v.as_str().unwrap_or("").to_string();
                            acc.violation(Violation {
                                sig: format!("loom/{sc}"),
                                what: format!("scenario {sc}, preemption bound {bound}: {v}"),
                                case: json!({"kind": "loom", "scenario": sc, "bound": bound}),
                                size: v.len(),
                            });
                        }
                    }
                    Err(_) => acc.machinery(format!("loom harness for {sc} exited with {code:?} without a result line")),
                }
            }
        }
    }
    if schedules == 0 {
        acc.machinery("no loom schedule explored");
    }
    acc.sample("scenario", 1, || json!({"two": "2 threads, rules [c(id), n(id), c(id), c(other), bad(id)], inputs {id:1,other:2} / {id:2,other:1}, every user-function call suspends once", "handoff": "thread 0 polls an evaluation once, hands the future to thread 1 which finishes it while thread 0 runs another evaluation"}));
    let hits = scan_repo();
    rep.extra.insert("closed_world_scan".into(), json!(hits));
    rep.extra.insert("loom_scenarios".into(), json!(covered));
    rep.extra.insert("schedules".into(), json!(schedules));
    rep.absorb(acc);
    rep.states = schedules;
    rep.transitions = sync_ops.max(schedules);
    rep.traces = schedules;
    rep.rule = "loom (DPOR, preemption-bounded) over 2-3 model threads each running block_on(evaluate_value) on one Arc<RuleSet> with distinct inputs; user functions take a loom mutex, bump loom atomics and suspend once, which gives loom its scheduling points exactly where evaluations can meet; plus a hand-off scenario in which a suspended evaluation is finished on another thread; oracle: every evaluation's outcomes equal the sequential run and the invocation log is a permutation of the sequential logs; states = schedules explored, transitions = synchronisation operations executed".into();
    rep.assume("type-level half (Send/Sync of the public types and evaluation futures) is decided by rustc when mc/c18gate is compiled, not by exploration");
    rep.assume("loom only sees loom types: reval has no synchronisation primitive of its own (closed_world_scan lists what a grep for such primitives finds in /repo/src); a std lock added to reval would be invisible to the scheduler");
    rep.finish()
}

pub fn replay(case: &serde_json::Value) -> i32 {
    match case.get("kind").and_then(|k| k.as_str()) {
        Some("gate") => {
            let (ok, out) = cargo(&["check", "-q", "-p", "c18gate", "--offline"]);
            println!("{out}");
            if ok {
                0
            } else {
                1
            }
        }
        Some("loom") => {
            let sc = case.get("scenario").and_then(|s| s.as_str()).unwrap_or("two");
            let b = case.get("bound").and_then(|s| s.as_str()).unwrap_or("2");
            let (ok, out) = cargo(&["build", "-q", "--release", "-p", "c18loom", "--offline"]);
            if !ok {
                println!("{out}");
                return 2;
            }
            match run_with_timeout(Command::new(format!("{}/release/c18loom", target_dir())).arg(sc).arg(b), Duration::from_secs(600)) {
                Ok((_, text)) => {
                    println!("{text}");
                    if text.contains("\"violations\":[]") {
                        0
                    } else {
                        1
                    }
                }
                Err(m) => {
                    println!("{m}");
                    2
                }
            }
        }
        _ => 2,
    }
}
