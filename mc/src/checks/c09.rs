//! C09 — one outcome per rule, in order, each isolated from the others.
//! E1 over rule sequences x inputs x failing (function, argument) sets; oracle = reference
//! evaluator + solo differential + rule identity.
use super::probe::*;
use crate::engine::choice::{explore, SharedChooser, TreeStats};
use crate::engine::exec::block_on;
use crate::engine::panic::catch;
use crate::engine::report::{Acc, Report, Tier, Violation};
use crate::spec::eval::*;
use crate::spec::re::*;
use crate::spec::rv::*;
use rayon::prelude::*;
use reval::prelude::*;
use reval::value::ser::ValueSerializer;
use serde::Serialize;
use serde_json::json;
use std::collections::BTreeMap;
use std::sync::{Arc, Mutex};

fn rule_pool() -> Vec<(&'static str, &'static str)> {
    vec![
        ("const", "i1"),
        ("field", "x"),
        ("symbol", ":s"),
        ("type_err", "i1 + \"a\""),
        ("div_zero", "i1 / i0"),
        ("bad_cast", "int(\"zz\")"),
        ("out_of_bounds", "week(i9223372036854775807)"),
        ("unknown_ref", "missing"),
        ("bad_symbol", ":nosuch"),
        ("unknown_fn", "nofn(i1)"),
        ("call_c", "c(i1)"),
        ("call_n", "n(i1)"),
        ("call_c_again", "is_some(c(i1))"),
        ("call_c_none", "[c(x.zz), n(none)]"),
        ("nested", "{a: x, b: [c(i2), :s]}"),
        ("call_c_dec", "c(d1)"),
        ("call_c_m1", "c(m1)"),
        ("call_c_m2", "c(m2)"),
        ("call_c_field_s", "c(s)"),
        ("call_c_symbol_s", "[c(:s), n(:s)]"),
        ("call_c_similar", "[c(d1.0), c(f0.0), c(f-0.0), c(i1)]"),
        // container symbols used directly as operands: a failing rule stays a failing rule
        ("sym_in_map_bad_item", "x.y in :blocked"),
        ("sym_in_map", "[\"a\" in :blocked, :blocked contains \"zz\", i1 in :allowed, :allowed contains none]"),
        ("sym_index", "[:blocked.a, :allowed.1, :blocked.zz, :nn.a]"),
        ("sym_index_bad", ":s.a"),
        ("sym_index_bad_kind", ":blocked.0"),
        ("sym_and_flag", "[x.y and :off, x.y or :on]"),
        // the same string / None argument handed to the cacheable function by a second rule
        ("call_c_field_s_again", "is_some(c(s))"),
        ("call_c_none_again", "c(none)"),
    ]
}

fn inputs() -> Vec<(&'static str, RV)> {
    vec![
        (
            "map",
            RV::map(&[
                ("x", RV::map(&[("y", RV::Int(5))])),
                // two different maps that coincide under an unquoted rendering; a field named like a symbol
                ("m1", RV::map(&[("a", RV::Int(1)), ("b", RV::Int(2))])),
                ("m2", RV::map(&[("a: i1, b", RV::Int(2))])),
                ("s", RV::Str("field-s".into())),
            ]),
        ),
        ("map-without-fields", RV::map(&[("other", RV::Int(1))])),
        ("none", RV::None),
        ("non-map", RV::Int(5)),
    ]
}

fn symbols() -> BTreeMap<String, RV> {
    [
        ("s".to_string(), RV::Str("sym".into())),
        ("blocked".to_string(), RV::map(&[("a", RV::Int(1)), ("0", RV::Int(2))])),
        ("allowed".to_string(), RV::List(vec![RV::Int(1), RV::Str("a".into())])),
        ("nn".to_string(), RV::None),
        ("on".to_string(), RV::Bool(true)),
        ("off".to_string(), RV::Bool(false)),
    ]
    .into_iter()
    .collect()
}

/// deterministic function value: depends on function and argument only
fn fn_value(name: &str, arg: &RV) -> RV {
    RV::List(vec![RV::Str(name.to_string()), arg.clone()])
}

#[derive(Default)]
struct World {
    chooser: Option<SharedChooser>,
    /// (function, argument) -> fails?  decided at the first call, fixed afterwards (deterministic functions)
    fails: BTreeMap<(String, RV), bool>,
    calls: u64,
}

struct DetEnv<'a> {
    facts: RV,
    syms: BTreeMap<String, RV>,
    fails: &'a BTreeMap<(String, RV), bool>,
}

impl Env for DetEnv<'_> {
    fn facts(&self) -> &RV {
        &self.facts
    }
    fn symbol(&self, n: &str) -> Option<RV> {
        self.syms.get(n).cloned()
    }
    fn call(&mut self, name: &str, arg: &RV) -> RRes {
        if name != "c" && name != "n" {
            return Err(RErr::UnknownUserFunction(name.to_string()));
        }
        match self.fails.get(&(name.to_string(), arg.clone())) {
            Some(true) => Err(RErr::UserFunctionError(name.to_string(), 0)),
            _ => Ok(fn_value(name, arg)),
        }
    }
}

fn handler(world: &Arc<Mutex<World>>) -> Handler {
    let w = world.clone();
    Arc::new(move |name, param| {
        let mut g = w.lock().unwrap();
        g.calls += 1;
        let arg = RV::from_value(&param);
        let key = (name.to_string(), arg.clone());
        let fails = match g.fails.get(&key) {
            Some(f) => *f,
            None => {
                let f = match &g.chooser {
                    Some(c) => c.lock().unwrap().choose(2) == 1,
                    None => false,
                };
                g.fails.insert(key, f);
                f
            }
        };
        if fails {
            // string and None arguments fail the way `param.try_into()?` does inside a user function
            // (a reval error travelling through anyhow), the others with the harness's own error type
            if matches!(arg, RV::Str(_) | RV::None) {
                (Err(anyhow::Error::new(reval::Error::UnexpectedValueType(Value::Int(0), "harness".to_string()))), 0)
            } else {
                (Err(anyhow::Error::new(Injected(0))), 0)
            }
        } else {
            (Ok(fn_value(name, &arg).to_value()), 0)
        }
    })
}

fn build(rules: &[Rule], world: &Arc<Mutex<World>>) -> Result<RuleSet, String> {
    let h = handler(world);
    let mut b = ruleset();
    // the first rule is added alone, the rest as one batch: both entry points, order must hold
    if let Some(first) = rules.first() {
        b = b.with_rule(first.clone()).map_err(|e| format!("with_rule: {e}"))?;
        b = b.with_rules(rules[1..].to_vec()).map_err(|e| format!("with_rules: {e}"))?;
    }
    b = b.with_function(probe("c", true, &h)).map_err(|e| format!("{e}"))?;
    b = b
        .with_functions(vec![Box::new(probe("n", false, &h)) as Box<dyn UserFunction + Send + Sync + 'static>])
        .map_err(|e| format!("{e}"))?;
    for (k, v) in symbols() {
        b = b.with_symbol(k, v.to_value());
    }
    Ok(b.build())
}

type RuleObs = (String, Obs);

/// evaluate a ruleset; returns per outcome (rule name, observation) and the rule pointers
fn evaluate(rs: &RuleSet, facts: &Value) -> Result<(Vec<RuleObs>, Vec<usize>, Vec<Rule>), String> {
    let r = catch(|| block_on(rs.evaluate_value(facts)));
    match r {
        Err(p) => Err(format!("PANIC: {p}")),
        Ok(Err(m)) => Err(format!("MACHINERY: {m}")),
        Ok(Ok(Err(e))) => Err(format!("evaluate_value returned Err: {e}")),
        Ok(Ok(Ok(out))) => {
            let mut obs = Vec::new();
            let mut ptrs = Vec::new();
            let mut rules = Vec::new();
            for o in out {
                ptrs.push(o.rule as *const Rule as usize);
                rules.push(o.rule.clone());
                obs.push((o.rule.name().to_string(), observe(Ok(o.value))));
            }
            Ok((obs, ptrs, rules))
        }
    }
}

struct Ctx {
    rules: Vec<Rule>,
    trees: Vec<RE>,
    names: Vec<&'static str>,
}

fn check_sequence(seq: &[usize], ctx: &Ctx, acc: &mut Acc) -> TreeStats {
    let rules: Vec<Rule> = seq.iter().map(|&i| ctx.rules[i].clone()).collect();
    let label: String = seq.iter().map(|&i| ctx.names[i]).collect::<Vec<_>>().join(",");
    let world = Arc::new(Mutex::new(World::default()));
    let rs = match build(&rules, &world) {
        Ok(r) => r,
        Err(m) => {
            acc.machinery(m);
            return TreeStats::default();
        }
    };
    let ins = inputs();
    let res = explore(&[], None, 1_000_000, |ch, _| {
        // choice 0: which input
        let which = ch.lock().unwrap().choose(ins.len() as u32) as usize;
        let (in_name, facts_rv) = &ins[which];
        let facts = facts_rv.to_value();
        {
            let mut g = world.lock().unwrap();
            g.chooser = Some(ch.clone());
            g.fails.clear();
            g.calls = 0;
        }
        let got = evaluate(&rs, &facts);
        let fails = {
            let mut g = world.lock().unwrap();
            g.chooser = None;
            g.fails.clone()
        };
        acc.count("executions", 1);
        let mut bad = |which: &str, desc: String, acc: &mut Acc| {
            let failing: Vec<String> = fails.iter().filter(|(_, f)| **f).map(|((n, a), _)| format!("{n}({})", a.show())).collect();
            acc.violation(Violation {
                sig: format!("rules[{label}]/{in_name}/{which}"),
                what: format!("rules [{label}] on input {in_name}, failing calls {failing:?}: {desc}"),
                case: json!({"kind": "sequence", "rules": seq, "input": which_index(in_name), "failing": failing}),
                size: seq.len() * 100 + failing.len(),
            });
        };
        let (obs, ptrs, orules) = match got {
            Err(m) => {
                bad("whole-call", m, acc);
                return;
            }
            Ok(x) => x,
        };
        acc.outcome(obs.iter().map(|(_, o)| o.class()).collect::<Vec<_>>().join("|"));
        // one outcome per rule, in order, carrying its rule
        if obs.len() != rules.len() {
            bad("count", format!("{} outcomes for {} rules", obs.len(), rules.len()), acc);
            return;
        }
        for (i, r) in rules.iter().enumerate() {
            if orules[i] != *r {
                bad("rule-identity", format!("outcome {i} carries rule {:?}, expected {:?}", orules[i].name(), r.name()), acc);
                return;
            }
        }
        let mut uniq = ptrs.clone();
        uniq.sort();
        uniq.dedup();
        if uniq.len() != ptrs.len() {
            bad("rule-identity", "two outcomes reference the same rule object".into(), acc);
            return;
        }
        // reference evaluator
        for (i, &ri) in seq.iter().enumerate() {
            let mut env = DetEnv { facts: facts_rv.clone(), syms: symbols(), fails: &fails };
            let exp = eval(&ctx.trees[ri], &mut env);
            if conforms(&exp, &obs[i].1) == Some(false) {
                bad(
                    "reference",
                    format!("outcome {i} ({}) is {}, reference evaluator gives {}", ctx.names[ri], obs[i].1.show(), show_exp(&exp)),
                    acc,
                );
                return;
            }
        }
        // solo differential: each rule alone in a fresh ruleset with the same deterministic functions
        for (i, r) in rules.iter().enumerate() {
            let w2 = Arc::new(Mutex::new(World { chooser: None, fails: fails.clone(), calls: 0 }));
            let solo = match build(std::slice::from_ref(r), &w2) {
                Ok(s) => s,
                Err(m) => {
                    acc.machinery(m);
                    return;
                }
            };
            match evaluate(&solo, &facts) {
                Ok((so, _, _)) if so.len() == 1 => {
                    if so[0].1 != obs[i].1 {
                        bad("isolation", format!("outcome {i} ({}) is {} in the ruleset but {} when the rule is evaluated alone", r.name(), obs[i].1.show(), so[0].1.show()), acc);
                        return;
                    }
                }
                other => {
                    bad("isolation", format!("solo evaluation of {} did not produce one outcome: {:?}", r.name(), other.map(|x| x.0)), acc);
                    return;
                }
            }
        }
        // a second evaluation of the same ruleset returns the same rule objects
        if let Ok((_, ptrs2, _)) = evaluate(&rs, &facts) {
            if ptrs2 != ptrs {
                bad("rule-identity", "a second evaluation returns different rule objects".into(), acc);
            }
        }
    });
    acc.sample("sequence", 3, || json!({"rules": label}));
    match res {
        Ok(s) => s,
        Err((s, m)) => {
            acc.machinery(format!("sequence [{label}]: {m}"));
            s
        }
    }
}

fn which_index(name: &str) -> usize {
    inputs().iter().position(|(n, _)| *n == name).unwrap_or(0)
}

fn sequences(n: usize, max_len: usize) -> Vec<Vec<usize>> {
    let mut out: Vec<Vec<usize>> = vec![vec![]];
    let mut frontier: Vec<Vec<usize>> = vec![vec![]];
    for _ in 0..max_len {
        let mut next = Vec::new();
        for s in &frontier {
            for i in 0..n {
                if !s.contains(&i) {
                    let mut t = s.clone();
                    t.push(i);
                    next.push(t);
                }
            }
        }
        out.extend(next.iter().cloned());
        frontier = next;
    }
    out
}

// ---- serializable inputs -------------------------------------------------------------------

#[derive(Serialize)]
struct Facts1 {
    x: BTreeMap<String, i64>,
}
#[derive(Serialize)]
struct Facts2 {
    x: Option<u8>,
    other: (i8, String),
}
struct FailingSer;
impl Serialize for FailingSer {
    fn serialize<S: serde::Serializer>(&self, _s: S) -> Result<S::Ok, S::Error> {
        Err(serde::ser::Error::custom("injected serialize failure"))
    }
}
#[derive(Serialize)]
struct Facts3 {
    x: i32,
    bad: FailingSer,
}

fn check_serialized<T: Serialize>(name: &str, t: &T, rs: &RuleSet, world: &Arc<Mutex<World>>, acc: &mut Acc) {
    world.lock().unwrap().fails.clear();
    let ser = catch(|| t.serialize(ValueSerializer));
    let direct = catch(|| block_on(rs.evaluate(t)));
    acc.count("executions", 1);
    acc.count("serializable_inputs", 1);
    let mut bad = |desc: String, acc: &mut Acc| {
        acc.violation(Violation {
            sig: format!("evaluate-serializable/{name}"),
            what: format!("evaluate(&{name}): {desc}"),
            case: json!({"kind": "serializable", "input": name}),
            size: 1,
        })
    };
    let (ser, direct) = match (ser, direct) {
        (Ok(s), Ok(Ok(d))) => (s, d),
        (s, d) => {
            bad(format!("panic or machinery problem: serialize={:?} evaluate={:?}", s.err(), d.err()), acc);
            return;
        }
    };
    acc.outcome(format!("serializable:{}:{}", name, if direct.is_ok() { "Ok" } else { "Err" }));
    match (ser, direct) {
        (Err(_), Err(_)) => {}
        (Err(e), Ok(_)) => bad(format!("input does not serialize ({e}) but evaluate succeeded"), acc),
        (Ok(_), Err(e)) => bad(format!("input serializes but evaluate failed as a whole: {e}"), acc),
        (Ok(v), Ok(out)) => {
            let a: Vec<RuleObs> = out.into_iter().map(|o| (o.rule.name().to_string(), observe(Ok(o.value)))).collect();
            world.lock().unwrap().fails.clear();
            match evaluate(rs, &v) {
                Ok((b, _, _)) => {
                    if a != b {
                        bad(format!("outcomes differ from evaluate_value(&serialized): {:?} vs {:?}", a.iter().map(|x| x.1.show()).collect::<Vec<_>>(), b.iter().map(|x| x.1.show()).collect::<Vec<_>>()), acc);
                    }
                }
                Err(m) => bad(m, acc),
            }
        }
    }
}

/// a long ruleset: hundreds of rules that fail deep inside a nest of operators (every error class,
/// at several nesting depths), with a good rule after every few of them; whatever the failing
/// rules leave behind, every outcome equals the reference value of its own rule
fn long_ruleset_leg(n: usize, acc: &mut Acc) {
    let failing = ["missing", "i1 / i0", "i1 + \"a\"", "int(\"zz\")", ":nosuch", "nofn(i1)", "week(i9223372036854775807)", "x.y.z.w + i1", "[i1].5 + i1"];
    let mut texts: Vec<String> = Vec::new();
    for i in 0..n {
        if i % 7 == 6 {
            texts.push(format!("x.y + i{i}"));
            continue;
        }
        let core = failing[i % failing.len()];
        let depth = 1 + (i / failing.len()) % 6;
        let mut t = format!("({core})");
        for d in 0..depth {
            t = match (i + d) % 5 {
                0 => format!("(({t} + i{i}) * i2)"),
                1 => format!("[i1, {t}, i3]"),
                2 => format!("{{k: ({t} - i3) / i4}}"),
                3 => format!("is_some(int({t}))"),
                _ => format!("(({t} > i0) == true)"),
            };
        }
        texts.push(t);
    }
    let mut rules = Vec::new();
    let mut trees = Vec::new();
    for (i, t) in texts.iter().enumerate() {
        match super::common::parse_expr(t) {
            Ok(Ok(e)) => {
                trees.push(RE::from_expr(&e));
                rules.push(Rule::new(format!("r{i}"), BTreeMap::new(), e));
            }
            other => return acc.machinery(format!("long-ruleset rule {t:?} does not parse: {other:?}")),
        }
    }
    let world = Arc::new(Mutex::new(World::default()));
    let rs = match build(&rules, &world) {
        Ok(r) => r,
        Err(m) => return acc.machinery(m),
    };
    let (_, input) = inputs().into_iter().next().unwrap();
    let fails = BTreeMap::new();
    for round in 0..2 {
        acc.count("executions", 1);
        match evaluate(&rs, &input.to_value()) {
            Err(m) => {
                acc.violation(Violation { sig: "long-ruleset/failed".into(), what: format!("evaluation of {n} rules failed as a whole: {m}"), case: json!({"kind": "long-ruleset", "n": n}), size: n });
                return;
            }
            Ok((obs, _, _)) => {
                if obs.len() != n {
                    acc.violation(Violation { sig: "long-ruleset/count".into(), what: format!("{} outcomes for {n} rules", obs.len()), case: json!({"kind": "long-ruleset", "n": n}), size: n });
                    return;
                }
                for (i, (name, o)) in obs.iter().enumerate() {
                    let mut env = DetEnv { facts: input.clone(), syms: symbols(), fails: &fails };
                    let exp = eval(&trees[i], &mut env);
                    if *name != format!("r{i}") || conforms(&exp, o) == Some(false) {
                        acc.violation(Violation {
                            sig: "long-ruleset/outcome".into(),
                            what: format!("ruleset of {n} rules (round {round}): outcome {i} ({name}, `{}`) is {}, its rule alone gives {}", texts[i], o.show(), show_exp(&exp)),
                            case: json!({"kind": "long-ruleset", "n": n}),
                            size: i,
                        });
                        return;
                    }
                }
            }
        }
    }
    acc.outcome("long-ruleset");
}



/// an input whose serialization is observable: every call of `serialize` yields the next tick.
/// One evaluation reads its input once, so all rules of that evaluation see the same tick.
struct Ticking(std::sync::atomic::AtomicU64);
impl Serialize for Ticking {
    fn serialize<S: serde::Serializer>(&self, s: S) -> Result<S::Ok, S::Error> {
        use serde::ser::SerializeStruct;
        let t = self.0.fetch_add(1, std::sync::atomic::Ordering::SeqCst);
        let mut st = s.serialize_struct("Ticking", 1)?;
        st.serialize_field("tick", &t)?;
        st.end()
    }
}

pub fn single_read_leg(acc: &mut Acc) {
    for n_rules in [1usize, 2, 5, 40] {
        let rules: Vec<Rule> = (0..n_rules).map(|i| Rule::new(format!("t{i}"), BTreeMap::new(), if i % 2 == 0 { Expr::reff("tick") } else { Expr::index(Expr::reff("facts"), reval::expr::Index::Map("tick".into())) })).collect();
        let rs = match ruleset().with_rules(rules) {
            Ok(b) => b.build(),
            Err(e) => return acc.machinery(format!("single-read leg: {e}")),
        };
        let facts = Ticking(std::sync::atomic::AtomicU64::new(100));
        for round in 0..3u64 {
            acc.count("executions", 1);
            let got = crate::engine::panic::catch(|| crate::engine::exec::block_on(rs.evaluate(&facts)));
            let shown: Vec<String> = match &got {
                Ok(Ok(Ok(out))) => out.iter().map(|o| format!("{:?}", o.value.as_ref().map_err(|e| e.to_string()))).collect(),
                other => vec![format!("{:?}", other.as_ref().map(|r| r.as_ref().map(|x| x.as_ref().map(|o| o.len()).map_err(|e| e.to_string()))))],
            };
            let want: Vec<String> = (0..n_rules).map(|_| format!("Ok(Int({}))", 100 + round)).collect();
            if shown != want {
                acc.violation(Violation {
                    sig: "single-read/outcomes".into(),
                    what: format!("evaluate(&T) of {n_rules} rules on an input whose every serialization yields the next tick (evaluation {round}): outcomes {shown:?}, one reading of the input gives {want:?}"),
                    case: json!({"kind": "single-read"}),
                    size: n_rules,
                });
                return;
            }
        }
    }
    acc.outcome("single-read");
}

/// extra metadata keys a ruleset implementation might give a meaning to
const META_WORDS: [&str; 64] = [
    "enabled", "disabled", "active", "inactive", "skip", "skipped", "ignore", "ignored", "hidden", "deprecated", "priority", "weight", "stop", "final", "halt", "terminal", "tags", "tag", "category", "severity",
    "level", "id", "version", "condition", "guard", "only", "except", "once", "cache", "cached", "cacheable", "parallel", "index", "depends", "requires", "after", "before", "override", "overrides", "extends",
    "inherit", "abstract", "template", "draft", "expires", "valid_from", "valid_to", "since", "until", "ttl", "timeout", "retry", "optional", "required", "mute", "muted", "off", "on", "run", "exclude",
    "include_if", "skip_if", "enabled_if", "result",
];

/// metadata is inert: whatever key / value a rule carries, the ruleset still yields exactly one
/// outcome per rule, in order, holding that rule's own value.  One ruleset per metadata value, one
/// rule per key (plausible keyword-like words and words a scheduler might read), the rules built
/// with `Rule::new` and, where the text parses, with `Rule::parse`.
fn metadata_leg(acc: &mut Acc) -> usize {
    let mut words: Vec<&str> = META_WORDS.to_vec();
    words.extend(super::c15::PLAUSIBLE_WORDS.iter().copied());
    words.sort();
    words.dedup();
    let values: Vec<(&str, Value)> = vec![
        ("false", Value::Bool(false)),
        ("true", Value::Bool(true)),
        ("none", Value::None),
        ("i0", Value::Int(0)),
        ("i1", Value::Int(1)),
        ("i-1", Value::Int(-1)),
        ("\"\"", Value::String(String::new())),
        ("\"false\"", Value::String("false".into())),
        ("\"no\"", Value::String("no".into())),
        ("\"off\"", Value::String("off".into())),
        ("\"never\"", Value::String("never".into())),
        ("[]", Value::Vec(vec![])),
        ("{}", Value::Map(BTreeMap::new())),
        ("f0", Value::Float(0.0)),
        ("d0", Value::Decimal(rust_decimal::Decimal::ZERO)),
    ];
    let mut n = 0;
    for (vtext, value) in &values {
        for route in ["Rule::new", "Rule::parse"] {
            let mut rules: Vec<Rule> = Vec::new();
            let mut want: Vec<(String, i128)> = Vec::new();
            for (i, w) in words.iter().enumerate() {
                let rule = if route == "Rule::new" {
                    let mut m = BTreeMap::new();
                    m.insert(w.to_string(), value.clone());
                    Some(Rule::new(format!("m{i}"), m, Expr::value(i as i128)))
                } else {
                    match crate::engine::panic::catch(|| Rule::parse(&format!("// m{i}\n@{w}: {vtext};\ni{i}"))) {
                        Ok(Ok(r)) => Some(r),
                        _ => None, // the key is a keyword of the language (or `name` / `description` with a non-string): not this check's subject
                    }
                };
                if let Some(r) = rule {
                    want.push((r.name().to_string(), i as i128));
                    rules.push(r);
                }
            }
            if rules.is_empty() {
                acc.machinery(format!("metadata leg: no rule built for value {vtext} via {route}"));
                continue;
            }
            n += rules.len();
            let rs = match ruleset().with_rules(rules) {
                Ok(b) => b.build(),
                Err(e) => {
                    acc.machinery(format!("metadata leg: {e}"));
                    continue;
                }
            };
            acc.count("executions", 1);
            let out = crate::engine::panic::catch(|| crate::engine::exec::block_on(rs.evaluate_value(&Value::None)));
            let got: Vec<(String, Result<Value, String>)> = match out {
                Ok(Ok(Ok(o))) => o.into_iter().map(|x| (x.rule.name().to_string(), x.value.map_err(|e| e.to_string()))).collect(),
                other => {
                    acc.violation(Violation {
                        sig: "metadata/failed".into(),
                        what: format!("ruleset whose rules carry metadata `<key>: {vtext}` ({route}) failed as a whole: {:?}", other.map(|r| r.map(|x| x.map(|o| o.len()).map_err(|e| e.to_string())))),
                        case: json!({"kind": "metadata"}),
                        size: 1,
                    });
                    continue;
                }
            };
            let ok = got.len() == want.len() && got.iter().zip(&want).all(|((gn, gv), (wn, wv))| gn == wn && matches!(gv, Ok(Value::Int(x)) if x == wv));
            if !ok {
                let missing: Vec<&str> = want.iter().filter(|(wn, _)| !got.iter().any(|(gn, _)| gn == wn)).map(|(wn, _)| words[wn[1..].parse::<usize>().unwrap_or(0)]).take(5).collect();
                let first_diff = got.iter().zip(&want).position(|((gn, gv), (wn, wv))| !(gn == wn && matches!(gv, Ok(Value::Int(x)) if x == wv)));
                acc.violation(Violation {
                    sig: format!("metadata/outcomes/{}", if got.len() != want.len() { "count" } else { "value" }),
                    what: format!(
                        "{} rules, rule k = `i<k>` with metadata `<key k>: {vtext}` ({route}): {} outcomes; keys of rules without an outcome: {missing:?}; first differing position: {:?}",
                        want.len(),
                        got.len(),
                        first_diff.map(|p| (p, got.get(p).cloned(), want.get(p).cloned()))
                    ),
                    case: json!({"kind": "metadata"}),
                    size: 1,
                });
            }
            acc.outcome("metadata-inert");
        }
    }
    n
}

pub fn run(tier: Tier) -> i32 {
    let mut rep = Report::new("C09", tier);
    {
        let mut acc = Acc::new();
        single_read_leg(&mut acc);
        rep.bound("single_read_leg", "an input whose serialization counts its calls, 1 / 2 / 5 / 40 rules, three evaluations: every rule of one evaluation sees the same reading");
        rep.absorb(acc);
    }
    {
        let mut acc = Acc::new();
        let n = metadata_leg(&mut acc);
        rep.bound("metadata_leg", format!("{n} rules: one per (metadata key from {} words, value from 15, construction route)", META_WORDS.len() + super::c15::PLAUSIBLE_WORDS.len()));
        rep.absorb(acc);
    }
    // one rule per argument: the rule-level reading of cache transparency (an outcome does not depend
    // on which other rules ran before it)
    {
        let mut members = 0;
        for reverse in [false, true] {
            let r = super::crowd::run_crowd("C09", 1, reverse);
            members = r.members;
            rep.absorb(r.acc);
        }
        for reverse in [false, true] {
            rep.absorb(super::crowd::run_constant_crowd(reverse).acc);
        }
        let fc = super::crowd::run_function_crowd();
        rep.bound("function_crowd", format!("{} functions with names of mixed byte / character length, three registration orders, one rule calling each", fc.members));
        rep.absorb(fc.acc);
        rep.bound("constant_crowd_rules", "the same near-equal values as constant rules (alone and in a list with a field) of a ruleset without functions, both orders");
        rep.bound("argument_crowd_rules", format!("{members} rules `echo(<argument>)` over the near-equal argument families, one cacheable identity function, both orders"));
    }
    {
        let mut acc = Acc::new();
        for n in tier.pick(vec![100usize, 700], vec![100, 700, 5000]) {
            long_ruleset_leg(n, &mut acc);
        }
        rep.bound("long_rulesets", tier.pick("100 and 700 rules", "100, 700 and 5000 rules"));
        rep.absorb(acc);
    }
    let pool = rule_pool();
    let mut ctx = Ctx { rules: Vec::new(), trees: Vec::new(), names: Vec::new() };
    for (name, text) in &pool {
        match super::common::parse_expr(text) {
            Ok(Ok(e)) => {
                ctx.trees.push(RE::from_expr(&e));
                ctx.rules.push(Rule::new(*name, BTreeMap::new(), e));
                ctx.names.push(name);
            }
            other => {
                rep.acc.machinery(format!("pool rule {name} does not parse: {other:?}"));
                return rep.finish();
            }
        }
    }
    let max_len = tier.pick(3, 4);
    let mut seqs = sequences(pool.len(), max_len);
    // moderate size: every rule of the pool in one ruleset, in every rotation and reversed
    let n = pool.len();
    for r in 0..n {
        let rot: Vec<usize> = (0..n).map(|i| (i + r) % n).collect();
        let mut rev = rot.clone();
        rev.reverse();
        seqs.push(rot);
        seqs.push(rev);
    }
    rep.bound("rule_pool", pool.len());
    rep.bound("max_rules_per_ruleset", max_len);
    rep.bound("rule_sequences", seqs.len());
    rep.bound("inputs", inputs().len());
    let (acc, stats) = seqs
        .par_iter()
        .map(|s| {
            let mut acc = Acc::new();
            let st = check_sequence(s, &ctx, &mut acc);
            (acc, st)
        })
        .reduce(
            || (Acc::new(), TreeStats::default()),
            |(a, mut sa), (b, sb)| {
                sa.add(&sb);
                (a.merge(b), sa)
            },
        );
    rep.absorb(acc);

    // evaluate(&T) == evaluate_value(&serialize(T)); the call fails as a whole iff serialization does
    let world = Arc::new(Mutex::new(World::default()));
    let all_rules: Vec<Rule> = ctx.rules.clone();
    match build(&all_rules, &world) {
        Ok(rs) => {
            let mut acc = Acc::new();
            let mut m1 = BTreeMap::new();
            m1.insert("y".to_string(), 5i64);
            check_serialized("struct-with-map", &Facts1 { x: m1.clone() }, &rs, &world, &mut acc);
            check_serialized("struct-with-option-none", &Facts2 { x: None, other: (-3, "s".into()) }, &rs, &world, &mut acc);
            check_serialized("struct-with-option-some", &Facts2 { x: Some(200), other: (3, "t".into()) }, &rs, &world, &mut acc);
            check_serialized("string-keyed-map", &m1, &rs, &world, &mut acc);
            let mut m2 = BTreeMap::new();
            m2.insert(1i32, 2i32);
            check_serialized("int-keyed-map", &m2, &rs, &world, &mut acc);
            check_serialized("unit", &(), &rs, &world, &mut acc);
            check_serialized("int", &5u64, &rs, &world, &mut acc);
            check_serialized("u128-max", &u128::MAX, &rs, &world, &mut acc);
            check_serialized("failing-serialize", &FailingSer, &rs, &world, &mut acc);
            check_serialized("struct-with-failing-field", &Facts3 { x: 1, bad: FailingSer }, &rs, &world, &mut acc);
            check_serialized("vec-of-structs", &vec![Facts2 { x: Some(1), other: (0, String::new()) }], &rs, &world, &mut acc);
            rep.absorb(acc);
        }
        Err(m) => rep.acc.machinery(m),
    }

    rep.states = stats.nodes + seqs.len() as u64;
    rep.transitions = stats.edges + seqs.len() as u64;
    rep.traces = rep.acc.get("executions");
    rep.rule = "E1: every sequence of distinct pool rules up to the bound x every input x every set of failing (function, argument) pairs (chosen at the first call of each pair); each execution checked for count/order/rule identity, against the reference evaluator, and against the solo evaluation of every rule".into();
    rep.assume("user functions are deterministic (a (function, argument) pair either always fails or always succeeds within one explored execution), as the property requires");
    rep.finish()
}

pub fn replay(case: &serde_json::Value) -> i32 {
    if matches!(case.get("kind").and_then(|k| k.as_str()), Some("argument-crowd") | Some("constant-crowd") | Some("function-crowd")) {
        return super::crowd::replay(case);
    }
    if case.get("kind").and_then(|k| k.as_str()) == Some("single-read") {
        let mut acc = Acc::new();
        single_read_leg(&mut acc);
        return if acc.violations.is_empty() {
            println!("verdict: holds");
            0
        } else {
            for v in acc.violations.values() {
                println!("verdict: VIOLATED — {}", v.what);
            }
            1
        };
    }
    if case.get("kind").and_then(|k| k.as_str()) == Some("metadata") {
        let mut acc = Acc::new();
        let n = metadata_leg(&mut acc);
        println!("re-ran the metadata leg ({n} rules)");
        return if acc.violations.is_empty() {
            println!("verdict: holds");
            0
        } else {
            for v in acc.violations.values() {
                println!("verdict: VIOLATED — {}", v.what);
            }
            1
        };
    }
    if case.get("kind").and_then(|k| k.as_str()) == Some("long-ruleset") {
        let n = case.get("n").and_then(|n| n.as_u64()).unwrap_or(100) as usize;
        let mut acc = Acc::new();
        long_ruleset_leg(n, &mut acc);
        return if acc.violations.is_empty() {
            println!("long ruleset of {n} rules: verdict: holds");
            0
        } else {
            for v in acc.violations.values() {
                println!("verdict: VIOLATED — {}", v.what);
            }
            1
        };
    }
    println!("C09 replay: re-running the recorded rule sequence over all inputs and failure sets");
    let seq: Vec<usize> = case
        .get("rules")
        .and_then(|a| a.as_array())
        .map(|a| a.iter().filter_map(|x| x.as_u64().map(|v| v as usize)).collect())
        .unwrap_or_default();
    let pool = rule_pool();
    let mut ctx = Ctx { rules: Vec::new(), trees: Vec::new(), names: Vec::new() };
    for (name, text) in &pool {
        if let Ok(Ok(e)) = super::common::parse_expr(text) {
            ctx.trees.push(RE::from_expr(&e));
            ctx.rules.push(Rule::new(*name, BTreeMap::new(), e));
            ctx.names.push(name);
        }
    }
    if case.get("kind").and_then(|k| k.as_str()) != Some("sequence") || seq.iter().any(|&i| i >= ctx.rules.len()) {
        println!("only rule-sequence cases can be replayed individually");
        return 2;
    }
    let mut acc = Acc::new();
    check_sequence(&seq, &ctx, &mut acc);
    if acc.violations.is_empty() {
        println!("verdict: holds");
        0
    } else {
        for v in acc.violations.values() {
            println!("verdict: VIOLATED — {}", v.what);
        }
        1
    }
}
