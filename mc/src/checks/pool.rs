//! Boundary value pool V0 shared by C01–C04 (and a smaller core for round 2 / composition).
use crate::spec::rv::{RDec, RV};
use chrono::{DateTime, TimeDelta, Utc};
use rust_decimal::Decimal;

fn d(mant: i128, scale: u32) -> RV {
    RV::Dec(RDec { neg: mant < 0, mant: mant.unsigned_abs(), scale })
}
fn f(x: f64) -> RV {
    RV::float(x)
}
fn s(x: &str) -> RV {
    RV::Str(x.to_string())
}

pub fn prev_float(x: f64) -> f64 {
    // next representable double toward zero for finite non-zero x
    f64::from_bits(x.to_bits() - 1)
}

pub fn ints() -> Vec<RV> {
    let max_ts = DateTime::<Utc>::MAX_UTC.timestamp() as i128;
    let min_ts = DateTime::<Utc>::MIN_UTC.timestamp() as i128;
    let dur_max = (i64::MAX / 1000) as i128;
    let mut v: Vec<i128> = vec![
        0, 1, -1, 2, 3, 5, 6, 7, -7, 10, 255, 60, 3600, 86_400, 604_800,
        i64::MAX as i128, i64::MAX as i128 + 1, i64::MIN as i128, i64::MIN as i128 - 1,
        u64::MAX as i128, u64::MAX as i128 + 1, (1i128 << 64) + 5,
        (1i128 << 96) - 1, 1i128 << 96, -(1i128 << 96), -(1i128 << 96) + 1,
        i128::MAX, i128::MAX - 1, i128::MIN, i128::MIN + 1, i128::MAX / 2 + 1,
        max_ts, max_ts + 1, min_ts, min_ts - 1,
        dur_max, dur_max + 1, -dur_max, -dur_max - 1,
        dur_max / 604_800, dur_max / 604_800 + 1, dur_max / 60, dur_max / 60 + 1,
        1438226773,
    ];
    v.sort();
    v.dedup();
    v.into_iter().map(RV::Int).collect()
}

pub fn floats() -> Vec<RV> {
    let p127 = 170141183460469231731687303715884105728.0f64;
    vec![
        f(0.0), f(-0.0), f(1.0), f(-1.0), f(1.5), f(2.5), f(-2.5), f(0.5), f(-0.5), f(-0.3), f(0.1), f(3.0),
        f(f64::INFINITY), f(f64::NEG_INFINITY), f(f64::NAN), f(5e-324), f(f64::MIN_POSITIVE), f(f64::MAX), f(-f64::MAX),
        f(p127), f(prev_float(p127)), f(-p127), f(-p127 * 1.0000000000000002), f(9.223372036854775807e18), f(4503599627370496.5),
        f(7.9228162514264337593543950335e28), f(1e40), f(9007199254740993.0), f(1e-7),
    ]
}

pub fn decimals() -> Vec<RV> {
    let max = Decimal::MAX.mantissa();
    vec![
        d(0, 0), d(1, 0), d(-1, 0), d(10, 1), d(100, 2), d(15, 1), d(25, 1), d(-25, 1), d(5, 1), d(-5, 1), d(35, 1), d(-3, 1),
        d(2, 0), d(10, 0), d(1, 1), d(3, 0),
        d(max, 0), d(-max, 0), d(max, 28), d(-max, 28), d(max, 1), d(1, 28), d(-1, 28), d(max - 1, 0),
        d(5, 28), d(15, 28),
    ]
}

pub fn strings() -> Vec<RV> {
    vec![
        s(""), s("1"), s("i1"), s("abc"), s(" pad\t"), s("-5"), s("+5"), s("1.5"), s("1e3"), s("NaN"), s("inf"), s("-0"),
        s("170141183460469231731687303715884105727"), s("170141183460469231731687303715884105728"),
        s("-170141183460469231731687303715884105728"), s("79228162514264337593543950335"), s("79228162514264337593543950336"),
        s("0.00000000000000000000000000001"),
        s("2015-07-30T03:26:13Z"), s("2015-07-30T03:26:13+02:00"), s("2016-12-31T23:59:60Z"), s("+262142-12-31T23:59:59Z"), s("+262143-01-01T00:00:00Z"),
        s("true"), s("false"), s("none"),
        s("ß"), s("İ"), s("ǅx"), s("a"), s("b"), s("ab"), s("\u{a0}x\u{2003}"),
    ]
}

pub fn datetimes() -> Vec<RV> {
    let mk = |secs: i64, nanos: u32| RV::Dt(secs, nanos);
    let max = DateTime::<Utc>::MAX_UTC;
    let min = DateTime::<Utc>::MIN_UTC;
    vec![
        RV::dt(&min), RV::dt(&max), mk(max.timestamp(), 0), mk(min.timestamp() + 1, 0), mk(0, 0), mk(1438226773, 0),
        mk(951825600, 0), mk(1, 500_000_000), mk(-1, 500_000_000), mk(86_399, 0), mk(-86_400 * 366, 0), mk(1483228799, 1_500_000_000),
    ]
}

pub fn durations() -> Vec<RV> {
    let ns = |d: TimeDelta| RV::dur(&d);
    vec![
        ns(TimeDelta::zero()), ns(TimeDelta::seconds(1)), ns(TimeDelta::seconds(-1)), ns(TimeDelta::milliseconds(1)), ns(TimeDelta::milliseconds(-1500)),
        ns(TimeDelta::weeks(1)), ns(TimeDelta::MAX), ns(TimeDelta::MIN), ns(TimeDelta::minutes(90)), ns(TimeDelta::days(-10)),
        ns(TimeDelta::MAX - TimeDelta::milliseconds(1)), ns(TimeDelta::seconds(604_799)),
    ]
}

pub fn lists() -> Vec<RV> {
    vec![
        RV::List(vec![]), RV::List(vec![RV::Int(1)]), RV::List(vec![RV::Int(1), RV::Int(2)]), RV::List(vec![RV::None]),
        RV::List(vec![f(f64::NAN)]), RV::List(vec![RV::List(vec![RV::Int(1)])]), RV::List(vec![s("a")]), RV::List(vec![f(1.0), d(10, 1)]),
    ]
}

pub fn maps() -> Vec<RV> {
    vec![
        RV::map(&[]), RV::map(&[("a", RV::Int(1))]), RV::map(&[("a", RV::None)]),
        RV::map(&[("a", RV::Int(1)), ("b", RV::map(&[("c", RV::Int(2))]))]), RV::map(&[("A", RV::Int(1))]), RV::map(&[("1", s("x"))]),
    ]
}

pub fn bools() -> Vec<RV> {
    vec![RV::Bool(true), RV::Bool(false)]
}

/// the full pool V0
pub fn v0() -> Vec<RV> {
    let mut v = Vec::new();
    v.extend(strings());
    v.extend(ints());
    v.extend(floats());
    v.extend(decimals());
    v.extend(bools());
    v.extend(datetimes());
    v.extend(durations());
    v.extend(lists());
    v.extend(maps());
    v.push(RV::None);
    v.sort();
    v.dedup();
    v
}

/// small core used as the "other operand" in round 2 and as leaves of composite trees
pub fn core(n: usize) -> Vec<RV> {
    let all = vec![
        RV::Int(1), RV::None, f(1.0), d(1, 0), RV::Bool(true), s("1"), RV::Int(0), RV::Int(-1), RV::Int(i128::MAX), RV::Int(i128::MIN),
        RV::Bool(false), f(-0.0), f(f64::NAN), d(15, 1), RV::Dt(0, 0), RV::dur(&TimeDelta::seconds(1)), RV::List(vec![RV::Int(1)]),
        RV::map(&[("a", RV::Int(1))]), f(f64::INFINITY), d(Decimal::MAX.mantissa(), 0), RV::dur(&TimeDelta::MAX), RV::dt(&DateTime::<Utc>::MAX_UTC),
        RV::Int(2), f(0.5), s("abc"),
    ];
    all.into_iter().take(n).collect()
}
