//! Boundary value pool V0 shared by C01–C04 (and a smaller core for round 2 / composition).
use crate::spec::rv::{RDec, RV};
use chrono::{DateTime, TimeDelta, Utc};
use rust_decimal::Decimal;

fn d(mant: i128, scale: u32) -> RV {
    RV::Dec(RDec { neg: mant < 0, mant: mant.unsigned_abs(), scale })
}
fn f(x: f64) -> RV {
    RV::float(x)
}
fn s(x: &str) -> RV {
    RV::Str(x.to_string())
}

pub fn prev_float(x: f64) -> f64 {
    // next representable double toward zero for finite non-zero x
    f64::from_bits(x.to_bits() - 1)
}

pub fn ints() -> Vec<RV> {
    let max_ts = DateTime::<Utc>::MAX_UTC.timestamp() as i128;
    let min_ts = DateTime::<Utc>::MIN_UTC.timestamp() as i128;
    let dur_max = (i64::MAX / 1000) as i128;
    let mut v: Vec<i128> = vec![
        0, 1, -1, 2, 3, 5, 6, 7, -7, 10, 255, 60, 3600, 86_400, 604_800,
        i64::MAX as i128, i64::MAX as i128 + 1, i64::MIN as i128, i64::MIN as i128 - 1,
        u64::MAX as i128, u64::MAX as i128 + 1, (1i128 << 64) + 5,
        (1i128 << 96) - 1, 1i128 << 96, -(1i128 << 96), -(1i128 << 96) + 1,
        i128::MAX, i128::MAX - 1, i128::MIN, i128::MIN + 1, i128::MAX / 2 + 1,
        max_ts, max_ts + 1, min_ts, min_ts - 1,
        dur_max, dur_max + 1, -dur_max, -dur_max - 1,
        dur_max / 604_800, dur_max / 604_800 + 1, dur_max / 60, dur_max / 60 + 1,
        1438226773,
    ];
    v.sort();
    v.dedup();
    v.into_iter().map(RV::Int).collect()
}

pub fn floats() -> Vec<RV> {
    let p127 = 170141183460469231731687303715884105728.0f64;
    vec![
        f(0.0), f(-0.0), f(1.0), f(-1.0), f(1.5), f(2.5), f(-2.5), f(0.5), f(-0.5), f(-0.3), f(0.1), f(3.0),
        f(f64::INFINITY), f(f64::NEG_INFINITY), f(f64::NAN), f(5e-324), f(f64::MIN_POSITIVE), f(f64::MAX), f(-f64::MAX),
        f(p127), f(prev_float(p127)), f(-p127), f(-p127 * 1.0000000000000002), f(9.223372036854775807e18), f(4503599627370496.5),
        f(7.9228162514264337593543950335e28), f(1e40), f(9007199254740993.0), f(1e-7),
    ]
}

pub fn decimals() -> Vec<RV> {
    let max = Decimal::MAX.mantissa();
    vec![
        d(0, 0), d(1, 0), d(-1, 0), d(10, 1), d(100, 2), d(15, 1), d(25, 1), d(-25, 1), d(5, 1), d(-5, 1), d(35, 1), d(-3, 1),
        d(2, 0), d(10, 0), d(1, 1), d(3, 0),
        d(max, 0), d(-max, 0), d(max, 28), d(-max, 28), d(max, 1), d(1, 28), d(-1, 28), d(max - 1, 0),
        d(5, 28), d(15, 28),
    ]
}

pub fn strings() -> Vec<RV> {
    vec![
        s(""), s("1"), s("i1"), s("abc"), s(" pad\t"), s("-5"), s("+5"), s("1.5"), s("1e3"), s("NaN"), s("inf"), s("-0"),
        s("170141183460469231731687303715884105727"), s("170141183460469231731687303715884105728"),
        s("-170141183460469231731687303715884105728"), s("79228162514264337593543950335"), s("79228162514264337593543950336"),
        s("0.00000000000000000000000000001"),
        s("2015-07-30T03:26:13Z"), s("2015-07-30T03:26:13+02:00"), s("2016-12-31T23:59:60Z"), s("+262142-12-31T23:59:59Z"), s("+262143-01-01T00:00:00Z"),
        s("+262142-12-31T23:59:60Z"), s("+262142-12-31T23:59:59.999999999Z"), s("+262142-12-31T23:59:60.999999999Z"), s("-262143-01-01T00:00:00Z"), s("-262143-01-01T00:00:60Z"), s("+262142-12-31T23:59:60+00:01"), s("-262143-01-01T00:00:00+23:59"),
        s("true"), s("false"), s("none"),
        s("ß"), s("İ"), s("ǅx"), s("a"), s("b"), s("ab"), s("\u{a0}x\u{2003}"),
    ]
}

pub fn datetimes() -> Vec<RV> {
    let mk = |secs: i64, nanos: u32| RV::Dt(secs, nanos);
    let max = DateTime::<Utc>::MAX_UTC;
    let min = DateTime::<Utc>::MIN_UTC;
    vec![
        RV::dt(&min), RV::dt(&max), mk(max.timestamp(), 0), mk(min.timestamp() + 1, 0), mk(0, 0), mk(1438226773, 0),
        mk(951825600, 0), mk(1, 500_000_000), mk(-1, 500_000_000), mk(86_399, 0), mk(-86_400 * 366, 0), mk(1483228799, 1_500_000_000),
        // leap seconds at the very end and the very start of the representable range
        mk(max.timestamp(), 1_000_000_000), mk(max.timestamp(), 1_999_999_999), mk(min.timestamp() + 59, 1_000_000_000),
    ]
}

pub fn durations() -> Vec<RV> {
    let ns = |d: TimeDelta| RV::dur(&d);
    vec![
        ns(TimeDelta::zero()), ns(TimeDelta::seconds(1)), ns(TimeDelta::seconds(-1)), ns(TimeDelta::milliseconds(1)), ns(TimeDelta::milliseconds(-1500)),
        ns(TimeDelta::weeks(1)), ns(TimeDelta::MAX), ns(TimeDelta::MIN), ns(TimeDelta::minutes(90)), ns(TimeDelta::days(-10)),
        ns(TimeDelta::MAX - TimeDelta::milliseconds(1)), ns(TimeDelta::seconds(604_799)),
    ]
}

pub fn lists() -> Vec<RV> {
    vec![
        RV::List(vec![]), RV::List(vec![RV::Int(1)]), RV::List(vec![RV::Int(1), RV::Int(2)]), RV::List(vec![RV::None]),
        RV::List(vec![f(f64::NAN)]), RV::List(vec![RV::List(vec![RV::Int(1)])]), RV::List(vec![s("a")]), RV::List(vec![f(1.0), d(10, 1)]),
        // the same number in another type, inside a container (cross-type equality is false there too)
        RV::List(vec![d(1, 0)]), RV::List(vec![f(1.0)]), RV::List(vec![s("1")]), RV::List(vec![RV::Bool(true)]), RV::List(vec![d(10, 1)]), RV::List(vec![f(-0.0)]), RV::List(vec![f(0.0)]),
    ]
}

pub fn maps() -> Vec<RV> {
    vec![
        RV::map(&[]), RV::map(&[("a", RV::Int(1))]), RV::map(&[("a", RV::None)]),
        RV::map(&[("a", RV::Int(1)), ("b", RV::map(&[("c", RV::Int(2))]))]), RV::map(&[("A", RV::Int(1))]), RV::map(&[("1", s("x"))]),
        RV::map(&[("a", d(1, 0))]), RV::map(&[("a", f(1.0))]), RV::map(&[("a", d(10, 1))]),
    ]
}

pub fn bools() -> Vec<RV> {
    vec![RV::Bool(true), RV::Bool(false)]
}

/// the full pool V0
pub fn v0() -> Vec<RV> {
    let mut v = Vec::new();
    v.extend(strings());
    v.extend(ints());
    v.extend(floats());
    v.extend(decimals());
    v.extend(bools());
    v.extend(datetimes());
    v.extend(durations());
    v.extend(lists());
    v.extend(maps());
    v.push(RV::None);
    v.sort();
    v.dedup();
    v
}

/// small core used as the "other operand" in round 2 and as leaves of composite trees
pub fn core(n: usize) -> Vec<RV> {
    let all = vec![
        RV::Int(1), RV::None, f(1.0), d(1, 0), RV::Bool(true), s("1"), RV::Int(0), RV::Int(-1), RV::Int(i128::MAX), RV::Int(i128::MIN),
        RV::Bool(false), f(-0.0), f(f64::NAN), d(15, 1), RV::Dt(0, 0), RV::dur(&TimeDelta::seconds(1)), RV::List(vec![RV::Int(1)]),
        RV::map(&[("a", RV::Int(1))]), f(f64::INFINITY), d(Decimal::MAX.mantissa(), 0), RV::dur(&TimeDelta::MAX), RV::dt(&DateTime::<Utc>::MAX_UTC),
        RV::Int(2), f(0.5), s("abc"),
    ];
    all.into_iter().take(n).collect()
}

// ---------------------------------------------------------------------------------------------
// Mid-range sweep pools (values without any boundary character: ordinary magnitudes, calendar
// positions, scales, longer strings and collections)

pub fn sweep_ints() -> Vec<RV> {
    let mut v: Vec<i128> = (-12..=12).collect();
    v.extend([
        24, 31, 59, 60, 61, 99, 100, 101, 255, 256, 365, 366, 999, 1000, 1001, 1024, 3599, 3600, 3601, 86_399, 86_401, 12_345, 65_535, 65_536, 100_000, 604_799, 604_801, 1_000_000,
        123_456_789, 2_147_483_647, 2_147_483_648, 4_294_967_296, 1_000_000_007, 9_007_199_254_740_992, 9_007_199_254_740_993, 1_000_000_000_000_000_000, 31_536_000, 1_700_000_000,
        253_402_300_799, 253_402_300_800, -62_135_596_800, -62_167_219_200, -1000, -3600, -86_400, -604_800, -123_456_789,
    ]);
    v.sort();
    v.dedup();
    v.into_iter().map(RV::Int).collect()
}

pub fn sweep_decimals() -> Vec<RV> {
    let mut v = Vec::new();
    for m in [0i128, 1, 2, 3, 5, 7, 9, 10, 11, 15, 25, 33, 45, 50, 55, 99, 100, 101, 125, 250, 999, 1000, 1005, 12345, 99995] {
        for s in [0u32, 1, 2, 3, 5] {
            v.push(RV::Dec(RDec { neg: false, mant: m as u128, scale: s }));
            if m != 0 {
                v.push(RV::Dec(RDec { neg: true, mant: m as u128, scale: s }));
            }
        }
    }
    v
}

pub fn sweep_floats() -> Vec<RV> {
    [
        0.25, 0.75, 1.25, 2.0, 2.5, 3.5, 4.5, -1.5, -3.5, 10.0, 100.0, 1e3, 1e6, 1e9, 123.456, -123.456, 0.1, 0.2, 0.3, 1e-3, 1e15, 1e16, 4503599627370495.5, 9007199254740992.0,
        9007199254740994.0, 1e20, 1e-10, 255.5, 65536.0, 2147483648.0, 0.49999999999999994, 1.0000000000000002, 6.02e23,
    ]
    .into_iter()
    .map(RV::float)
    .collect()
}

pub fn sweep_strings() -> Vec<RV> {
    let mut v: Vec<String> = Vec::new();
    for a in ["", "a", "b", "é", "A"] {
        for b in ["", "a", "b", " "] {
            for c in ["", "b", "é"] {
                v.push(format!("{a}{b}{c}"));
            }
        }
    }
    for x in [
        "The quick brown fox", "ΟΔΟΣ", "Σ", "ΑΣΑ", "ΟΔΟΣ ΟΔΟΣ.", "ǅungla ǅ", "İstanbul", "ﬁﬂ", "ŉ", "Straße", "  leading and trailing  ", "MiXeD CaSe ÄÖÜ ß ǆ", "tab\tand\nnewline", "12", "012", "1_000", "1e2", " 5", "5 ", "0x10", "١٢٣", "1.50", "-1.5", ".5", "5.",
        "2000-02-29T12:00:00Z", "2001-02-29T12:00:00Z", "2015-07-30 03:26:13 UTC", "2015-07-30T03:26:13.123456789Z", "1999-12-31T23:59:59-12:00", "10000-01-01T00:00:00Z",
        "+10000-01-01T00:00:00Z", "0000-01-01T00:00:00Z", "-0001-12-31T00:00:00Z", "2015-07-30T03:26:13", "2015-07-30",
    ] {
        v.push(x.to_string());
    }
    // context-sensitive case mapping: every string of <= 4 characters over sigma, a cased letter, an
    // apostrophe, a combining accent, an uncased letter, a space, a full stop and a Latin letter
    {
        let alpha = ['Σ', 'Α', '\'', '\u{301}', '日', ' ', '.', 'a'];
        let mut frontier = vec![String::new()];
        for _ in 0..4 {
            let mut next = Vec::new();
            for w in &frontier {
                for c in alpha {
                    let mut t = w.clone();
                    t.push(c);
                    next.push(t);
                }
            }
            for t in &next {
                if t.contains('Σ') {
                    v.push(t.clone());
                }
            }
            frontier = next;
        }
    }
    v.push("x".repeat(300));
    v.push(format!("{}needle{}", "hay".repeat(40), "stack".repeat(40)));
    v.push("needle".into());
    v.sort();
    v.dedup();
    v.into_iter().map(RV::Str).collect()
}

pub fn sweep_datetimes() -> Vec<RV> {
    let mut v = Vec::new();
    // every day of a leap year and of a common year at 13:14:15, plus every hour of one day
    for (y0, days) in [(946_684_800i64, 366), (978_307_200i64, 365)] {
        for d in 0..days {
            v.push(RV::Dt(y0 + d * 86_400 + 13 * 3600 + 14 * 60 + 15, 0));
        }
    }
    for h in 0..24 {
        v.push(RV::Dt(1_438_214_400 + h * 3600 + 59 * 60 + 59, 999_999_999));
    }
    // year boundaries far from the epoch
    for secs in [-62_167_219_200i64, -62_135_596_800, -62_135_596_801, -12_219_292_800, -2_208_988_800, 4_102_444_800, 253_402_300_799, 253_402_300_800, 3_093_527_980_800, -30_610_224_000, 951_782_400 - 1, 951_868_800, 68_169_600] {
        v.push(RV::Dt(secs, 0));
    }
    v
}

pub fn sweep_durations() -> Vec<RV> {
    let mut v = Vec::new();
    for unit in [1i128, 60, 3600, 86_400, 604_800] {
        for k in [0i128, 1, 2, 5, 10, 53] {
            for d in [-1i128, 0, 1] {
                let secs = k * unit + d;
                v.push(RV::Dur(secs * 1_000_000_000));
                v.push(RV::Dur(-secs * 1_000_000_000));
                v.push(RV::Dur(secs * 1_000_000_000 + 500_000_000));
            }
        }
    }
    v.sort();
    v.dedup();
    v
}

pub fn sweep_lists() -> Vec<RV> {
    let six: Vec<RV> = (1..=6).map(RV::Int).collect();
    let twelve: Vec<RV> = (1..=12).map(|i| RV::Str(format!("s{i}"))).collect();
    vec![
        RV::List(six.clone()),
        RV::List(twelve),
        RV::List(vec![RV::float(1.0), RV::Int(1), RV::Dec(RDec { neg: false, mant: 1, scale: 0 }), RV::str("1"), RV::Bool(true), RV::None]),
        RV::List(vec![RV::List(six.clone()), RV::map(&[("k", RV::Int(1))]), RV::List(vec![])]),
        RV::List((0..40).map(RV::Int).collect()),
    ]
}

pub fn sweep_maps() -> Vec<RV> {
    let many: Vec<(String, RV)> = (0..12).map(|i| (format!("k{i}"), RV::Int(i))).collect();
    vec![
        RV::Map(many.into_iter().collect()),
        RV::map(&[("a", RV::map(&[("a", RV::map(&[("a", RV::map(&[("a", RV::Int(4))]))]))]))]),
        RV::map(&[("needle", RV::Int(1)), ("hay", RV::None), ("", RV::Int(0)), ("with space", RV::Int(2))]),
    ]
}

/// every text within two edits of a canonical timestamp (an edit deletes one character, inserts one
/// of a few separators / digits, or replaces a character by one of them): the zone designator gone,
/// a blank or a lower-case letter for `T`, a leading zero missing, a blank moved — the neighbours a
/// lenient, normalising or memoising cast is most likely to confuse with each other
pub fn timestamp_neighbourhood(canonical: &str, two: bool) -> Vec<String> {
    const INS: [char; 8] = [' ', '0', 'T', ':', '-', 'Z', '+', '\t'];
    const REP: [char; 9] = [' ', 'T', 't', 'z', '_', '0', '9', ':', '/'];
    fn one(t: &str) -> Vec<String> {
        let cs: Vec<char> = t.chars().collect();
        let mut v = Vec::new();
        for i in 0..cs.len() {
            let mut d = cs.clone();
            d.remove(i);
            v.push(d.iter().collect());
            for r in REP {
                if cs[i] != r {
                    let mut d = cs.clone();
                    d[i] = r;
                    v.push(d.iter().collect());
                }
            }
        }
        for i in 0..=cs.len() {
            for c in INS {
                let mut d = cs.clone();
                d.insert(i, c);
                v.push(d.iter().collect());
            }
        }
        v
    }
    let mut all: Vec<String> = vec![canonical.to_string()];
    let first = one(canonical);
    all.extend(first.iter().cloned());
    if two {
        for t in &first {
            all.extend(one(t));
        }
    }
    all.sort();
    all.dedup();
    all
}
