//! Shared text-level comparison of the real parser with the reference (lexer + Earley + builder).
use crate::engine::panic::catch;
use crate::engine::report::{Acc, Violation};
use crate::spec::lex::lex_all;
use serde_json::json;
use crate::spec::grammar::*;
use crate::spec::re::RE;
use crate::spec::rv::RV;
use reval::prelude::*;
use std::collections::BTreeMap;

#[derive(Clone, Debug, PartialEq)]
pub enum ErrKind {
    InvalidToken(usize),
    Eof,
    Token(usize, usize),
    /// error raised by a grammar action (literal conversion, metadata)
    User(String),
    MissingName,
}

#[derive(Clone, Debug, PartialEq)]
pub enum ImplParse<T> {
    Ok(T),
    Err(ErrKind, String),
    Panic(String),
    /// message shape not understood: machinery error, never a verdict
    Unknown(String),
}

fn classify(msg: &str) -> Option<ErrKind> {
    if let Some(rest) = msg.strip_prefix("Invalid token at ") {
        return rest.trim().parse().ok().map(ErrKind::InvalidToken);
    }
    if msg.starts_with("Unrecognized EOF found at ") {
        return Some(ErrKind::Eof);
    }
    if msg.starts_with("Unrecognized token `") || msg.starts_with("Extra token ") {
        let i = msg.rfind(" found at ")?;
        let tail = &msg[i + " found at ".len()..];
        let end = tail.find(|c: char| !(c.is_ascii_digit() || c == ':')).unwrap_or(tail.len());
        let (a, b) = tail[..end].split_once(':')?;
        return Some(ErrKind::Token(a.parse().ok()?, b.parse().ok()?));
    }
    for known in ["Error parsing integer", "Error parsing string", "Error parsing float", "Error parsing decimal", "Invalid metadata expression", "Invalid value for rule name"] {
        if msg.starts_with(known) {
            return Some(ErrKind::User(known.to_string()));
        }
    }
    None
}

pub fn impl_parse_expr(text: &str) -> ImplParse<RE> {
    match catch(|| Expr::parse(text)) {
        Err(p) => ImplParse::Panic(p),
        Ok(Ok(e)) => ImplParse::Ok(RE::from_expr(&e)),
        Ok(Err(reval::parse::Error::ExprParseError(m))) => match classify(&m) {
            Some(k) => ImplParse::Err(k, m),
            // a message shape this harness does not know: still a rejection (position unknown)
            None => ImplParse::Err(ErrKind::User(format!("unrecognised message: {}", m.lines().next().unwrap_or(""))), m),
        },
        Ok(Err(other)) => ImplParse::Unknown(format!("{other:?}")),
    }
}

#[derive(Clone, Debug, PartialEq)]
pub struct RuleObs {
    pub name: String,
    pub description: Option<String>,
    pub metadata: BTreeMap<String, RV>,
    pub expr: RE,
}

pub fn impl_parse_rule(text: &str) -> ImplParse<RuleObs> {
    match catch(|| Rule::parse(text)) {
        Err(p) => ImplParse::Panic(p),
        Ok(Ok(r)) => {
            let mut metadata: BTreeMap<String, RV> = r.iter_metadata().map(|(k, v)| (k.to_string(), RV::from_value(v))).collect();
            // the accessors of a Rule must tell one story: keyed lookup = iteration, description()
            // = the string under "description", a clone and a rule constructed from the parts equal
            // the parsed rule.  A disagreement is surfaced as an extra metadata entry.
            let consistent = catch(|| {
                let mut problems: Vec<String> = Vec::new();
                let mut n = 0;
                for (k, v) in r.iter_metadata() {
                    n += 1;
                    if r.get_metadata(k) != Some(v) {
                        problems.push(format!("get_metadata({k:?}) differs from iter_metadata"));
                    }
                }
                if n != metadata.len() {
                    problems.push("iter_metadata yields a key twice".into());
                }
                for absent in ["", "no such key", "Description", "name "] {
                    if !metadata.contains_key(absent) && r.get_metadata(absent).is_some() {
                        problems.push(format!("get_metadata({absent:?}) finds an entry that iteration does not show"));
                    }
                }
                match (r.get_metadata("description"), r.description()) {
                    (Some(Value::String(s)), Some(d)) if s == d => {}
                    (Some(Value::String(_)), _) => problems.push("description() differs from the string under \"description\"".into()),
                    (None, Some(_)) => problems.push("description() without a \"description\" entry".into()),
                    _ => {}
                }
                let rebuilt = Rule::new(r.name().to_string(), r.iter_metadata().map(|(k, v)| (k.to_string(), v.clone())).collect(), r.expr().clone());
                if rebuilt != r || r.clone() != r {
                    problems.push("Rule::new(name, metadata, expr) / clone() does not equal the parsed rule".into());
                }
                problems
            });
            match consistent {
                Ok(p) if p.is_empty() => {}
                Ok(p) => {
                    metadata.insert("<accessors disagree>".into(), RV::Str(p.join("; ")));
                }
                Err(p) => {
                    metadata.insert("<accessors panicked>".into(), RV::Str(p));
                }
            }
            ImplParse::Ok(RuleObs { name: r.name().to_string(), description: r.description().map(|s| s.to_string()), metadata, expr: RE::from_expr(r.expr()) })
        }
        Ok(Err(reval::parse::Error::MissingRuleName)) => ImplParse::Err(ErrKind::MissingName, "MissingRuleName".into()),
        Ok(Err(reval::parse::Error::RuleParseError(m))) => match classify(&m) {
            Some(k) => ImplParse::Err(k, m),
            None => ImplParse::Err(ErrKind::User(format!("unrecognised message: {}", m.lines().next().unwrap_or(""))), m),
        },
        Ok(Err(other)) => ImplParse::Unknown(format!("{other:?}")),
    }
}

#[derive(Clone, Copy, Debug, PartialEq, Eq, Hash, PartialOrd, Ord)]
pub enum Class {
    Sentence,
    Incomplete,
    Dead,
    LexError,
    BadLiteral,
    Unspecified,
}

#[derive(Clone, Copy, Debug, PartialEq, Eq, Hash, PartialOrd, Ord)]
pub enum DisKind {
    Panic,
    /// the implementation accepts a literal / index that denotes nothing
    AcceptsBadLiteral,
    /// the implementation accepts text the grammar does not derive
    OverAccept,
    /// the implementation rejects a sentence
    OverReject,
    /// accepted, different tree
    Tree,
    /// rejected at a different place
    Position,
}

#[derive(Clone, Debug, PartialEq)]
pub enum Cmp {
    Agree(Class),
    Disagree(DisKind, Class, String),
    /// reference inconsistent or implementation message not understood
    Machinery(String),
}

fn class_of<T>(r: &RefParse<T>) -> Class {
    match r {
        RefParse::Accept(_) => Class::Sentence,
        RefParse::Reject { reason: Reject::Eof, .. } => Class::Incomplete,
        RefParse::Reject { reason: Reject::Token(..), .. } => Class::Dead,
        RefParse::Reject { reason: Reject::Lex(_), .. } => Class::LexError,
        RefParse::Reject { reason: Reject::Literal(_), .. } => Class::BadLiteral,
        RefParse::Unspecified(_) | RefParse::Inconsistent(_) => Class::Unspecified,
    }
}

fn compare_reject<T>(reason: &Reject, reliable: bool, got: &ImplParse<T>, class: Class) -> Cmp {
    match got {
        ImplParse::Panic(p) => Cmp::Disagree(DisKind::Panic, class, format!("panicked: {p}")),
        ImplParse::Unknown(m) => Cmp::Machinery(format!("unrecognised parser message: {m:?}")),
        ImplParse::Ok(_) => match reason {
            Reject::Literal(m) => Cmp::Disagree(DisKind::AcceptsBadLiteral, class, format!("accepted although {m}")),
            other => Cmp::Disagree(DisKind::OverAccept, class, format!("accepted, the grammar rejects it ({other:?})")),
        },
        ImplParse::Err(kind, msg) => {
            if !reliable || matches!(kind, ErrKind::User(_)) || matches!(reason, Reject::Literal(_)) {
                return Cmp::Agree(class);
            }
            let same = match (reason, kind) {
                (Reject::Lex(p), ErrKind::InvalidToken(q)) => p == q,
                (Reject::Token(a, b), ErrKind::Token(c, d)) => a == c && b == d,
                (Reject::Eof, ErrKind::Eof) => true,
                _ => false,
            };
            if same {
                Cmp::Agree(class)
            } else {
                Cmp::Disagree(DisKind::Position, class, format!("rejected with {:?}, the grammar fails at {reason:?}", first_line(msg)))
            }
        }
    }
}

fn first_line(s: &str) -> &str {
    s.lines().next().unwrap_or("")
}

pub fn compare_expr(g: &Grammar, text: &str) -> Cmp {
    let exp = reference_parse_expr(g, text);
    let got = impl_parse_expr(text);
    compare_expr_with(&exp, &got)
}

pub fn compare_expr_with(exp: &RefParse<RE>, got: &ImplParse<RE>) -> Cmp {
    let class = class_of(exp);
    match exp {
        RefParse::Inconsistent(m) => Cmp::Machinery(format!("reference inconsistent: {m}")),
        RefParse::Unspecified(_) => match got {
            ImplParse::Panic(p) => Cmp::Disagree(DisKind::Panic, class, format!("panicked: {p}")),
            ImplParse::Unknown(m) => Cmp::Machinery(format!("unrecognised parser message: {m:?}")),
            _ => Cmp::Agree(class),
        },
        RefParse::Accept(tree) => match got {
            ImplParse::Panic(p) => Cmp::Disagree(DisKind::Panic, class, format!("panicked: {p}")),
            ImplParse::Unknown(m) => Cmp::Machinery(format!("unrecognised parser message: {m:?}")),
            ImplParse::Err(_, m) => Cmp::Disagree(DisKind::OverReject, class, format!("rejected ({}), the grammar derives {:?}", first_line(m), tree.unparse().unwrap_or_default())),
            ImplParse::Ok(t) => {
                if t == tree {
                    Cmp::Agree(class)
                } else {
                    Cmp::Disagree(DisKind::Tree, class, format!("parsed as {:?}, the grammar derives {:?}", show_tree(t), show_tree(tree)))
                }
            }
        },
        RefParse::Reject { reason, position_reliable } => compare_reject(reason, *position_reliable, got, class),
    }
}

pub fn show_tree(t: &RE) -> String {
    t.unparse_full().unwrap_or_else(|| format!("{t:?}"))
}

/// constant folding of a metadata value as the statement defines it
pub fn fold_constant(e: &RE) -> Option<RV> {
    match e {
        RE::Val(v) => Some(v.clone()),
        RE::List(v) => v.iter().map(fold_constant).collect::<Option<Vec<_>>>().map(RV::List),
        RE::Map(m) => {
            let mut out = BTreeMap::new();
            for (k, v) in m {
                out.insert(k.clone(), fold_constant(v)?);
            }
            Some(RV::Map(out))
        }
        _ => None,
    }
}

/// Compare `Rule::parse` on `text` with the reference, looking only at accept/reject and the
/// expression (name/description/metadata extraction is C14's business).  The caller guarantees a
/// name (comment line or @name).
pub fn compare_rule_expr(g: &Grammar, text: &str) -> Cmp {
    let exp = reference_parse_rule(g, text);
    let got = impl_parse_rule(text);
    let class = class_of(&exp);
    match &exp {
        RefParse::Inconsistent(m) => Cmp::Machinery(format!("reference inconsistent: {m}")),
        RefParse::Unspecified(_) => match &got {
            ImplParse::Panic(p) => Cmp::Disagree(DisKind::Panic, class, format!("panicked: {p}")),
            ImplParse::Unknown(m) => Cmp::Machinery(format!("unrecognised parser message: {m:?}")),
            _ => Cmp::Agree(class),
        },
        RefParse::Accept(tree) => {
            let metas_ok = tree.metas.iter().all(|(k, v)| match fold_constant(v) {
                None => false,
                Some(RV::Str(_)) => true,
                Some(_) => k != "name",
            });
            match &got {
                ImplParse::Panic(p) => Cmp::Disagree(DisKind::Panic, class, format!("panicked: {p}")),
                ImplParse::Unknown(m) => Cmp::Machinery(format!("unrecognised parser message: {m:?}")),
                ImplParse::Err(ErrKind::MissingName, _) => Cmp::Agree(class),
                ImplParse::Err(_, m) => {
                    if metas_ok {
                        Cmp::Disagree(DisKind::OverReject, class, format!("rule rejected ({}), the grammar derives it", first_line(m)))
                    } else {
                        Cmp::Agree(class)
                    }
                }
                ImplParse::Ok(r) => {
                    if !metas_ok {
                        Cmp::Disagree(DisKind::OverAccept, class, "rule with non-constant metadata (or non-string @name) accepted".into())
                    } else if r.expr == tree.expr {
                        Cmp::Agree(class)
                    } else {
                        Cmp::Disagree(DisKind::Tree, class, format!("rule expression parsed as {:?}, the grammar derives {:?}", show_tree(&r.expr), show_tree(&tree.expr)))
                    }
                }
            }
        }
        RefParse::Reject { reason, position_reliable } => compare_reject(reason, *position_reliable, &got, class),
    }
}

pub fn record(acc: &mut Acc, prop: &str, text: &str, entry: &str, cmp: Cmp, mine: &[DisKind]) {
    acc.count("executions", 1);
    match cmp {
        Cmp::Agree(c) => {
            acc.count(&format!("class_{c:?}"), 1);
            acc.outcome(format!("{entry}:{c:?}"));
        }
        Cmp::Machinery(m) => acc.machinery(format!("{text:?}: {m}")),
        Cmp::Disagree(kind, class, detail) => {
            acc.outcome(format!("{entry}:disagree:{kind:?}"));
            if mine.contains(&kind) {
                // signature: kind + the token-kind shape of the text (so equal shapes collapse)
                let shape: String = match lex_all(text) {
                    Ok(t) => t.iter().map(|t| format!("{:?}", t.kind)).collect::<Vec<_>>().join(" "),
                    Err((t, _)) => format!("{} <lex error>", t.iter().map(|t| format!("{:?}", t.kind)).collect::<Vec<_>>().join(" ")),
                };
                let shape = if shape.len() > 90 { format!("{}…", &shape[..90]) } else { shape };
                acc.violation(Violation {
                    sig: format!("{entry}/{kind:?}/{shape}"),
                    what: format!("{entry} {text:?} ({class:?}): {detail}"),
                    case: json!({"kind": "text", "entry": entry, "text": text, "property": prop}),
                    size: text.len(),
                });
            } else {
                acc.count(&format!("other_property_disagreements_{kind:?}"), 1);
            }
        }
    }
}

