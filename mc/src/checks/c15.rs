//! C15 — a ruleset never holds duplicate or ill-formed rule and function names.
//! E1 over builder call histories (a refusal consumes the builder, so the history ends there)
//! plus an exhaustive sweep of candidate function names.
use super::probe::*;
use crate::engine::choice::{explore, TreeStats};
use crate::engine::exec::block_on;
use crate::engine::panic::catch;
use crate::engine::report::{Acc, Report, Tier, Violation};
use crate::spec::rv::*;
use rayon::prelude::*;
use reval::prelude::*;
use serde_json::json;
use std::collections::BTreeMap;
use std::sync::Arc;

/// the 38 reserved words, transcribed (not imported)
pub const RESERVED: [&str; 38] = [
    "and", "or", "if", "then", "else", "is_some", "is_none", "some", "int", "float", "dec", "true", "false", "none", "contains", "in",
    "to_upper", "to_lower", "uppercase", "lowercase", "starts", "ends", "trim", "round", "floor", "fract", "date_time", "datetime", "duration",
    "year", "month", "week", "day", "hour", "minute", "second", "key", "val",
];

#[derive(Clone, Debug)]
enum Call {
    Rule(&'static str, i128),
    Rules(Vec<(&'static str, i128)>),
    Func(&'static str),
    Funcs(Vec<&'static str>),
    /// a batch handed over as a filtering iterator (its size hint has no lower bound)
    RulesIter(Vec<(&'static str, i128)>),
    /// the same registrations with functions that declare themselves non-cacheable
    FuncNc(&'static str),
    FuncsNc(Vec<&'static str>),
    Symbol(&'static str, i128),
    Symbols(Vec<(&'static str, i128)>),
    /// a table filled through `Symbols::append` (and one `insert` first), then `with_symbols`
    SymbolsAppend(Vec<(&'static str, i128)>),
}

fn alphabet() -> Vec<Call> {
    vec![
        Call::Rule("A", 1),
        Call::Rule("B", 2),
        Call::Rule("A", 3), // same name, different expression
        Call::Rules(vec![("A", 4), ("B", 5)]),
        Call::Rules(vec![("C", 6), ("C", 7)]),
        Call::Rules(vec![]),
        Call::Rules(vec![("D", 8), ("E", 9)]),
        Call::RulesIter(vec![("F", 23), ("A", 24), ("G", 25)]),
        Call::Func("f"),
        Call::Func("g"),
        Call::Func("if"),
        Call::Func("_x"),
        Call::Func("1x"),
        Call::Funcs(vec!["f", "g"]),
        Call::Funcs(vec!["g", "g"]),
        Call::Funcs(vec![]),
        Call::FuncNc("f"),
        Call::FuncsNc(vec!["g", "f"]),
        Call::Symbol("s", 11),
        Call::Symbol("s", 12),
        Call::Symbol("t", 13),
        Call::Symbols(vec![("s", 14), ("t", 15)]),
        Call::Symbols(vec![("s", 16)]),
        Call::Symbols(vec![("s", 17), ("t", 18), ("u", 19)]),
        Call::SymbolsAppend(vec![("t", 20), ("s", 21), ("t", 22)]),
    ]
}

const FN_NAMES: [&str; 5] = ["f", "g", "if", "_x", "1x"];
const SYMS: [&str; 3] = ["s", "t", "u"];

#[derive(Default, Clone, Debug, PartialEq)]
struct Model {
    rules: Vec<(String, i128)>,
    funcs: BTreeMap<String, i128>, // name -> id of the accepted function object
    syms: BTreeMap<String, i128>,
}

#[derive(Clone, Debug, PartialEq)]
enum Refusal {
    DuplicateRule(String),
    InvalidFunction(String),
    DuplicateFunction(String),
}

fn xid_start(c: char) -> bool {
    // trusted base: the Unicode tables of the unicode-xid crate (UAX #31)
    unicode_xid::UnicodeXID::is_xid_start(c)
}
fn xid_continue(c: char) -> bool {
    unicode_xid::UnicodeXID::is_xid_continue(c)
}

/// reference name predicate
pub fn name_ok(name: &str) -> bool {
    if RESERVED.contains(&name) {
        return false;
    }
    let mut cs = name.chars();
    match cs.next() {
        Some(c) if c == '_' || xid_start(c) => cs.all(xid_continue),
        _ => false,
    }
}

impl Model {
    fn add_rule(&mut self, n: &str, id: i128) -> Result<(), Refusal> {
        if self.rules.iter().any(|(m, _)| m == n) {
            return Err(Refusal::DuplicateRule(n.to_string()));
        }
        self.rules.push((n.to_string(), id));
        Ok(())
    }
    fn add_func(&mut self, n: &str, id: i128) -> Result<(), Refusal> {
        if !name_ok(n) {
            return Err(Refusal::InvalidFunction(n.to_string()));
        }
        if self.funcs.contains_key(n) {
            return Err(Refusal::DuplicateFunction(n.to_string()));
        }
        self.funcs.insert(n.to_string(), id);
        Ok(())
    }
    fn apply(&mut self, c: &Call, next_fn_id: &mut i128) -> Result<(), Refusal> {
        match c {
            Call::Rule(n, id) => self.add_rule(n, *id),
            Call::Rules(v) | Call::RulesIter(v) => {
                for (n, id) in v {
                    self.add_rule(n, *id)?;
                }
                Ok(())
            }
            Call::Func(n) | Call::FuncNc(n) => {
                *next_fn_id += 1;
                self.add_func(n, *next_fn_id)
            }
            Call::Funcs(v) | Call::FuncsNc(v) => {
                for n in v {
                    *next_fn_id += 1;
                    self.add_func(n, *next_fn_id)?;
                }
                Ok(())
            }
            Call::Symbol(n, v) => {
                self.syms.insert(n.to_string(), *v);
                Ok(())
            }
            Call::Symbols(v) | Call::SymbolsAppend(v) => {
                for (n, x) in v {
                    self.syms.insert(n.to_string(), *x);
                }
                Ok(())
            }
        }
    }
}

fn rule(name: &str, id: i128) -> Rule {
    Rule::new(name, BTreeMap::new(), Expr::value(Value::Int(id)))
}

fn func(name: &'static str, id: i128) -> ProbeFn {
    let h: Handler = Arc::new(move |_, _| (Ok(Value::Int(id)), 0));
    probe(name, true, &h)
}

fn func_nc(name: &'static str, id: i128) -> ProbeFn {
    let h: Handler = Arc::new(move |_, _| (Ok(Value::Int(id)), 0));
    probe(name, false, &h)
}

fn apply_real(b: Builder, c: &Call, next_fn_id: &mut i128) -> Result<Builder, reval::Error> {
    match c {
        Call::Rule(n, id) => b.with_rule(rule(n, *id)),
        Call::Rules(v) => b.with_rules(v.iter().map(|(n, id)| rule(n, *id)).collect::<Vec<_>>()),
        Call::RulesIter(v) => b.with_rules(v.iter().filter(|(n, _)| !n.is_empty()).map(|(n, id)| rule(n, *id))),
        Call::Func(n) => {
            *next_fn_id += 1;
            b.with_function(func(n, *next_fn_id))
        }
        Call::Funcs(v) => {
            let mut boxed: Vec<Box<dyn UserFunction + Send + Sync + 'static>> = Vec::new();
            for n in v {
                *next_fn_id += 1;
                boxed.push(Box::new(func(n, *next_fn_id)));
            }
            b.with_functions(boxed)
        }
        Call::FuncNc(n) => {
            *next_fn_id += 1;
            b.with_function(func_nc(n, *next_fn_id))
        }
        Call::FuncsNc(v) => {
            let mut boxed: Vec<Box<dyn UserFunction + Send + Sync + 'static>> = Vec::new();
            for n in v {
                *next_fn_id += 1;
                boxed.push(Box::new(func_nc(n, *next_fn_id)));
            }
            b.with_functions(boxed)
        }
        Call::Symbol(n, v) => Ok(b.with_symbol(*n, Value::Int(*v))),
        Call::Symbols(v) => {
            let mut s = Symbols::default();
            for (n, x) in v {
                s.insert(*n, Value::Int(*x));
            }
            b.with_symbols(s)
        }
        Call::SymbolsAppend(v) => {
            let mut s = Symbols::default();
            if let Some((n, x)) = v.first() {
                s.insert(*n, Value::Int(*x));
            }
            s.append(v.iter().skip(1).map(|(n, x)| (*n, Value::Int(*x))));
            b.with_symbols(s)
        }
    }
}

fn observe_refusal(e: &reval::Error) -> Option<Refusal> {
    match e {
        reval::Error::DuplicateRuleName(n) => Some(Refusal::DuplicateRule(n.clone())),
        reval::Error::InvalidFunctionName(n) => Some(Refusal::InvalidFunction(n.clone())),
        reval::Error::DuplicateFunctionName(n) => Some(Refusal::DuplicateFunction(n.clone())),
        _ => None,
    }
}

/// observation rules appended after the explored history
fn observers() -> Vec<(String, Expr)> {
    let mut v = Vec::new();
    for f in FN_NAMES {
        v.push((format!("obs_fn_{f}"), Expr::func(f, Expr::value(Value::Int(0)))));
    }
    for s in SYMS {
        v.push((format!("obs_sym_{s}"), Expr::symbol(s)));
    }
    v
}

fn run_history(hist: &[usize], alpha: &[Call]) -> Result<Option<String>, String> {
    // returns Ok(Some(description)) on violation
    let mut model = Model::default();
    let mut idm = 100i128;
    let mut idr = 100i128;
    let mut b = ruleset();
    for (step, &ci) in hist.iter().enumerate() {
        let c = &alpha[ci];
        let exp = model.clone().apply(c, &mut idm.clone());
        let got = catch(|| apply_real(b, c, &mut idr));
        let got = match got {
            Err(p) => return Ok(Some(format!("step {step} {c:?} panicked: {p}"))),
            Ok(g) => g,
        };
        // advance the model for real
        let exp_real = model.apply(c, &mut idm);
        debug_assert_eq!(exp.is_ok(), exp_real.is_ok());
        match (exp_real, got) {
            (Ok(()), Ok(nb)) => b = nb,
            (Err(r), Err(e)) => {
                if observe_refusal(&e) != Some(r.clone()) {
                    return Ok(Some(format!("step {step} {c:?}: refused with {e:?}, expected {r:?}")));
                }
                if step + 1 != hist.len() {
                    return Err("history continues after a refusal".into());
                }
                return Ok(None);
            }
            (Ok(()), Err(e)) => return Ok(Some(format!("step {step} {c:?}: refused with {e:?}, the model accepts it"))),
            (Err(r), Ok(_)) => return Ok(Some(format!("step {step} {c:?}: accepted, the model refuses it with {r:?}"))),
        }
    }
    // the builder survived: add the observers, build, evaluate
    let obs = observers();
    for (n, e) in &obs {
        b = match b.with_rule(Rule::new(n.clone(), BTreeMap::new(), e.clone())) {
            Ok(b) => b,
            Err(e) => return Ok(Some(format!("observer rule {n} refused: {e}"))),
        };
    }
    let rs = b.build();
    let out = match catch(|| block_on(rs.evaluate_value(&Value::None))) {
        Err(p) => return Ok(Some(format!("evaluation panicked: {p}"))),
        Ok(Err(m)) => return Err(m),
        Ok(Ok(Err(e))) => return Ok(Some(format!("evaluate_value failed: {e}"))),
        Ok(Ok(Ok(o))) => o,
    };
    let got: Vec<(String, String)> = out
        .iter()
        .map(|o| {
            (
                o.rule.name().to_string(),
                match &o.value {
                    Ok(v) => format!("Ok({})", RV::from_value(v).show()),
                    Err(reval::Error::UnknownUserFunction(n)) => format!("UnknownUserFunction({n})"),
                    Err(reval::Error::InvalidSymbol(n)) => format!("InvalidSymbol({n})"),
                    Err(e) => format!("Err({e:?})"),
                },
            )
        })
        .collect();
    let mut want: Vec<(String, String)> = model.rules.iter().map(|(n, id)| (n.clone(), format!("Ok(i{id})"))).collect();
    for f in FN_NAMES {
        want.push((
            format!("obs_fn_{f}"),
            match model.funcs.get(f) {
                Some(id) => format!("Ok(i{id})"),
                None => format!("UnknownUserFunction({f})"),
            },
        ));
    }
    for s in SYMS {
        want.push((
            format!("obs_sym_{s}"),
            match model.syms.get(s) {
                Some(v) => format!("Ok(i{v})"),
                None => format!("InvalidSymbol({s})"),
            },
        ));
    }
    if got != want {
        let diff: Vec<String> = got
            .iter()
            .zip(want.iter())
            .filter(|(g, w)| g != w)
            .map(|(g, w)| format!("{} = {} (expected {} = {})", g.0, g.1, w.0, w.1))
            .collect();
        return Ok(Some(format!(
            "built ruleset differs from the model: {} outcomes (expected {}); {}",
            got.len(),
            want.len(),
            diff.join("; ")
        )));
    }
    Ok(None)
}


/// Batch sweep: every batch of length 0..=max over a three-name pool (rules: Vec and filtering
/// iterator), a two-name pool (functions: cacheable and not) and a two-name pool (symbols), each
/// after every one-call prefix (nothing, a rule, a function, a symbol).  A name repeated anywhere
/// in a batch -- adjacent or not, first / middle / last -- is refused exactly as if the items had
/// been added one by one.
fn batch_alphabet(max: usize) -> (Vec<Call>, usize) {
    let mut v = vec![Call::Rule("A", 1), Call::Rule("C", 2), Call::Func("f"), Call::Func("g"), Call::Symbol("s", 11)];
    let prefixes = v.len();
    fn words<T: Copy>(pool: &[T], max: usize) -> Vec<Vec<T>> {
        let mut out: Vec<Vec<T>> = vec![vec![]];
        let mut last: Vec<Vec<T>> = vec![vec![]];
        for _ in 0..max {
            let mut next = Vec::new();
            for w in &last {
                for &x in pool {
                    let mut n = w.clone();
                    n.push(x);
                    next.push(n);
                }
            }
            out.extend(next.iter().cloned());
            last = next;
        }
        out
    }
    for w in words(&["A", "B", "C"], max) {
        let b: Vec<(&'static str, i128)> = w.iter().enumerate().map(|(i, n)| (*n, 30 + i as i128)).collect();
        v.push(Call::Rules(b.clone()));
        v.push(Call::RulesIter(b));
    }
    for w in words(&["f", "g"], max) {
        v.push(Call::Funcs(w.clone()));
        v.push(Call::FuncsNc(w));
    }
    for w in words(&["s", "t"], max) {
        let b: Vec<(&'static str, i128)> = w.iter().enumerate().map(|(i, n)| (*n, 40 + i as i128)).collect();
        v.push(Call::Symbols(b.clone()));
        v.push(Call::SymbolsAppend(b));
    }
    (v, prefixes)
}

fn batch_sweep(tier: Tier) -> (Acc, u64) {
    let max = tier.pick(5, 7);
    let (alpha, prefixes) = batch_alphabet(max);
    let hists: Vec<Vec<usize>> = (prefixes..alpha.len())
        .flat_map(|b| std::iter::once(vec![b]).chain((0..prefixes).map(move |p| vec![p, b])))
        .collect();
    let n = hists.len() as u64;
    let acc = hists
        .into_par_iter()
        .map(|hist| {
            let mut acc = Acc::new();
            acc.count("executions", 1);
            match run_history(&hist, &alpha) {
                Ok(None) => acc.outcome("batch-agrees"),
                Ok(Some(desc)) => {
                    acc.outcome("violation");
                    let names: Vec<String> = hist.iter().map(|&i| format!("{:?}", alpha[i])).collect();
                    acc.violation(Violation {
                        sig: format!("batch/{}", desc.chars().filter(|c| !c.is_ascii_digit()).take(70).collect::<String>()),
                        what: format!("builder history {}: {desc}", names.join(" ; ")),
                        case: json!({"kind": "batch", "max": max, "calls": hist}),
                        size: names.iter().map(|s| s.len()).sum(),
                    });
                }
                Err(m) => acc.machinery(m),
            }
            acc
        })
        .reduce(Acc::new, |a, b| a.merge(b));
    (acc, n)
}

fn explore_root(first: usize, alpha: &[Call], max_len: usize, acc: &mut Acc) -> TreeStats {
    let n = alpha.len() as u32;
    let res = explore(&[first as u32], None, 200_000_000, |ch, _| {
        // a history: first call is fixed by the root, then up to max_len-1 further calls; a choice
        // of `n` means "stop here"
        let mut hist: Vec<usize> = Vec::new();
        let mut model = Model::default();
        let mut id = 100i128;
        loop {
            let limit = if hist.is_empty() { n } else { n + 1 };
            let c = ch.lock().unwrap().choose(limit) as usize;
            if c == n as usize {
                break;
            }
            hist.push(c);
            // a refusal consumes the builder: the history ends
            if model.apply(&alpha[c], &mut id).is_err() || hist.len() >= max_len {
                break;
            }
        }
        acc.count("executions", 1);
        match run_history(&hist, alpha) {
            Ok(None) => {
                acc.outcome(format!("len={} {}", hist.len(), if model.rules.is_empty() { "no-rules" } else { "rules" }));
            }
            Ok(Some(desc)) => {
                acc.outcome("violation");
                let names: Vec<String> = hist.iter().map(|&i| format!("{:?}", alpha[i])).collect();
                acc.violation(Violation {
                    sig: format!("history/{}", desc.chars().filter(|c| !c.is_ascii_digit()).take(70).collect::<String>()),
                    what: format!("builder history {}: {desc}", names.join(" ; ")),
                    case: json!({"kind": "history", "calls": hist}),
                    size: hist.len(),
                });
            }
            Err(m) => acc.machinery(m),
        }
    });
    match res {
        Ok(s) => s,
        Err((s, m)) => {
            acc.machinery(m);
            s
        }
    }
}

fn name_candidates() -> Vec<String> {
    let chars = ['a', 'Z', '_', '1', '-', ' ', 'é', '.', '('];
    let mut v: Vec<String> = vec![String::new()];
    let mut frontier = vec![String::new()];
    for _ in 0..3 {
        let mut next = Vec::new();
        for s in &frontier {
            for c in chars {
                let mut t = s.clone();
                t.push(c);
                next.push(t);
            }
        }
        v.extend(next.iter().cloned());
        frontier = next;
    }
    for r in RESERVED {
        v.push(r.to_string());
        v.push(format!("{r}x"));
        v.push(format!("_{r}"));
        v.push(r.to_uppercase());
        // every proper prefix (a new alias keyword in the grammar would most likely be one of them)
        for i in 2..r.len() {
            v.push(r[..i].to_string());
        }
    }
    v.push("a".repeat(300));
    v.push("valid_name_1".into());
    v.push("with space".into());
    v.push("dash-ed".into());
    v.push("_-".into());
    v.push("_ x".into());
    v.push("éa1".into());
    v.sort();
    v.dedup();
    // a lone underscore: the statement does not say whether it is well-formed (DESIGN §5)
    v.retain(|s| s != "_" && s != "__" && s != "___");
    v
}

fn check_names(acc: &mut Acc, tier: Tier) -> u64 {
    let mut names = name_candidates();
    // every Unicode scalar (quick: the BMP) as first and as second character of a name
    let top = tier.pick(0xFFFFu32, 0x10FFFF);
    for c in (0x80..=top).filter_map(char::from_u32) {
        names.push(format!("{c}a"));
        names.push(format!("a{c}"));
    }
    for name in &names {
        let leaked: &'static str = Box::leak(name.clone().into_boxed_str());
        for via in ["with_function", "with_functions"] {
            let r = catch(|| {
                if via == "with_function" {
                    ruleset().with_function(func(leaked, 1)).map(|_| ())
                } else {
                    let v: Vec<Box<dyn UserFunction + Send + Sync + 'static>> = vec![Box::new(func(leaked, 1))];
                    ruleset().with_functions(v).map(|_| ())
                }
            });
            acc.count("executions", 1);
            acc.count("names_checked", 1);
            let want = name_ok(name);
            let accepted = matches!(r, Ok(Ok(())));
            let problem = match r {
                Err(p) => Some(format!("panicked: {p}")),
                Ok(Ok(())) if !want => Some("accepted, but it is reserved or not a well-formed identifier".to_string()),
                Ok(Err(e)) if want => Some(format!("refused ({e}), but it is a well-formed, unreserved identifier")),
                Ok(Err(e)) => match observe_refusal(&e) {
                    Some(Refusal::InvalidFunction(n)) if n == *name => None,
                    _ => Some(format!("refused with {e:?}, expected InvalidFunctionName({name:?})")),
                },
                Ok(Ok(())) => None,
            };
            // an accepted function whose name can be written in rule text must be reached from there
            if want && via == "with_function" && accepted && crate::spec::rv::is_ident(name) && name.len() <= 40 {
                let seen = catch(|| {
                    let e = Expr::parse(&format!("{name}(i0)")).map_err(|e| e.to_string())?;
                    let rs = ruleset()
                        .with_rule(Rule::new("call", BTreeMap::new(), e))
                        .and_then(|b| b.with_function(func(leaked, 4242)))
                        .map_err(|e| e.to_string())?
                        .build();
                    let out = block_on(rs.evaluate_value(&Value::None))?.map_err(|e| e.to_string())?;
                    Ok::<_, String>(out.into_iter().next().map(|o| o.value.map(|v| RV::from_value(&v)).map_err(|e| e.to_string())))
                });
                acc.count("names_called_from_rule_text", 1);
                match seen {
                    Ok(Ok(Some(Ok(RV::Int(4242))))) => {}
                    other => acc.violation(Violation {
                        sig: format!("name-not-invocable-from-text/{name}"),
                        what: format!("function {name:?} is accepted by the builder, but the rule text `{name}(i0)` does not reach it: {other:?}"),
                        case: json!({"kind": "name", "name": name, "via": "text"}),
                        size: name.len(),
                    }),
                }
            }
            acc.outcome(format!("name:{}", if want { "accept" } else { "refuse" }));
            if let Some(d) = problem {
                acc.violation(Violation {
                    sig: format!("name/{name:?}/{via}"),
                    what: format!("{via}({name:?}): {d}"),
                    case: json!({"kind": "name", "name": name, "via": via}),
                    size: name.len(),
                });
            }
        }
    }
    names.len() as u64
}

struct MixCtx {
    builtins_expr: Expr,
    mix_facts: Value,
    baseline: Option<Value>,
}

impl MixCtx {
    fn new() -> MixCtx {
        // built-ins applied to the arguments the function under test also receives: neither side
        // may see the other's results
        let builtins_text = "[datetime(s), date_time(s), duration(i5), int(n), float(n), dec(n), uppercase(s), lowercase(s), trim(s), to_upper(s), to_lower(s), year(datetime(s)), month(datetime(s)), is_some(s), is_none(s), round(f1.5), floor(f1.5), fract(f1.5), week(i5), day(i5), hour(i5), minute(i5), second(i5), s contains \"T\", n in [n]]";
        let mix_facts = Value::Map([("s".to_string(), Value::String("2015-07-30T03:26:13Z".into())), ("n".to_string(), Value::String("5".into()))].into_iter().collect());
        let builtins_expr = Expr::parse(builtins_text).expect("builtins text parses");
        let baseline: Option<Value> = block_on(builtins_expr.evaluate(&mix_facts)).ok().and_then(|r| r.ok());
        MixCtx { builtins_expr, mix_facts, baseline }
    }
}

/// one candidate name: refused exactly when reserved / ill-formed; when accepted and writable in
/// rule text, `name(i0)` reaches it; with `mixed`, also evaluated next to all built-ins
fn check_word(name: &String, mixed: bool, ctx: &MixCtx, acc: &mut Acc) {
    let leaked: &'static str = Box::leak(name.clone().into_boxed_str());
    acc.count("executions", 1);
    acc.count("words_checked", 1);
    let want = name_ok(name);
    let r = catch(|| ruleset().with_function(func(leaked, 1)).map(|_| ()));
    let accepted = matches!(r, Ok(Ok(())));
    let problem = match &r {
        Err(p) => Some(format!("panicked: {p}")),
        Ok(Ok(())) if !want => Some("accepted, but it is reserved".to_string()),
        Ok(Err(e)) if want => Some(format!("refused ({e}), but it is a well-formed, unreserved identifier")),
        _ => None,
    };
    if let Some(d) = problem {
        acc.violation(Violation { sig: format!("name/{name:?}/with_function"), what: format!("with_function({name:?}): {d}"), case: json!({"kind": "name", "name": name, "via": "with_function"}), size: name.len() });
    }
    if accepted && crate::spec::rv::is_ident(name) {
        let seen = catch(|| {
            let e = Expr::parse(&format!("{name}(i0)")).map_err(|e| e.to_string())?;
            let rs = ruleset().with_rule(Rule::new("call", BTreeMap::new(), e)).and_then(|b| b.with_function(func_nc(leaked, 4242))).map_err(|e| e.to_string())?.build();
            let out = block_on(rs.evaluate_value(&Value::None))?.map_err(|e| e.to_string())?;
            Ok::<_, String>(out.into_iter().next().map(|o| o.value.map(|v| RV::from_value(&v)).map_err(|e| e.to_string())))
        });
        acc.count("names_called_from_rule_text", 1);
        match seen {
            Ok(Ok(Some(Ok(RV::Int(4242))))) => {}
            other => acc.violation(Violation {
                sig: format!("name-not-invocable-from-text/{name}"),
                what: format!("function {name:?} is accepted by the builder, but the rule text `{name}(i0)` does not reach it: {other:?}"),
                case: json!({"kind": "name", "name": name, "via": "text"}),
                size: name.len(),
            }),
        }
    }
    if accepted && mixed && crate::spec::rv::is_ident(name) {
        let seen = catch(|| {
            let h: Handler = Arc::new(|_, p| (Ok(Value::Vec(vec![Value::Int(4242), p])), 0));
            let call = Expr::parse(&format!("[{name}(s), {name}(i5), {name}(n), {name}(f1.5), {name}(datetime(s))]")).map_err(|e| e.to_string())?;
            let rs = ruleset()
                .with_rule(Rule::new("before", BTreeMap::new(), ctx.builtins_expr.clone()))
                .and_then(|b| b.with_rule(Rule::new("call", BTreeMap::new(), call)))
                .and_then(|b| b.with_rule(Rule::new("after", BTreeMap::new(), ctx.builtins_expr.clone())))
                .and_then(|b| b.with_function(probe(leaked, true, &h)))
                .map_err(|e| e.to_string())?
                .build();
            let out = block_on(rs.evaluate_value(&ctx.mix_facts))?.map_err(|e| e.to_string())?;
            Ok::<_, String>(out.into_iter().map(|o| o.value.map_err(|e| e.to_string())).collect::<Vec<_>>())
        });
        acc.count("names_mixed_with_builtins", 1);
        let ok = match (&seen, &ctx.baseline) {
            (Ok(Ok(v)), Some(b)) if v.len() == 3 => {
                let call_ok = matches!(&v[1], Ok(Value::Vec(items)) if items.len() == 5 && items.iter().all(|i| matches!(i, Value::Vec(p) if p.first() == Some(&Value::Int(4242)))));
                v[0].as_ref().ok() == Some(b) && v[2].as_ref().ok() == Some(b) && call_ok
            }
            _ => false,
        };
        if !ok {
            acc.violation(Violation {
                sig: format!("name-mixes-with-builtins/{name}"),
                what: format!("a cacheable function named {name:?} evaluated next to the built-ins on the same arguments: outcomes {seen:?} (the built-ins alone give {:?})", ctx.baseline),
                case: json!({"kind": "name", "name": name, "via": "mixed"}),
                size: name.len(),
            });
        }
    }
    acc.outcome(format!("word:{}", if want { "accept" } else { "refuse" }));
}

/// words a grammar could plausibly learn as a new operator, built-in or literal
pub const PLAUSIBLE_WORDS: [&str; 191] = [
    "not", "xor", "mod", "div", "nor", "nand", "null", "nil", "is", "as", "let", "fn", "def", "var", "len", "abs", "min", "max", "sum", "avg", "any", "all", "map", "filter", "like", "matches", "between", "exists",
    "empty", "upper", "lower", "length", "count", "first", "last", "keys", "values", "now", "today", "date", "time", "string", "str", "bool", "number", "list", "dict", "set", "type", "typeof", "case", "when", "switch",
    "match", "default", "return", "while", "for", "do", "end", "begin", "try", "catch", "throw", "new", "this", "self", "super", "where", "select", "from", "join", "on", "by", "group", "order", "limit", "having", "union",
    "distinct", "unless", "elif", "elsif", "otherwise", "neg", "negate", "plus", "minus", "times", "equals", "eq", "ne", "neq", "lt", "gt", "le", "ge", "lte", "gte", "startswith", "endswith", "starts_with", "ends_with",
    "is_empty", "is_null", "is_not", "not_in", "bitand", "bitor", "bitxor", "shl", "shr", "pow", "sqrt", "ceil", "trunc", "sign", "concat", "substr", "replace", "split", "format", "parse", "to_int", "to_float", "to_dec",
    "to_string", "to_str", "to_date", "seconds", "minutes", "hours", "days", "weeks", "months", "years", "millis", "epoch", "timestamp", "utc", "local", "decimal", "integer", "double", "real", "char", "byte", "bytes", "array",
    "object", "struct", "enum", "tuple", "option", "result", "ok", "err", "error", "fail", "assert", "require", "ensure", "check", "rule", "rules", "facts", "fact", "symbol", "symbols", "meta", "name", "description", "import",
    "include", "use", "pub", "const", "static", "mut", "ref", "move", "async", "await", "yield", "lambda", "func", "function", "call", "apply", "eval", "exec",
];

/// every lower-case word up to the bound, plus the plausible-word list (also capitalised and with
/// an underscore): an accepted name must be refused-or-invocable — accepted by the builder means
/// the rule text `name(i0)` reaches that very function
fn word_sweep(tier: Tier) -> (Acc, u64) {
    let max_len = tier.pick(3usize, 4usize);
    let mut words: Vec<String> = Vec::new();
    let mut frontier = vec![String::new()];
    for _ in 0..max_len {
        let mut next = Vec::new();
        for w in &frontier {
            for c in 'a'..='z' {
                let mut t = w.clone();
                t.push(c);
                next.push(t);
            }
        }
        words.extend(next.iter().cloned());
        frontier = next;
    }
    for w in PLAUSIBLE_WORDS {
        words.push(w.to_string());
        words.push(w.to_uppercase());
        words.push(format!("{}{}", w[..1].to_uppercase(), &w[1..]));
        words.push(format!("{w}_"));
        words.push(format!("is_{w}"));
        words.push(format!("to_{w}"));
    }
    // names derived from the built-ins (what an internal memo or helper would be called)
    let mut derived: Vec<String> = Vec::new();
    for k in RESERVED.iter().copied().chain(["date", "time", "string", "str", "bool", "list", "map", "index", "symbol", "value", "expr", "cast", "parse"]) {
        for pre in ["to_", "as_", "from_", "parse_", "is_", "_", "get_", "eval_", "cast_", "builtin_", "fn_", "reval_", "__", "do_", "try_"] {
            derived.push(format!("{pre}{k}"));
        }
        for suf in ["_", "_of", "_value", "_cast", "2", "_fn", "_impl", "_from", "_to", "s"] {
            derived.push(format!("{k}{suf}"));
        }
    }
    derived.sort();
    derived.dedup();
    let derived_set: std::collections::BTreeSet<String> = derived.iter().cloned().chain(PLAUSIBLE_WORDS.iter().map(|w| w.to_string())).collect();
    words.extend(derived);
    words.sort();
    words.dedup();
    let n = words.len() as u64;
    let ctx = MixCtx::new();
    let acc = words
        .par_chunks(512)
        .map(|chunk| {
            let mut acc = Acc::new();
            for name in chunk {
                check_word(name, derived_set.contains(name), &ctx, &mut acc);
            }
            acc
        })
        .reduce(Acc::new, |a, b| a.merge(b));
    (acc, n)
}

pub fn run(tier: Tier) -> i32 {
    let mut rep = Report::new("C15", tier);
    {
        // functions of zero-sized types: each invocable under its own name (shared with C11)
        let (zacc, n) = super::c11::zst_leg();
        rep.bound("zero_sized_function_sequences", n);
        rep.absorb(zacc);
    }
    {
        let (wacc, n) = word_sweep(tier);
        rep.bound("word_sweep", format!("every lower-case word of length <= {}, {} plausible keyword words in 6 spellings: {n} names", tier.pick(3, 4), PLAUSIBLE_WORDS.len()));
        rep.absorb(wacc);
    }
    {
        let (bacc, n) = batch_sweep(tier);
        rep.bound("batch_sweep", format!("every batch of length <= {} over 3 rule names / 2 function names / 2 symbol names, alone and after each of 5 one-call prefixes: {n} histories", tier.pick(5, 7)));
        rep.absorb(bacc);
    }
    let alpha = alphabet();
    let max_len = tier.pick(5, 6);
    {
        let fc = super::crowd::run_function_crowd();
        rep.bound("function_crowd", format!("{} well-formed names of mixed byte / character length registered in three orders: none refused, each invocable as itself", fc.members));
        rep.absorb(fc.acc);
    }
    rep.bound("builder_calls", alpha.len());
    rep.bound("max_history_length", max_len);
    let (acc, stats) = (0..alpha.len())
        .into_par_iter()
        .map(|first| {
            let mut acc = Acc::new();
            let st = explore_root(first, &alpha, max_len, &mut acc);
            (acc, st)
        })
        .reduce(
            || (Acc::new(), TreeStats::default()),
            |(a, mut sa), (b, sb)| {
                sa.add(&sb);
                (a.merge(b), sa)
            },
        );
    rep.absorb(acc);
    // the empty history
    let mut acc = Acc::new();
    acc.count("executions", 1);
    match run_history(&[], &alpha) {
        Ok(None) => {}
        Ok(Some(d)) => acc.violation(Violation { sig: "history/empty".into(), what: format!("empty builder: {d}"), case: json!({"kind": "history", "calls": []}), size: 0 }),
        Err(m) => acc.machinery(m),
    }
    // moderate size: 30 rules, 30 functions and 30 symbols registered one by one and in batches;
    // everything must be present, in order, invocable, latest symbol value wins
    {
        acc.count("executions", 1);
        let names: Vec<&'static str> = (0..30).map(|i| &*Box::leak(format!("fn_{i}").into_boxed_str())).collect();
        let build = || -> Result<RuleSet, String> {
            let mut b = ruleset();
            for i in 0..15 {
                b = b.with_rule(Rule::new(format!("rule{i}"), BTreeMap::new(), Expr::Vec(vec![Expr::func(names[i], Expr::value(Value::Int(0))), Expr::symbol(format!("sym{i}"))]))).map_err(|e| e.to_string())?;
                b = b.with_function(func(names[i], 1000 + i as i128)).map_err(|e| e.to_string())?;
                b = b.with_symbol(format!("sym{i}"), Value::Int(-1));
            }
            b = b
                .with_rules((15..30).map(|i| Rule::new(format!("rule{i}"), BTreeMap::new(), Expr::Vec(vec![Expr::func(names[i], Expr::value(Value::Int(0))), Expr::symbol(format!("sym{i}"))]))).collect::<Vec<_>>())
                .map_err(|e| e.to_string())?;
            b = b
                .with_functions((15..30).map(|i| Box::new(func(names[i], 1000 + i as i128)) as Box<dyn UserFunction + Send + Sync + 'static>).collect::<Vec<_>>())
                .map_err(|e| e.to_string())?;
            let mut syms = Symbols::default();
            for i in 0..30 {
                syms.insert(format!("sym{i}"), Value::Int(i as i128));
            }
            b = b.with_symbols(syms).map_err(|e| e.to_string())?;
            Ok(b.build())
        };
        match catch(build) {
            Ok(Ok(rs)) => match catch(|| block_on(rs.evaluate_value(&Value::None))) {
                Ok(Ok(Ok(out))) => {
                    let got: Vec<(String, String)> = out.iter().map(|o| (o.rule.name().to_string(), format!("{:?}", o.value.as_ref().map(|v| RV::from_value(v).show()).map_err(|e| e.to_string())))).collect();
                    let want: Vec<(String, String)> = (0..30).map(|i| (format!("rule{i}"), format!("Ok(\"[i{}, i{}]\")", 1000 + i, i))).collect();
                    if got != want {
                        acc.violation(Violation { sig: "wide-builder".into(), what: format!("30 rules / functions / symbols: outcomes {got:?}"), case: json!({"kind": "wide"}), size: 30 });
                    }
                    acc.outcome("wide-builder");
                }
                other => acc.violation(Violation { sig: "wide-builder/evaluate".into(), what: format!("evaluating the 30-rule ruleset failed: {:?}", other.map(|r| r.map(|x| x.map(|o| o.len()).map_err(|e| e.to_string())))), case: json!({"kind": "wide"}), size: 30 }),
            },
            other => acc.violation(Violation { sig: "wide-builder/build".into(), what: format!("building 30 rules / functions / symbols failed: {:?}", other.map(|r| r.map(|_| ()))), case: json!({"kind": "wide"}), size: 30 }),
        }
    }
    // a symbol re-registered with a value that is `==` to the old one but not the same value
    // (sign of zero, decimal scale, inside containers): the latest registration wins exactly
    {
        let d = |m: u128, s: u32| RV::Dec(RDec { neg: false, mant: m, scale: s });
        let pairs: Vec<(RV, RV)> = vec![
            (RV::float(0.0), RV::float(-0.0)),
            (RV::float(-0.0), RV::float(0.0)),
            (d(10, 1), d(100, 2)),
            (d(100, 2), d(1, 0)),
            (RV::List(vec![d(10, 1)]), RV::List(vec![d(100, 2)])),
            (RV::map(&[("k", RV::float(0.0))]), RV::map(&[("k", RV::float(-0.0))])),
            (RV::Int(1), RV::Int(1)),
            // containers replaced by containers: the later registration replaces the value as a whole
            (RV::map(&[("be", RV::Int(21)), ("nl", RV::Int(6))]), RV::map(&[("nl", RV::Int(9))])),
            (RV::map(&[("nl", RV::Int(9))]), RV::map(&[("be", RV::Int(21)), ("nl", RV::Int(6))])),
            (RV::map(&[("a", RV::map(&[("x", RV::Int(1))]))]), RV::map(&[("a", RV::map(&[("y", RV::Int(2))]))])),
            (RV::List(vec![RV::Int(1), RV::Int(2), RV::Int(3)]), RV::List(vec![RV::Int(9)])),
            (RV::map(&[("k", RV::Int(1))]), RV::map(&[])),
            (RV::map(&[("k", RV::Int(1))]), RV::None),
            (RV::Int(5), RV::None),
            (RV::None, RV::map(&[("k", RV::Int(1))])),
        ];
        for (old, new) in &pairs {
            for route in 0..6 {
                acc.count("executions", 1);
                let built = catch(|| {
                    let mut b = ruleset().with_rule(Rule::new("sym", BTreeMap::new(), Expr::symbol("z"))).map_err(|e| e.to_string())?;
                    let batch = |v: &RV| {
                        let mut s = Symbols::default();
                        s.insert("z", v.to_value());
                        s.insert("other", Value::Int(0));
                        s
                    };
                    b = match route {
                        0 => b.with_symbol("z", old.to_value()).with_symbol("z", new.to_value()),
                        1 => b.with_symbol("z", old.to_value()).with_symbols(batch(new)).map_err(|e| e.to_string())?,
                        2 => b.with_symbols(batch(old)).map_err(|e| e.to_string())?.with_symbol("z", new.to_value()),
                        3 => b.with_symbols(batch(old)).map_err(|e| e.to_string())?.with_symbols(batch(new)).map_err(|e| e.to_string())?,
                        // the later table is strictly larger / strictly smaller than what is there
                        4 => {
                            let mut big = batch(new);
                            big.append((0..5).map(|i| (format!("extra{i}"), Value::Int(i))));
                            b.with_symbol("z", old.to_value()).with_symbols(big).map_err(|e| e.to_string())?
                        }
                        _ => {
                            let mut big = batch(old);
                            big.append((0..5).map(|i| (format!("extra{i}"), Value::Int(i))));
                            let mut small = Symbols::default();
                            small.append([("z", new.to_value())]);
                            b.with_symbols(big).map_err(|e| e.to_string())?.with_symbols(small).map_err(|e| e.to_string())?
                        }
                    };
                    let rs = b.build();
                    let out = block_on(rs.evaluate_value(&Value::None))?.map_err(|e| e.to_string())?;
                    Ok::<_, String>(out.into_iter().next().map(|o| o.value.map(|v| RV::from_value(&v)).map_err(|e| e.to_string())))
                });
                match built {
                    Ok(Ok(Some(Ok(v)))) if v == *new => acc.outcome("symbol-latest-wins"),
                    other => acc.violation(Violation {
                        sig: format!("symbol-equal-but-different/{}/{route}", old.ty().name()),
                        what: format!("symbol registered as {} and then as {} (route {route}): resolves to {other:?}", old.show(), new.show()),
                        case: json!({"kind": "symbol-pair"}),
                        size: route,
                    }),
                }
            }
        }
    }
    // moderate size: n rules (n = 1..40), then a duplicate of each position must be refused; the
    // same for functions
    for n in 1..=40usize {
        for dup in 0..n {
            acc.count("executions", 2);
            let r = catch(|| {
                let mut b = ruleset();
                for i in 0..n {
                    b = b.with_rule(rule(&format!("rule{i}"), i as i128)).map_err(|e| format!("{e:?}"))?;
                }
                Ok::<_, String>(b.with_rule(rule(&format!("rule{dup}"), 999)).map(|_| ()).map_err(|e| observe_refusal(&e)))
            });
            match r {
                Ok(Ok(Err(Some(Refusal::DuplicateRule(name))))) if name == format!("rule{dup}") => acc.outcome("dup-rule:refused"),
                other => acc.violation(Violation { sig: format!("duplicate-rule/{n}/{dup}"), what: format!("{n} rules, then a second rule named like rule #{dup}: {:?}", other.map(|x| x.map(|y| y.is_ok()))), case: json!({"kind": "dup", "n": n, "dup": dup}), size: n * 100 + dup }),
            }
            let names: Vec<&'static str> = (0..n).map(|i| &*Box::leak(format!("fun{i}").into_boxed_str())).collect();
            let r = catch(|| {
                let mut b = ruleset();
                for (i, nm) in names.iter().enumerate() {
                    b = if i % 2 == 0 { b.with_function(func(nm, i as i128)) } else { b.with_functions(vec![Box::new(func(nm, i as i128)) as Box<dyn UserFunction + Send + Sync + 'static>]) }.map_err(|e| format!("{e:?}"))?;
                }
                Ok::<_, String>(b.with_function(func(names[dup], 999)).map(|_| ()).map_err(|e| observe_refusal(&e)))
            });
            match r {
                Ok(Ok(Err(Some(Refusal::DuplicateFunction(name))))) if name == names[dup] => acc.outcome("dup-fn:refused"),
                other => acc.violation(Violation { sig: format!("duplicate-function/{n}/{dup}"), what: format!("{n} functions, then a second one named like #{dup}: {:?}", other.map(|x| x.map(|y| y.is_ok()))), case: json!({"kind": "dup", "n": n, "dup": dup}), size: n * 100 + dup }),
            }
        }
    }
    let n_names = check_names(&mut acc, tier);
    acc.sample("history", 1, || json!({"calls": ["with_symbol(s, i11)", "with_symbols({s: i17, t: i18, u: i19})", "with_function(f)", "with_rules([C#6, C#7]) -> refused"]}));
    acc.sample("name", 1, || json!({"candidates": ["_-", "if", "date_time", "é1", "1a", ""]}));
    rep.absorb(acc);
    rep.bound("candidate_names", n_names);
    rep.states = stats.nodes + 1;
    rep.transitions = stats.edges + n_names;
    rep.traces = rep.acc.get("executions");
    rep.rule = "E1: every sequence of builder calls up to the bound over a 20-call alphabet (a refusal ends the history), each followed by observer rules, build and evaluation, compared with a reference builder model; plus every candidate function name (all strings <= 3 over 9 characters, every reserved word and its near misses) through both registration entry points".into();
    rep.assume("XID_Start / XID_Continue come from the unicode-xid crate (trusted base); every Unicode scalar is tried as first and as second character of a name");
    rep.finish()
}

pub fn replay(case: &serde_json::Value) -> i32 {
    if case.get("kind").and_then(|k| k.as_str()) == Some("function-crowd") {
        return super::crowd::replay(case);
    }
    let alpha = if case.get("kind").and_then(|k| k.as_str()) == Some("batch") {
        batch_alphabet(case.get("max").and_then(|m| m.as_u64()).unwrap_or(5) as usize).0
    } else {
        alphabet()
    };
    match case.get("kind").and_then(|k| k.as_str()) {
        Some("history") | Some("batch") => {
            let hist: Vec<usize> = case
                .get("calls")
                .and_then(|a| a.as_array())
                .map(|a| a.iter().filter_map(|x| x.as_u64().map(|v| v as usize)).collect())
                .unwrap_or_default();
            if hist.iter().any(|&i| i >= alpha.len()) {
                return 2;
            }
            for &i in &hist {
                println!("  {:?}", alpha[i]);
            }
            match run_history(&hist, &alpha) {
                Ok(None) => {
                    println!("verdict: holds");
                    0
                }
                Ok(Some(d)) => {
                    println!("verdict: VIOLATED — {d}");
                    1
                }
                Err(m) => {
                    println!("{m}");
                    2
                }
            }
        }
        Some("zero-sized-functions") => super::c11::replay(case),
        Some("name") if matches!(case.get("via").and_then(|v| v.as_str()), Some("text") | Some("mixed")) => {
            let name = case.get("name").and_then(|n| n.as_str()).unwrap_or("").to_string();
            let mut acc = Acc::new();
            check_word(&name, true, &MixCtx::new(), &mut acc);
            if acc.violations.is_empty() {
                println!("name {name:?}: refused-or-invocable holds, also next to the built-ins");
                0
            } else {
                for v in acc.violations.values() {
                    println!("verdict: VIOLATED — {}", v.what);
                }
                1
            }
        }
        Some("name") => {
            let name = case.get("name").and_then(|n| n.as_str()).unwrap_or("").to_string();
            let leaked: &'static str = Box::leak(name.clone().into_boxed_str());
            let r = catch(|| ruleset().with_function(func(leaked, 1)).map(|_| ()));
            println!("with_function({name:?}) -> {:?}; reference accepts: {}", r.as_ref().map(|x| x.as_ref().map_err(|e| e.to_string())), name_ok(&name));
            match r {
                Ok(Ok(())) if name_ok(&name) => 0,
                Ok(Err(_)) if !name_ok(&name) => 0,
                _ => 1,
            }
        }
        _ => 2,
    }
}
