//! C14 — a rule's name, description, metadata and expression are extracted exactly.
//! All line sequences over a line alphabet; the reference rule-text model is computed from the
//! line components plus the reference grammar.
use super::syntax::*;
use crate::engine::report::{Acc, Report, Tier, Violation};
use crate::spec::grammar::*;
use crate::spec::rv::RV;
use rayon::prelude::*;
use serde_json::json;
use std::collections::BTreeMap;

#[derive(Clone, Copy, PartialEq, Debug)]
enum LK {
    /// comment line with the given trimmed content
    Comment(&'static str),
    Blank,
    Meta,
    Expr,
}

const LINES: [(&str, LK); 25] = [
    ("// name", LK::Comment("name")),
    ("//  padded \t", LK::Comment("padded")),
    ("//", LK::Comment("")),
    ("   // indented", LK::Comment("indented")),
    ("\u{a0}\u{2003}// unicode indent", LK::Comment("unicode indent")),
    ("//\u{3000}\u{85}unicode pad\u{2009}\u{b}", LK::Comment("unicode pad")),
    ("", LK::Blank),
    ("@k: i1;", LK::Meta),
    ("@k: \"s\";", LK::Meta),
    ("@k: [i1, [i2]];", LK::Meta),
    ("@k: {a: {b: none}};", LK::Meta),
    ("@k: i2;", LK::Meta),
    ("@K: i3;", LK::Meta),
    ("@name: \"N\";", LK::Meta),
    ("@name: i1;", LK::Meta),
    ("@description: \"D\";", LK::Meta),
    ("@description: i5;", LK::Meta),
    ("@k: x;", LK::Meta),
    ("@k: -i1;", LK::Meta),
    ("@k: [i1, x];", LK::Meta),
    ("@k: {a: i1, b: {c: f(i1)}};", LK::Meta),
    ("i1 + i2", LK::Expr),
    ("i1 +", LK::Expr),
    ("i2", LK::Expr),
    ("i2 // trailing", LK::Expr),
];

#[derive(Debug, PartialEq)]
enum Expected {
    Rule { name: String, description: Option<String>, metas: BTreeMap<String, RV>, comment_description: Option<String> },
    MissingName,
    Rejected,
    Unspecified,
}

fn expected(g: &Grammar, seq: &[usize], text: &str) -> (Expected, Option<crate::spec::re::RE>) {
    let comments: Vec<&str> = seq
        .iter()
        .filter_map(|&i| match LINES[i].1 {
            LK::Comment(c) => Some(c),
            _ => None,
        })
        .collect();
    expected_with_comments(g, &comments, text)
}

fn expected_with_comments(g: &Grammar, comments: &[&str], text: &str) -> (Expected, Option<crate::spec::re::RE>) {
    let tree = match reference_parse_rule(g, text) {
        RefParse::Accept(t) => t,
        RefParse::Reject { .. } => return (Expected::Rejected, None),
        _ => return (Expected::Unspecified, None),
    };
    // metadata: last occurrence wins; constants only; @name must be a string
    let mut metas: BTreeMap<String, RV> = BTreeMap::new();
    let mut meta_name: Option<String> = None;
    for (k, v) in &tree.metas {
        match (k.as_str(), fold_constant(v)) {
            (_, None) => return (Expected::Rejected, None),
            ("name", Some(RV::Str(s))) => meta_name = Some(s),
            ("name", Some(_)) => return (Expected::Rejected, None),
            (_, Some(c)) => {
                metas.insert(k.clone(), c);
            }
        }
    }
    let name = match meta_name.or_else(|| comments.first().map(|s| s.to_string())) {
        Some(n) => n,
        None => return (Expected::MissingName, Some(tree.expr)),
    };
    let comment_description = if comments.len() > 1 { Some(comments[1..].join("\n")) } else { None };
    let description = match metas.get("description") {
        Some(RV::Str(s)) => Some(s.clone()),
        Some(_) => None,
        None => comment_description.clone(),
    };
    (Expected::Rule { name, description, metas, comment_description }, Some(tree.expr))
}

fn check_text(g: &Grammar, seq: &[usize], text: &str, variant: &str, acc: &mut Acc) {
    let (exp, exp_expr) = expected(g, seq, text);
    let got = impl_parse_rule(text);
    acc.count("executions", 1);
    let mut problem: Option<(String, String)> = None;
    match (&exp, &got) {
        (_, ImplParse::Panic(p)) => problem = Some(("panic".into(), format!("panicked: {p}"))),
        (_, ImplParse::Unknown(m)) => {
            acc.machinery(format!("unrecognised message {m:?} for {text:?}"));
            return;
        }
        (Expected::Unspecified, _) => {}
        (Expected::Rejected, ImplParse::Ok(r)) => problem = Some(("accepts-invalid".into(), format!("accepted (name {:?}) although the text is not metadata* + expression with constant metadata", r.name))),
        (Expected::Rejected, ImplParse::Err(ErrKind::MissingName, _)) => {
            problem = Some(("wrong-error".into(), "reported a missing name although the text is not a well-formed rule".into()))
        }
        (Expected::Rejected, ImplParse::Err(..)) => {}
        (Expected::MissingName, ImplParse::Err(ErrKind::MissingName, _)) => {}
        (Expected::MissingName, other) => problem = Some(("missing-name".into(), format!("text supplies no name: expected the missing-name error, got {}", short(other)))),
        (Expected::Rule { .. }, ImplParse::Err(_, m)) => problem = Some(("rejects-valid".into(), format!("well-formed rule rejected: {}", m.lines().next().unwrap_or("")))),
        (Expected::Rule { name, description, metas, comment_description }, ImplParse::Ok(r)) => {
            if r.name != *name {
                problem = Some(("name".into(), format!("name {:?}, expected {:?}", r.name, name)));
            } else if r.description != *description {
                problem = Some(("description".into(), format!("description {:?}, expected {:?}", r.description, description)));
            } else {
                // metadata: exactly the @keys; the comment-derived description may additionally
                // appear under "description" when no @description was written
                let mut got_m = r.metadata.clone();
                if !metas.contains_key("description") {
                    if let Some(cd) = comment_description {
                        if got_m.get("description") == Some(&RV::Str(cd.clone())) {
                            got_m.remove("description");
                        }
                    }
                }
                if got_m != *metas {
                    problem = Some(("metadata".into(), format!("metadata {:?}, expected {:?}", show_m(&r.metadata), show_m(metas))));
                } else if Some(&r.expr) != exp_expr.as_ref() {
                    problem = Some(("expression".into(), format!("expression {:?}, expected {:?}", show_tree(&r.expr), exp_expr.as_ref().map(show_tree))));
                } else {
                    // differential: the expression is what the text without its metadata lines parses to
                    let sep = if variant.contains("crlf") { "\r\n" } else { "\n" };
                    let rest: Vec<&str> = seq.iter().filter(|&&i| LINES[i].1 != LK::Meta).map(|&i| LINES[i].0).collect();
                    match impl_parse_expr(&rest.join(sep)) {
                        ImplParse::Ok(e) if e == r.expr => {}
                        other => problem = Some(("expression-differential".into(), format!("rule expression {:?} but the text without metadata parses to {}", show_tree(&r.expr), short(&other)))),
                    }
                }
            }
        }
    }
    acc.outcome(match &exp {
        Expected::Rule { description, metas, .. } => format!("rule:desc={}:metas={}", description.is_some(), metas.len()),
        Expected::MissingName => "missing-name".into(),
        Expected::Rejected => "rejected".into(),
        Expected::Unspecified => "unspecified".into(),
    });
    if let Some((which, desc)) = problem {
        let shape: Vec<&str> = seq.iter().map(|&i| LINES[i].0).collect();
        acc.violation(Violation {
            sig: format!("{which}/{}", shape.join("|")),
            what: format!("Rule::parse({text:?}) [{variant}]: {desc}"),
            case: json!({"kind": "lines", "lines": seq, "variant": variant}),
            size: seq.len() * 1000 + text.len(),
        });
    }
}

/// a hand-written rule text against the reference rule-text model; the text must be a rule (or a
/// rejection) in the reference, anything the reference leaves unspecified is skipped
fn check_raw_rule(g: &Grammar, text: &str, comments: &[&str], label: &str, acc: &mut Acc) {
    acc.count("executions", 1);
    let (exp, exp_expr) = expected_with_comments(g, comments, text);
    match (&exp, impl_parse_rule(text)) {
        (_, ImplParse::Panic(p)) => acc.violation(Violation {
            sig: format!("{label}/panic"),
            what: format!("Rule::parse({text:?}) panicked: {p}"),
            case: json!({"kind": "raw", "text": text, "comments": comments}),
            size: text.len(),
        }),
        (Expected::Rule { name, description, metas, .. }, ImplParse::Ok(r)) => {
            let mut got_m = r.metadata.clone();
            if !metas.contains_key("description") {
                got_m.remove("description");
            }
            if r.name != *name || r.description != *description || got_m != *metas || Some(&r.expr) != exp_expr.as_ref() {
                acc.violation(Violation {
                    sig: format!("{label}/{}", if r.name != *name { "name" } else if r.description != *description { "description" } else if got_m != *metas { "metadata" } else { "expression" }),
                    what: format!(
                        "Rule::parse({text:?}): name {:?} / description {:?} / metadata {} / expression {}, expected {name:?} / {description:?} / {} / {}",
                        r.name,
                        r.description,
                        show_m(&got_m),
                        show_tree(&r.expr),
                        show_m(metas),
                        exp_expr.as_ref().map(show_tree).unwrap_or_default()
                    ),
                    case: json!({"kind": "raw", "text": text, "comments": comments}),
                    size: text.len(),
                });
            }
            acc.outcome(format!("{label}:ok"));
        }
        (Expected::Rule { .. }, other) => acc.violation(Violation {
            sig: format!("{label}/rejected"),
            what: format!("Rule::parse({text:?}) did not produce a rule: {}", short(&other)),
            case: json!({"kind": "raw", "text": text, "comments": comments}),
            size: text.len(),
        }),
        (Expected::Rejected, ImplParse::Ok(r)) => acc.violation(Violation {
            sig: format!("{label}/accepted"),
            what: format!("Rule::parse({text:?}) accepted (name {:?}) a text that is not a rule", r.name),
            case: json!({"kind": "raw", "text": text, "comments": comments}),
            size: text.len(),
        }),
        (Expected::MissingName, ImplParse::Ok(r)) => acc.violation(Violation {
            sig: format!("{label}/name-invented"),
            what: format!("Rule::parse({text:?}) has name {:?} although the text supplies none", r.name),
            case: json!({"kind": "raw", "text": text, "comments": comments}),
            size: text.len(),
        }),
        _ => acc.outcome(format!("{label}:other")),
    }
}

fn short<T: std::fmt::Debug>(x: &ImplParse<T>) -> String {
    let s = format!("{x:?}");
    s.chars().take(160).collect()
}

fn show_m(m: &BTreeMap<String, RV>) -> String {
    m.iter().map(|(k, v)| format!("{k}={}", v.show())).collect::<Vec<_>>().join(", ")
}

fn variants(seq: &[usize]) -> Vec<(String, &'static str)> {
    let lines: Vec<&str> = seq.iter().map(|&i| LINES[i].0).collect();
    vec![
        (lines.join("\n"), "lf"),
        (format!("{}\n", lines.join("\n")), "lf+final"),
        (lines.join("\r\n"), "crlf"),
        (format!("{}\r\n", lines.join("\r\n")), "crlf+final"),
    ]
}

static QUICK: std::sync::atomic::AtomicBool = std::sync::atomic::AtomicBool::new(false);

fn run_seq(g: &Grammar, seq: &[usize], acc: &mut Acc) {
    // quick tier: the longest sequences only with LF and with CRLF + final terminator
    let quick_long = seq.len() >= 4 && QUICK.load(std::sync::atomic::Ordering::Relaxed);
    for (text, v) in variants(seq) {
        if quick_long && (v == "lf+final" || v == "crlf") {
            continue;
        }
        check_text(g, seq, &text, v, acc);
    }
}

pub fn run(tier: Tier) -> i32 {
    let mut rep = Report::new("C14", tier);
    let g = Grammar::new();
    let max_len = tier.pick(4, 5);
    QUICK.store(tier == Tier::Quick, std::sync::atomic::Ordering::Relaxed);
    let n = LINES.len();
    rep.bound("line_alphabet", n);
    rep.bound("max_lines", max_len);
    rep.bound("variants", "LF / CRLF, with and without a final terminator (quick tier: 4-line sequences with LF and CRLF+final only)");
    let mut acc0 = Acc::new();
    run_seq(&g, &[], &mut acc0);
    let (acc, count) = (0..n)
        .into_par_iter()
        .flat_map(|a| (0..n).into_par_iter().map(move |b| (a, b)))
        .map(|(a, b)| {
            let mut acc = Acc::new();
            let mut count = 0u64;
            if b == 0 {
                run_seq(&g, &[a], &mut acc);
                count += 1;
            }
            if max_len < 2 {
                return (acc, count);
            }
            let mut idx = vec![a, b];
            loop {
                run_seq(&g, &idx, &mut acc);
                count += 1;
                if count % 3000 == 7 {
                    let t: Vec<&str> = idx.iter().map(|&i| LINES[i].0).collect();
                    acc.sample("rule-text", 3, || json!(t));
                }
                if idx.len() < max_len {
                    idx.push(0);
                    continue;
                }
                loop {
                    if idx.len() == 2 {
                        return (acc, count);
                    }
                    let last = idx.len() - 1;
                    if idx[last] + 1 < n {
                        idx[last] += 1;
                        break;
                    }
                    idx.pop();
                }
            }
        })
        .reduce(|| (Acc::new(), 0), |(a, c1), (b, c2)| (a.merge(b), c1 + c2));
    // moderate size: many comment lines, many metadata keys, long expression, fixed sequences
    {
        let idx = |s: &str| LINES.iter().position(|(t, _)| *t == s).unwrap();
        let c = [idx("// name"), idx("//  padded \t"), idx("//"), idx("   // indented")];
        let m = [idx("@k: i1;"), idx("@k: \"s\";"), idx("@K: i3;"), idx("@k: [i1, [i2]];"), idx("@description: \"D\";"), idx("@k: i2;"), idx("@name: \"N\";"), idx("@k: {a: {b: none}};")];
        let e = [idx("i1 +"), idx("i2")];
        let b = idx("");
        let mut long: Vec<Vec<usize>> = Vec::new();
        long.push(vec![c[0], c[1], c[2], c[3], c[0], c[1], e[0], e[1]]);
        long.push(vec![c[3], b, c[1], m[0], m[1], m[2], m[3], m[5], m[7], c[0], e[0], c[2], e[1], c[3]]);
        long.push(vec![m[0], m[1], m[2], m[3], m[4], m[5], m[6], m[7], c[0], c[1], c[2], e[0], e[1]]);
        long.push(vec![c[0], m[6], c[1], m[4], c[2], m[0], c[3], e[0], b, b, e[1], c[0], c[0]]);
        long.push(vec![b, b, b, c[2], c[2], c[2], m[5], m[0], m[5], e[0], e[1]]);
        for seq in &long {
            run_seq(&g, seq, &mut acc0);
        }
        acc0.count("long_texts", long.len() as u64);
        // redundant parentheses only group, in metadata values too
        for (text, comments, want_name, want_meta) in [
            ("// n\n@k: (i1);\n@j: [(i1), {a: (\"s\")}];\n(x)", vec!["n"], "n", vec![("k", RV::Int(1)), ("j", RV::List(vec![RV::Int(1), RV::map(&[("a", RV::str("s"))])]))]),
            ("@name: (\"N\");\n@k: ((none));\n((i1) + (i2))", vec![], "N", vec![("k", RV::None)]),
            ("// c\n@k: ({});\n@l: ([]);\n@m: (((true)));\ni1", vec!["c"], "c", vec![("k", RV::map(&[])), ("l", RV::List(vec![])), ("m", RV::Bool(true))]),
        ] {
            let (exp, _) = expected_with_comments(&g, &comments, text);
            let want: BTreeMap<String, RV> = want_meta.into_iter().map(|(k, v)| (k.to_string(), v)).collect();
            let consistent = matches!(&exp, Expected::Rule { name, metas, .. } if name == want_name && *metas == want);
            if !consistent {
                acc0.machinery(format!("reference disagrees with the hand-written expectation for {text:?}: {exp:?}"));
                continue;
            }
            check_raw_rule(&g, text, &comments, "parenthesised-metadata", &mut acc0);
        }
        // string literals ending in an escaped backslash / containing quotes, in metadata values and in
        // the expression, followed by comment lines (comment extraction must not be confused)
        for (text, comments) in [
            ("// n\n@p: \"C:\\\\temp\\\\\";\n// d1\n// d2\nx", vec!["n", "d1", "d2"]),
            ("@p: \"a\\\\\";\n// late name\nx == \"q\\\"\"\n// desc", vec!["late name", "desc"]),
            ("// n\nx == \"C:\\\\\"\n// d1\n// d2", vec!["n", "d1", "d2"]),
            ("// n\n@q: \"say \\\"hi\\\"\";\n@r: \"// not a comment\";\n// d\n\"//\" + \"\\\\\"\n// e", vec!["n", "d", "e"]),
        ] {
            check_raw_rule(&g, text, &comments, "escaped-backslash-text", &mut acc0);
        }
        // names written as string literals: the name is the literal's value, character for character
        // (leading / trailing / only white space of every kind, raw and escaped)
        {
            let contents: Vec<&str> = vec![
                "", "N", " N", "N ", " N ", "\tN", "N\t", "\\tN\\t", "N\\n", "\\u{a0}N\\u{a0}", "\u{a0}N\u{2003}", " ", "  ", "\\t", "\\u{20}", "a  b", "N // x", "// N", "N\u{3000}", "\u{feff}N",
                "\\u{4e}", " \\u{4e} ", "n\\\\", "\\\"N\\\"", "ＮＡＭＥ ", "N\r",
            ];
            for c in &contents {
                for (tmpl, comments) in [
                    ("@name: \"{}\";\nx", vec![]),
                    ("// c\n@name: \"{}\";\n// d\nx", vec!["c", "d"]),
                    ("@name: \"other\";\n@name: \"{}\";\nx", vec![]),
                    ("@name: (\"{}\");\n@description: \"{}\";\nx", vec![]),
                    ("// c\n// d\n@description: \"{}\";\nx", vec!["c", "d"]),
                    ("@name: i5;\n@name: \"{}\";\nx", vec![]),
                    ("// c\n@name: \"{}\";\n@name: [i1];\nx", vec!["c"]),
                    ("@name: none;\n@k: i1;\n@name: \"{}\";\n@name: \"{}\";\nx", vec![]),
                    ("@description: i5;\n@description: \"{}\";\n// c\n// d\nx", vec!["c", "d"]),
                    ("@description: \"{}\";\n@name: \"{}\";\n// c\nx\n// d", vec!["c", "d"]),
                ] {
                    let text = tmpl.replace("{}", c);
                    check_raw_rule(&g, &text, &comments, "name-literal", &mut acc0);
                    acc0.count("name_literal_texts", 1);
                }
            }
        }
        // metadata keys: every keyword-like / scheduler-like word as a key (alone, and with the same
        // value under a neighbouring key), with a boolean, a string and a list value: the key is
        // kept as written, whatever it spells; words the lexer reserves are refused by both sides
        {
            let mut words: Vec<&str> = super::c15::PLAUSIBLE_WORDS.to_vec();
            words.extend(["enabled", "disabled", "active", "skip", "ignore", "hidden", "deprecated", "priority", "weight", "stop", "final", "tags", "id", "version", "condition", "expr", "expression", "comment", "comments", "title", "label", "summary", "doc", "docs", "Name", "NAME", "Description", "name_", "description_", "names", "desc", "nam", "n", "d"]);
            words.sort();
            words.dedup();
            for w in words {
                for v in ["false", "\"text\"", "[i1, none]"] {
                    for text in [format!("// n\n@{w}: {v};\nx"), format!("// n\n// d\n@zz: i1;\n@{w}: {v};\n@{w}_: {v};\nx + i1")] {
                        let comments: Vec<&str> = if text.contains("// d") { vec!["n", "d"] } else { vec!["n"] };
                        check_raw_rule(&g, &text, &comments, "metadata-key", &mut acc0);
                        acc0.count("metadata_key_texts", 1);
                    }
                }
            }
        }
        // raw line breaks inside string literals of a rule text (metadata values and expression), in
        // LF and CRLF files: the literal keeps the characters written
        {
            let breaks = ["\n", "\r\n", "\r", "\n\n", "\r\r\n", "\n\r", "\r\n\r\n", "\t\r\n "];
            for b in breaks {
                for eol in ["\n", "\r\n"] {
                    for text in [
                        format!("// n{eol}@k: \"a{b}b\";{eol}x"),
                        format!("// n{eol}x == \"a{b}b\"{eol}"),
                        format!("// n{eol}@k: [\"{b}\", {{a: \"x{b}\"}}];{eol}@name: \"N{b}M\";{eol}[\"{b}b\"]{eol}// d"),
                        format!("@name: \"N\";{eol}@description: \"line1{b}line2\";{eol}\"p{b}q\" + \"r{b}\""),
                    ] {
                        let comments: Vec<&str> = text.split(['\n', '\r']).filter_map(|l| { let t = l.trim(); if t.starts_with("//") && (t == "// n" || t == "// d") { Some(t[2..].trim()) } else { None } }).collect();
                        check_raw_rule(&g, &text, &comments, "line-break-in-literal", &mut acc0);
                        acc0.count("line_break_literal_texts", 1);
                    }
                }
            }
        }
        // comment lines of every shape: the marker is the first `//` of the line, everything after
        // it (trimmed) is content, further slashes included
        {
            let shapes = [
                "// n", "//n", "///three", "//// four", "// // nested", "//////////", "// a // b", "//\t// x", "  //// indented four", "//x//", "/// ", "////", "// /", "//  //  ", "///// five /////",
                // quotes, brackets and other characters of the expression syntax inside comments
                "// 19\" rack", "// say \"hi\"", "// \"", "// it's", "// a \\ b", "// @k: i1;", "// [unclosed", "// {a: (", "// \\\"",
            ];
            let content = |l: &str| l.trim().strip_prefix("//").unwrap_or("").trim().to_string();
            let mut seqs: Vec<Vec<&str>> = Vec::new();
            for a in shapes {
                seqs.push(vec![a]);
                for b in shapes {
                    seqs.push(vec![a, b]);
                    seqs.push(vec![a, b, "// third"]);
                }
            }
            for seq in &seqs {
                let comments: Vec<String> = seq.iter().map(|l| content(l)).collect();
                let cref: Vec<&str> = comments.iter().map(|c| c.as_str()).collect();
                for text in [
                    format!("{}\nx", seq.join("\n")),
                    format!("{}\r\n@k: i1;\r\nx\r\n", seq.join("\r\n")),
                    format!("@name: \"N\";\n{}\nx", seq.join("\n")),
                    format!("{}\n@k: \"s\"; // 3\" pipe\nx == \"q\" // odd \" quote\n{}", seq[0], seq[1..].join("\n")),
                ] {
                    check_raw_rule(&g, &text, &cref, "comment-shape", &mut acc0);
                    acc0.count("comment_shape_texts", 1);
                }
            }
        }
        // repeated keys whose constants are equal under == but written differently: the last written
        // constant is kept, with its scale / sign / element spelling
        {
            let pairs = [
                ("d2.5", "d2.50"), ("d2.50", "d2.5"), ("f0", "f-0"), ("f-0.0", "f0.0"), ("d0", "d-0"), ("d-0.0", "d0"), ("[d1.0]", "[d1]"), ("{a: d1}", "{a: d1.00}"), ("[f0, d2.5]", "[f-0, d2.500]"),
                ("d1", "d1"), ("i1", "i1"), ("\"a\"", "\"a\""), ("d100", "d1_00"), ("d1e2", "d100"),
            ];
            for (a, b) in pairs {
                for text in [
                    format!("// n\n@k: {a};\n@k: {b};\nx"),
                    format!("// n\n@k: {a};\n@j: i1;\n@k: {b};\nx"),
                    format!("// n\n@k: {a};\n@k: {b};\n@k: {a};\n@k: {b};\nx"),
                    format!("// n\n@k: {a};\n@k: {a};\n@k: {b};\n@j: {b};\n@j: {a};\nx"),
                    format!("@name: \"n\";\n@description: {a};\n@description: {b};\nx"),
                ] {
                    check_raw_rule(&g, &text, &["n"], "equal-but-different-duplicates", &mut acc0);
                    acc0.count("duplicate_constant_texts", 1);
                }
            }
        }
        // many metadata items with repeated keys in scrambled order: the last written value wins
        for n in [8usize, 21, 33, 65, 130] {
            let keys = n / 2 + 1;
            let mut text = String::from("// many\n");
            let mut want: BTreeMap<String, RV> = BTreeMap::new();
            for i in 0..n {
                let k = format!("k{:03}", (i * 37 + 11) % keys);
                text.push_str(&format!("@{k}: i{i};\n"));
                want.insert(k, RV::Int(i as i128));
            }
            text.push_str("i1 + i2\n");
            acc0.count("executions", 1);
            match impl_parse_rule(&text) {
                ImplParse::Ok(r) if r.metadata == want && r.name == "many" => acc0.outcome("many-metadata:ok"),
                other => acc0.violation(Violation {
                    sig: format!("many-metadata/{n}"),
                    what: format!("{n} metadata items with repeated keys (last occurrence wins): got {}", short(&other)),
                    case: json!({"kind": "many-metadata", "n": n}),
                    size: n,
                }),
            }
        }
    }
    rep.absorb(acc0);
    rep.absorb(acc);
    rep.states = count + 1;
    rep.transitions = (count + 1) * 4;
    rep.traces = rep.acc.get("executions");
    rep.rule = "every sequence of lines up to the bound over a 25-line alphabet (comment lines incl. padded/empty/indented, blank line, 12 metadata lines incl. duplicates, case variants, name/description overrides and non-constant values, expression lines incl. a split expression and a trailing comment), joined with LF and CRLF, with and without a final terminator; each parsed by Rule::parse and compared with a reference rule-text model (reference grammar for accept/reject, metadata and expression; comment lines from the components; plus the differential 'expression = parse of the text without metadata lines')".into();
    rep.assume("bare CR line ends and // at the start of a line inside a multi-line string literal are outside the alphabet (DESIGN §5 U8); an empty name from a bare // line counts as a name (U10)");
    rep.finish()
}

pub fn replay(case: &serde_json::Value) -> i32 {
    if case.get("kind").and_then(|k| k.as_str()) == Some("raw") {
        let text = case.get("text").and_then(|t| t.as_str()).unwrap_or("");
        let comments: Vec<String> = case.get("comments").and_then(|a| a.as_array()).map(|a| a.iter().filter_map(|x| x.as_str().map(|s| s.to_string())).collect()).unwrap_or_default();
        let cref: Vec<&str> = comments.iter().map(|s| s.as_str()).collect();
        let g = Grammar::new();
        let mut acc = Acc::new();
        check_raw_rule(&g, text, &cref, "raw", &mut acc);
        println!("text      : {text:?}\nreference : {:?}\nobserved  : {}", expected_with_comments(&g, &cref, text).0, short(&impl_parse_rule(text)));
        return if acc.violations.is_empty() {
            println!("verdict: holds");
            0
        } else {
            for v in acc.violations.values() {
                println!("verdict: VIOLATED — {}", v.what);
            }
            1
        };
    }
    let seq: Vec<usize> = case
        .get("lines")
        .and_then(|a| a.as_array())
        .map(|a| a.iter().filter_map(|x| x.as_u64().map(|v| v as usize)).collect())
        .unwrap_or_default();
    if seq.iter().any(|&i| i >= LINES.len()) {
        return 2;
    }
    let g = Grammar::new();
    let mut acc = Acc::new();
    run_seq(&g, &seq, &mut acc);
    for (t, v) in variants(&seq) {
        println!("[{v}] {t:?}\n   reference: {:?}\n   observed : {}", expected(&g, &seq, &t).0, short(&impl_parse_rule(&t)));
    }
    if acc.violations.is_empty() {
        println!("verdict: holds");
        0
    } else {
        for v in acc.violations.values() {
            println!("verdict: VIOLATED — {}", v.what);
        }
        1
    }
}
