//! Legs that vary what surrounds a call rather than its argument: the order of earlier calls in the
//! process (history), the process environment (time zone, locale, an empty environment), and the
//! place a call is made from (a fresh thread, a thread-local destructor, a destructor run while
//! unwinding).  Environment and call-site contexts run in child processes of this binary: a
//! failure there may abort the process, and an environment variable read once per process cannot
//! be varied from inside.
use crate::checks::pool;
use crate::engine::exec::block_on;
use crate::engine::report::{Acc, Violation};
use crate::spec::rv::RV;
use reval::prelude::*;
use serde_json::json;
use std::process::Command;
use std::sync::Mutex;

// ---------------------------------------------------------------------------------------------
// the battery: casts and string functions over edit neighbourhoods of canonical texts

fn battery(thorough: bool) -> Vec<(String, Expr)> {
    let mut v: Vec<(String, Expr)> = Vec::new();
    let mut stamps = pool::timestamp_neighbourhood("2015-07-30T03:26:13Z", true);
    stamps.extend(pool::timestamp_neighbourhood("2015-07-30T03:26:13.5+02:00", thorough));
    stamps.sort();
    stamps.dedup();
    for t in stamps {
        v.push((format!("datetime({t:?})"), Expr::datetime(Expr::value(t))));
    }
    let mut numbers: Vec<String> = Vec::new();
    for canon in ["12345", "-12.50", "1.5e3"] {
        numbers.extend(pool::timestamp_neighbourhood(canon, true));
    }
    numbers.extend(["1,5", "1.5", "1 000", "1.000,5", "١٢٣", "NaN", "nan", "inf", "Infinity", "-inf", "1e400", "0x10", "1_000"].iter().map(|s| s.to_string()));
    numbers.sort();
    numbers.dedup();
    for t in &numbers {
        v.push((format!("int({t:?})"), Expr::int(Expr::value(t.clone()))));
        v.push((format!("float({t:?})"), Expr::float(Expr::value(t.clone()))));
        v.push((format!("dec({t:?})"), Expr::dec(Expr::value(t.clone()))));
    }
    for t in ["i", "I", "ı", "İ", "title", "TITLE", "straße", "ΟΔΟΣ", "ǆ", "ﬁ", " x ", "\u{a0}x\u{a0}", "\tx\n", "ß", "é", "É", "ǅ"] {
        v.push((format!("to_upper({t:?})"), Expr::uppercase(Expr::value(t))));
        v.push((format!("to_lower({t:?})"), Expr::lowercase(Expr::value(t))));
        v.push((format!("trim({t:?})"), Expr::trim(Expr::value(t))));
    }
    // numbers to and from each other, dates from integers and their components, values as text
    for i in [0i128, 1, -1, 1_438_226_773, 86_399, 951_782_400, 4_102_444_800, -62_135_596_800] {
        let dt = Expr::datetime(Expr::value(i));
        v.push((format!("datetime(i{i})"), dt.clone()));
        for (n, f) in [("year", Expr::year as fn(Expr) -> Expr), ("month", Expr::month), ("week", Expr::week), ("day", Expr::day), ("hour", Expr::hour), ("minute", Expr::minute), ("second", Expr::second)] {
            v.push((format!("{n}(datetime(i{i}))"), f(dt.clone())));
        }
        v.push((format!("float(i{i})"), Expr::float(Expr::value(i))));
        v.push((format!("dec(i{i})"), Expr::dec(Expr::value(i))));
    }
    for f in [0.5f64, 1.5, 2.5, -0.5, 1e21, 1e-7, 123456.789, 0.1] {
        v.push((format!("round(f{f})"), Expr::round(Expr::value(f))));
        v.push((format!("floor(f{f})"), Expr::floor(Expr::value(f))));
        v.push((format!("fract(f{f})"), Expr::fract(Expr::value(f))));
        v.push((format!("int(f{f})"), Expr::int(Expr::value(f))));
        v.push((format!("dec(f{f})"), Expr::dec(Expr::value(f))));
    }
    v
}

fn show(r: &reval::Result<Value>) -> String {
    match r {
        Ok(v) => format!("Ok({}) as text {}", RV::from_value(v).show(), v),
        Err(e) => format!("Err({e})"),
    }
}

/// evaluate the battery in the given order; one line per member (in battery order)
fn battery_lines(b: &[(String, Expr)], reverse: bool) -> Vec<String> {
    let mut lines: Vec<String> = vec![String::new(); b.len()];
    let order: Vec<usize> = if reverse { (0..b.len()).rev().collect() } else { (0..b.len()).collect() };
    for i in order {
        let (label, e) = &b[i];
        let r = std::panic::catch_unwind(std::panic::AssertUnwindSafe(|| block_on(e.evaluate(&Value::None))));
        lines[i] = match r {
            Ok(Ok(r)) => format!("{label} => {}", show(&r)),
            Ok(Err(m)) => format!("{label} => MACHINERY {m}"),
            Err(_) => format!("{label} => PANIC"),
        }
        .replace('\n', "\\n");
    }
    lines
}

/// a small ruleset whose user functions fail in different ways; the lines hold the outcome texts a
/// caller would log (`Display` of the error, of its source chain, and its `Debug` class only)
fn failing_ruleset_lines() -> Vec<String> {
    use crate::checks::probe::{probe, Handler};
    use std::collections::BTreeMap;
    let h: Handler = std::sync::Arc::new(|name, p| {
        let r = match name {
            "plain" => Err(anyhow::anyhow!("backend said no to {p}")),
            "chained" => Err(anyhow::Error::new(std::io::Error::new(std::io::ErrorKind::NotFound, "no such record")).context("looking up the customer")),
            "typed" => Err(anyhow::Error::new(reval::Error::DivisionByZero)),
            _ => Ok(p),
        };
        (r, 0)
    });
    let build = || -> reval::Result<RuleSet> {
        Ok(ruleset()
            .with_rule(Rule::new("a", BTreeMap::new(), Expr::func("plain", Expr::value(1i128))))?
            .with_rule(Rule::new("b", BTreeMap::new(), Expr::func("chained", Expr::value("x"))))?
            .with_rule(Rule::new("c", BTreeMap::new(), Expr::add(Expr::func("typed", Expr::value(2i128)), Expr::value(1i128))))?
            .with_rule(Rule::new("d", BTreeMap::new(), Expr::func("fine", Expr::value(3i128))))?
            .with_function(probe("plain", false, &h))?
            .with_function(probe("chained", true, &h))?
            .with_function(probe("typed", false, &h))?
            .with_function(probe("fine", false, &h))?
            .build())
    };
    let rs = match build() {
        Ok(r) => r,
        Err(e) => return vec![format!("failing ruleset => MACHINERY {e}")],
    };
    let r = std::panic::catch_unwind(std::panic::AssertUnwindSafe(|| block_on(rs.evaluate_value(&Value::None))));
    match r {
        Ok(Ok(Ok(out))) => out.iter().map(|o| format!("rule {} => {}", o.rule.name(), show(&o.value)).replace('\n', "\\n")).collect(),
        Ok(Ok(Err(e))) => vec![format!("failing ruleset => Err({e})")],
        Ok(Err(m)) => vec![format!("failing ruleset => MACHINERY {m}")],
        Err(_) => vec!["failing ruleset => PANIC".to_string()],
    }
}

/// C12: the outcome of an evaluation does not depend on which evaluations the process made before
pub fn history_leg(acc: &mut Acc, thorough: bool) -> usize {
    let b = battery(thorough);
    let forward = battery_lines(&b, false);
    let backward = battery_lines(&b, true);
    let again = battery_lines(&b, false);
    acc.count("executions", 3 * b.len() as u64);
    for (name, other) in [("in reverse order", &backward), ("a second time in the same order", &again)] {
        let diffs: Vec<usize> = (0..b.len()).filter(|i| forward[*i] != other[*i]).collect();
        if let Some(&i) = diffs.first() {
            acc.violation(Violation {
                sig: format!("history/{}", name.replace(' ', "-")),
                what: format!(
                    "{} expressions evaluated one after the other in one process, then {name}: {} outcomes changed; first: `{}` — then `{}`",
                    b.len(),
                    diffs.len(),
                    forward[i],
                    other[i]
                ),
                case: json!({"kind": "history", "thorough": thorough}),
                size: i,
            });
        }
    }
    acc.outcome("history-independent");
    b.len()
}

fn environments(thorough: bool) -> Vec<(&'static str, Vec<(&'static str, &'static str)>, bool)> {
    // (label, variables set on top of the inherited environment, clear the inherited environment first)
    let mut v = vec![
        ("TZ=UTC0", vec![("TZ", "UTC0")], false),
        ("TZ=JST-9", vec![("TZ", "JST-9")], false),
        ("TZ=EST5EDT,M3.2.0,M11.1.0", vec![("TZ", "EST5EDT,M3.2.0,M11.1.0")], false),
        ("TZ=:/nonexistent", vec![("TZ", ":/nonexistent")], false),
        ("LC_ALL=tr_TR.UTF-8", vec![("LC_ALL", "tr_TR.UTF-8"), ("LANG", "tr_TR.UTF-8")], false),
        ("empty environment", vec![], true),
        ("RUST_BACKTRACE=1", vec![("RUST_BACKTRACE", "1"), ("RUST_LIB_BACKTRACE", "1")], false),
        ("RUST_BACKTRACE=0", vec![("RUST_BACKTRACE", "0"), ("RUST_LIB_BACKTRACE", "0")], false),
    ];
    if thorough {
        v.extend([
            ("TZ=Europe/Amsterdam", vec![("TZ", "Europe/Amsterdam")], false),
            ("TZ=<+1245>-12:45", vec![("TZ", "<+1245>-12:45")], false),
            ("TZ empty", vec![("TZ", "")], false),
            ("LC_ALL=de_DE.UTF-8", vec![("LC_ALL", "de_DE.UTF-8"), ("LANG", "de_DE.UTF-8"), ("LC_NUMERIC", "de_DE.UTF-8")], false),
            ("LC_ALL=C", vec![("LC_ALL", "C")], false),
            ("RUST_LOG=trace RUST_BACKTRACE=full", vec![("RUST_LOG", "trace"), ("RUST_BACKTRACE", "full")], false),
        ]);
    }
    v
}

/// C12: nor on the environment of the process
pub fn environment_leg(acc: &mut Acc, thorough: bool) -> usize {
    let b = battery(thorough);
    let mut here = battery_lines(&b, false);
    here.extend(failing_ruleset_lines());
    let exe = match std::env::current_exe() {
        Ok(e) => e,
        Err(e) => {
            acc.machinery(format!("environment leg: {e}"));
            return 0;
        }
    };
    let envs = environments(thorough);
    for (label, vars, clear) in &envs {
        let mut cmd = Command::new(&exe);
        cmd.args(["ctx-child", "c12-env", if thorough { "thorough" } else { "quick" }]);
        if *clear {
            cmd.env_clear();
        }
        for (k, v) in vars {
            cmd.env(k, v);
        }
        let out = match cmd.output() {
            Ok(o) => o,
            Err(e) => {
                acc.machinery(format!("environment leg: cannot run the child: {e}"));
                continue;
            }
        };
        acc.count("executions", b.len() as u64);
        acc.count("environment_children", 1);
        let text = String::from_utf8_lossy(&out.stdout);
        let there: Vec<&str> = text.lines().collect();
        if !out.status.success() || there.len() != here.len() {
            // (the line count includes the failing-ruleset lines)
            acc.violation(Violation {
                sig: "environment/child-failed".into(),
                what: format!("the battery of {} evaluations in a child process with {label}: exit {:?}, {} lines; stderr: {}", b.len(), out.status.code(), there.len(), String::from_utf8_lossy(&out.stderr).chars().take(300).collect::<String>()),
                case: json!({"kind": "environment", "thorough": thorough}),
                size: 1,
            });
            continue;
        }
        let diffs: Vec<usize> = (0..here.len()).filter(|i| here[*i] != there[*i]).collect();
        if let Some(&i) = diffs.first() {
            acc.violation(Violation {
                sig: format!("environment/{}", label.split('=').next().unwrap_or("env").replace(' ', "-")),
                what: format!("{} evaluations repeated in a child process with {label}: {} outcomes differ from this process's; first: `{}` — there `{}`", b.len(), diffs.len(), here[i], there[i]),
                case: json!({"kind": "environment", "thorough": thorough}),
                size: i,
            });
        }
    }
    acc.outcome("environment-independent");
    envs.len()
}

// ---------------------------------------------------------------------------------------------
// C06: places a parse can be called from

const PARSE_TEXTS: [&str; 8] = ["i1 + i2", "a.b.0 == :s and f(x)", "i1 +", "\"unterminated", "", "[i1, {k: d1.5}]", "// name\n@meta: i1;\nx > i5", "@bad"];

static JOURNAL: Mutex<Vec<String>> = Mutex::new(Vec::new());

fn parse_battery(phase: &str) {
    for (i, t) in PARSE_TEXTS.iter().enumerate() {
        for api in ["Expr::parse", "Rule::parse"] {
            let r = std::panic::catch_unwind(|| if api == "Expr::parse" { Expr::parse(t).is_ok() } else { Rule::parse(t).is_ok() });
            let line = match r {
                Ok(ok) => format!("{phase} {api} text{i} => {}", if ok { "accepted" } else { "rejected" }),
                Err(p) => {
                    let m = p.downcast_ref::<String>().cloned().or_else(|| p.downcast_ref::<&str>().map(|s| s.to_string())).unwrap_or_default();
                    format!("{phase} {api} text{i} => PANIC {m}")
                }
            };
            if let Ok(mut j) = JOURNAL.lock() {
                j.push(line);
            }
        }
    }
}

struct ParsesWhenDropped(&'static str);
impl Drop for ParsesWhenDropped {
    fn drop(&mut self) {
        parse_battery(self.0);
    }
}

thread_local! {
    static AT_THREAD_EXIT: ParsesWhenDropped = const { ParsesWhenDropped("thread-local-destructor") };
}

pub const PARSE_CONTEXTS: [&str; 8] = [
    "main-thread",
    "fresh-thread",
    "thread-that-parsed-before",
    "thread-local-destructor/registered-before-the-first-parse",
    "thread-local-destructor/registered-after-the-first-parse",
    "thread-local-destructor/thread-never-parsed",
    "destructor-while-unwinding",
    "inside-a-future-being-polled",
];

fn parse_context(ctx: usize) {
    let run = move || match ctx {
        0 | 1 => parse_battery("call"),
        2 => {
            parse_battery("first");
            parse_battery("second");
        }
        3 => {
            AT_THREAD_EXIT.with(|_| ());
            parse_battery("call");
        }
        4 => {
            parse_battery("call");
            AT_THREAD_EXIT.with(|_| ());
        }
        5 => AT_THREAD_EXIT.with(|_| ()),
        6 => {
            let _ = std::panic::catch_unwind(|| {
                let _g = ParsesWhenDropped("destructor-while-unwinding");
                std::panic::resume_unwind(Box::new("harness unwinding"));
            });
        }
        _ => {
            block_on(async {
                parse_battery("in-future");
            })
            .ok();
        }
    };
    if ctx == 0 {
        run();
    } else {
        let _ = std::thread::spawn(run).join();
    }
}

/// C06: whatever the call site, every text is accepted or rejected without a panic, and the same
/// way as on the main thread
pub fn parse_context_leg(acc: &mut Acc) -> usize {
    let exe = match std::env::current_exe() {
        Ok(e) => e,
        Err(e) => {
            acc.machinery(format!("parse-context leg: {e}"));
            return 0;
        }
    };
    let mut reference: Vec<String> = Vec::new();
    for (ci, name) in PARSE_CONTEXTS.iter().enumerate() {
        let out = match Command::new(&exe).args(["ctx-child", "c06-ctx", &ci.to_string()]).env("RUST_LIB_BACKTRACE", "0").env("RUST_BACKTRACE", "0").output() {
            Ok(o) => o,
            Err(e) => {
                acc.machinery(format!("parse-context leg: cannot run the child: {e}"));
                continue;
            }
        };
        acc.count("executions", (PARSE_TEXTS.len() * 2) as u64);
        acc.count("parse_contexts", 1);
        let text = String::from_utf8_lossy(&out.stdout).to_string();
        let lines: Vec<&str> = text.lines().filter(|l| *l != "DONE").collect();
        let done = text.lines().any(|l| l == "DONE");
        let verdicts = |phase_lines: &[&str]| -> Vec<String> { phase_lines.iter().map(|l| l.split_once(' ').map(|x| x.1.to_string()).unwrap_or_default()).collect() };
        let mut problem: Option<String> = None;
        if !out.status.success() || !done {
            problem = Some(format!("the process ended with {:?} (signal / abort) before finishing; stderr: {}", out.status.code(), String::from_utf8_lossy(&out.stderr).chars().take(300).collect::<String>()));
        } else if let Some(l) = lines.iter().find(|l| l.contains("=> PANIC")) {
            problem = Some(format!("a parse panicked: {l}"));
        } else if lines.is_empty() || lines.len() % (PARSE_TEXTS.len() * 2) != 0 {
            problem = Some(format!("{} parse results reported, expected a multiple of {}", lines.len(), PARSE_TEXTS.len() * 2));
        } else {
            for chunk in lines.chunks(PARSE_TEXTS.len() * 2) {
                let v = verdicts(chunk);
                if ci == 0 && reference.is_empty() {
                    reference = v;
                } else if v != reference {
                    let i = (0..v.len()).find(|i| v[*i] != reference[*i]).unwrap_or(0);
                    problem = Some(format!("verdict differs from the main thread's: `{}` against `{}`", chunk[i], reference[i]));
                    break;
                }
            }
        }
        if let Some(p) = problem {
            acc.violation(Violation {
                sig: format!("parse-context/{}", name.replace('/', "_")),
                what: format!("Expr::parse / Rule::parse of {} texts called from context `{name}`: {p}", PARSE_TEXTS.len()),
                case: json!({"kind": "parse-context"}),
                size: ci,
            });
        }
    }
    acc.outcome("parse-context-independent");
    PARSE_CONTEXTS.len()
}

/// entry point of `mc ctx-child <what> <arg>`
pub fn child(args: &[String]) -> ! {
    use std::io::Write;
    match args.first().map(|s| s.as_str()) {
        Some("c12-env") => {
            let thorough = args.get(1).map(|s| s == "thorough").unwrap_or(false);
            let b = battery(thorough);
            let mut lines = battery_lines(&b, false);
            lines.extend(failing_ruleset_lines());
            let stdout = std::io::stdout();
            let mut w = std::io::BufWriter::new(stdout.lock());
            for l in lines {
                let _ = writeln!(w, "{l}");
            }
            let _ = w.flush();
            std::process::exit(0)
        }
        Some("c06-ctx") => {
            let ci: usize = args.get(1).and_then(|s| s.parse().ok()).unwrap_or(0);
            std::panic::set_hook(Box::new(|_| {}));
            parse_context(ci);
            let j = JOURNAL.lock().map(|j| j.clone()).unwrap_or_default();
            for l in j {
                println!("{}", l.replace('\n', "\\n"));
            }
            println!("DONE");
            std::process::exit(0)
        }
        _ => std::process::exit(2),
    }
}

pub fn replay_c12(case: &serde_json::Value) -> Option<Acc> {
    let thorough = case.get("thorough").and_then(|t| t.as_bool()).unwrap_or(false);
    let mut acc = Acc::new();
    match case.get("kind").and_then(|k| k.as_str()) {
        Some("history") => {
            history_leg(&mut acc, thorough);
        }
        Some("environment") => {
            environment_leg(&mut acc, thorough);
        }
        _ => return None,
    }
    Some(acc)
}
