//! Reference grammar (DESIGN §3 C07) as data, a generic incremental Earley recogniser over it
//! (accept / viable prefix / dead), and a precedence-climbing tree builder used for accepted
//! sentences.  The two are written independently and cross-checked by the checks.
use super::lex::{Token, TK};
use super::literal::*;
use super::re::{BinOp, UnOp, RE};
use super::rv::RV;
use std::collections::{BTreeMap, HashSet};

#[derive(Clone, Copy, Debug, PartialEq, Eq, Hash)]
pub enum NT {
    Rule,
    Metas,
    Meta,
    If,
    Log,
    Eq,
    Add,
    Mul,
    Bit,
    Con,
    Un,
    Idx,
    Term,
    Items,
    Pairs,
    Pair,
}

#[derive(Clone, Copy, Debug, PartialEq, Eq, Hash)]
pub enum Sym {
    T(TK),
    N(NT),
}

pub const FUNC_KEYWORDS: [(TK, UnOp); 25] = [
    (TK::IntKw, UnOp::Int),
    (TK::FloatKw, UnOp::Float),
    (TK::DecKw, UnOp::Dec),
    (TK::DateTime_, UnOp::DateTime),
    (TK::DateTime, UnOp::DateTime),
    (TK::Duration, UnOp::Duration),
    (TK::IsSome, UnOp::IsSome),
    (TK::IsNone, UnOp::IsNone),
    (TK::SomeKw, UnOp::IsSome),
    (TK::NoneKw, UnOp::IsNone),
    (TK::ToUpper, UnOp::Upper),
    (TK::ToLower, UnOp::Lower),
    (TK::Uppercase, UnOp::Upper),
    (TK::Lowercase, UnOp::Lower),
    (TK::Trim, UnOp::Trim),
    (TK::Round, UnOp::Round),
    (TK::Floor, UnOp::Floor),
    (TK::Fract, UnOp::Fract),
    (TK::Year, UnOp::Year),
    (TK::Month, UnOp::Month),
    (TK::Week, UnOp::Week),
    (TK::Day, UnOp::Day),
    (TK::Hour, UnOp::Hour),
    (TK::Minute, UnOp::Minute),
    (TK::Second, UnOp::Second),
];

pub const LITERAL_TOKENS: [TK; 9] = [TK::Str, TK::Int, TK::Hex, TK::Oct, TK::Bin, TK::Float, TK::Decimal, TK::True, TK::False];

pub fn eq_ops() -> [(TK, BinOp); 7] {
    [
        (TK::Eq1, BinOp::Eq),
        (TK::Eq2, BinOp::Eq),
        (TK::Neq, BinOp::Neq),
        (TK::Gt, BinOp::Gt),
        (TK::Lt, BinOp::Lt),
        (TK::Gte, BinOp::Gte),
        (TK::Lte, BinOp::Lte),
    ]
}

pub struct Grammar {
    pub prods: Vec<(NT, Vec<Sym>)>,
}

impl Grammar {
    pub fn new() -> Grammar {
        use Sym::*;
        let mut p: Vec<(NT, Vec<Sym>)> = Vec::new();
        p.push((NT::Rule, vec![N(NT::Metas), N(NT::If)]));
        p.push((NT::Rule, vec![N(NT::If)]));
        p.push((NT::Metas, vec![N(NT::Meta)]));
        p.push((NT::Metas, vec![N(NT::Metas), N(NT::Meta)]));
        p.push((NT::Meta, vec![T(TK::At), T(TK::Ident), T(TK::Colon), N(NT::If), T(TK::Semi)]));
        p.push((NT::If, vec![T(TK::If), N(NT::If), T(TK::Then), N(NT::If), T(TK::Else), N(NT::If)]));
        p.push((NT::If, vec![N(NT::Log)]));
        for op in [TK::And, TK::Or] {
            p.push((NT::Log, vec![N(NT::Log), T(op), N(NT::Eq)]));
        }
        p.push((NT::Log, vec![N(NT::Eq)]));
        for (op, _) in eq_ops() {
            p.push((NT::Eq, vec![N(NT::Eq), T(op), N(NT::Add)]));
        }
        p.push((NT::Eq, vec![N(NT::Add)]));
        for op in [TK::Plus, TK::Minus] {
            p.push((NT::Add, vec![N(NT::Add), T(op), N(NT::Mul)]));
        }
        p.push((NT::Add, vec![N(NT::Mul)]));
        for op in [TK::Star, TK::Slash, TK::Percent] {
            p.push((NT::Mul, vec![N(NT::Mul), T(op), N(NT::Bit)]));
        }
        p.push((NT::Mul, vec![N(NT::Bit)]));
        for op in [TK::Amp, TK::Pipe, TK::Caret] {
            p.push((NT::Bit, vec![N(NT::Bit), T(op), N(NT::Con)]));
        }
        p.push((NT::Bit, vec![N(NT::Con)]));
        p.push((NT::Con, vec![N(NT::Idx), T(TK::Contains), N(NT::Idx)]));
        p.push((NT::Con, vec![N(NT::Idx), T(TK::In), N(NT::Idx)]));
        p.push((NT::Con, vec![N(NT::Un)]));
        p.push((NT::Un, vec![T(TK::Minus), N(NT::Un)]));
        p.push((NT::Un, vec![T(TK::Bang), N(NT::Un)]));
        p.push((NT::Un, vec![N(NT::Idx)]));
        p.push((NT::Idx, vec![N(NT::Idx), T(TK::Dot), T(TK::Ident)]));
        p.push((NT::Idx, vec![N(NT::Idx), T(TK::Dot), T(TK::Index)]));
        p.push((NT::Idx, vec![N(NT::Term)]));
        for (kw, _) in FUNC_KEYWORDS {
            p.push((NT::Term, vec![T(kw), T(TK::LParen), N(NT::If), T(TK::RParen)]));
        }
        p.push((NT::Term, vec![T(TK::Ident), T(TK::LParen), N(NT::If), T(TK::RParen)]));
        p.push((NT::Term, vec![T(TK::Ident)]));
        p.push((NT::Term, vec![T(TK::Colon), T(TK::Ident)]));
        for l in LITERAL_TOKENS {
            p.push((NT::Term, vec![T(l)]));
        }
        p.push((NT::Term, vec![T(TK::NoneKw)]));
        p.push((NT::Term, vec![T(TK::LBracket), T(TK::RBracket)]));
        p.push((NT::Term, vec![T(TK::LBracket), N(NT::Items), T(TK::RBracket)]));
        p.push((NT::Term, vec![T(TK::LBracket), N(NT::Items), T(TK::Comma), T(TK::RBracket)]));
        p.push((NT::Term, vec![T(TK::LBrace), T(TK::RBrace)]));
        p.push((NT::Term, vec![T(TK::LBrace), N(NT::Pairs), T(TK::RBrace)]));
        p.push((NT::Term, vec![T(TK::LBrace), N(NT::Pairs), T(TK::Comma), T(TK::RBrace)]));
        p.push((NT::Term, vec![T(TK::LParen), N(NT::If), T(TK::RParen)]));
        p.push((NT::Items, vec![N(NT::If)]));
        p.push((NT::Items, vec![N(NT::Items), T(TK::Comma), N(NT::If)]));
        p.push((NT::Pairs, vec![N(NT::Pair)]));
        p.push((NT::Pairs, vec![N(NT::Pairs), T(TK::Comma), N(NT::Pair)]));
        p.push((NT::Pair, vec![T(TK::Ident), T(TK::Colon), N(NT::If)]));
        Grammar { prods: p }
    }
}

#[derive(Clone, Copy, Debug, PartialEq, Eq, Hash)]
pub struct Item {
    prod: u16,
    dot: u8,
    origin: u32,
}

/// Incremental Earley chart (a stack of state sets, one per consumed token).
pub struct Earley<'g> {
    g: &'g Grammar,
    start: NT,
    pub chart: Vec<Vec<Item>>,
}

impl<'g> Earley<'g> {
    pub fn new(g: &'g Grammar, start: NT) -> Self {
        let mut e = Earley { g, start, chart: Vec::new() };
        let mut set: Vec<Item> = Vec::new();
        let mut seen = HashSet::new();
        for (i, (lhs, _)) in g.prods.iter().enumerate() {
            if *lhs == start {
                let it = Item { prod: i as u16, dot: 0, origin: 0 };
                if seen.insert(it) {
                    set.push(it);
                }
            }
        }
        e.close(&mut set, &mut seen, 0);
        e.chart.push(set);
        e
    }

    fn next_sym(&self, it: &Item) -> Option<Sym> {
        self.g.prods[it.prod as usize].1.get(it.dot as usize).copied()
    }

    fn close(&self, set: &mut Vec<Item>, seen: &mut HashSet<Item>, pos: u32) {
        let mut i = 0;
        while i < set.len() {
            let it = set[i];
            i += 1;
            match self.next_sym(&it) {
                Some(Sym::N(nt)) => {
                    for (pi, (lhs, _)) in self.g.prods.iter().enumerate() {
                        if *lhs == nt {
                            let n = Item { prod: pi as u16, dot: 0, origin: pos };
                            if seen.insert(n) {
                                set.push(n);
                            }
                        }
                    }
                }
                Some(Sym::T(_)) => {}
                None => {
                    // complete (no epsilon productions, so origin < pos)
                    let lhs = self.g.prods[it.prod as usize].0;
                    let origin_set: &Vec<Item> = if it.origin == pos { continue } else { &self.chart[it.origin as usize] };
                    for o in origin_set {
                        if self.next_sym(o) == Some(Sym::N(lhs)) {
                            let n = Item { prod: o.prod, dot: o.dot + 1, origin: o.origin };
                            if seen.insert(n) {
                                set.push(n);
                            }
                        }
                    }
                }
            }
        }
    }

    /// consume one token; returns false (and leaves the chart unchanged) if the prefix is dead
    pub fn push(&mut self, tok: TK) -> bool {
        let pos = self.chart.len() as u32;
        let mut set: Vec<Item> = Vec::new();
        let mut seen = HashSet::new();
        for it in self.chart.last().unwrap() {
            if self.next_sym(it) == Some(Sym::T(tok)) {
                let n = Item { prod: it.prod, dot: it.dot + 1, origin: it.origin };
                if seen.insert(n) {
                    set.push(n);
                }
            }
        }
        if set.is_empty() {
            return false;
        }
        self.close(&mut set, &mut seen, pos);
        self.chart.push(set);
        true
    }

    pub fn pop(&mut self) {
        self.chart.pop();
    }

    pub fn depth(&self) -> usize {
        self.chart.len() - 1
    }

    /// is the consumed prefix a complete sentence?
    pub fn accepts(&self) -> bool {
        self.chart.last().unwrap().iter().any(|it| {
            it.origin == 0 && self.g.prods[it.prod as usize].0 == self.start && self.next_sym(it).is_none()
        })
    }

    /// tokens that keep the prefix viable
    pub fn viable_next(&self) -> HashSet<TK> {
        let mut s = HashSet::new();
        for it in self.chart.last().unwrap() {
            if let Some(Sym::T(t)) = self.next_sym(it) {
                s.insert(t);
            }
        }
        s
    }
}

// -----------------------------------------------------------------------------------------------
// Tree builder (precedence climbing), used on token sequences the recogniser accepted.

#[derive(Clone, Debug, PartialEq)]
pub enum TreeErr {
    /// grammar error at token index (tokens.len() = end of input)
    Syntax(usize),
    /// a literal denotes nothing
    Literal(String),
    /// a literal whose treatment is left open
    Unspecified(String),
}

pub struct Builder<'a> {
    text: &'a str,
    toks: &'a [Token],
    pos: usize,
}

type PRes = Result<RE, TreeErr>;

#[derive(Clone, Debug, PartialEq)]
pub struct RuleTree {
    pub metas: Vec<(String, RE)>,
    pub expr: RE,
}

impl<'a> Builder<'a> {
    pub fn new(text: &'a str, toks: &'a [Token]) -> Self {
        Builder { text, toks, pos: 0 }
    }
    fn peek(&self) -> Option<TK> {
        self.toks.get(self.pos).map(|t| t.kind)
    }
    fn txt(&self, i: usize) -> &'a str {
        &self.text[self.toks[i].start..self.toks[i].end]
    }
    fn expect(&mut self, k: TK) -> Result<usize, TreeErr> {
        if self.peek() == Some(k) {
            self.pos += 1;
            Ok(self.pos - 1)
        } else {
            Err(TreeErr::Syntax(self.pos))
        }
    }
    fn fail<T>(&self) -> Result<T, TreeErr> {
        Err(TreeErr::Syntax(self.pos))
    }

    pub fn parse_expr_all(mut self) -> PRes {
        let e = self.p_if()?;
        if self.pos != self.toks.len() {
            return self.fail();
        }
        Ok(e)
    }

    pub fn parse_rule_all(mut self) -> Result<RuleTree, TreeErr> {
        let mut metas = Vec::new();
        while self.peek() == Some(TK::At) {
            self.pos += 1;
            let k = self.expect(TK::Ident)?;
            self.expect(TK::Colon)?;
            let e = self.p_if()?;
            self.expect(TK::Semi)?;
            metas.push((self.txt(k).to_string(), e));
        }
        let expr = self.p_if()?;
        if self.pos != self.toks.len() {
            return self.fail();
        }
        Ok(RuleTree { metas, expr })
    }

    fn p_if(&mut self) -> PRes {
        if self.peek() == Some(TK::If) {
            self.pos += 1;
            let c = self.p_if()?;
            self.expect(TK::Then)?;
            let t = self.p_if()?;
            self.expect(TK::Else)?;
            let e = self.p_if()?;
            Ok(RE::iff(c, t, e))
        } else {
            self.p_log()
        }
    }
    fn p_log(&mut self) -> PRes {
        let mut l = self.p_eq()?;
        loop {
            let op = match self.peek() {
                Some(TK::And) => BinOp::And,
                Some(TK::Or) => BinOp::Or,
                _ => return Ok(l),
            };
            self.pos += 1;
            let r = self.p_eq()?;
            l = RE::bin(op, l, r);
        }
    }
    fn p_eq(&mut self) -> PRes {
        let mut l = self.p_add()?;
        loop {
            let op = match self.peek().and_then(|k| eq_ops().iter().find(|(t, _)| *t == k).map(|(_, o)| *o)) {
                Some(o) => o,
                None => return Ok(l),
            };
            self.pos += 1;
            let r = self.p_add()?;
            l = RE::bin(op, l, r);
        }
    }
    fn p_add(&mut self) -> PRes {
        let mut l = self.p_mul()?;
        loop {
            let op = match self.peek() {
                Some(TK::Plus) => BinOp::Add,
                Some(TK::Minus) => BinOp::Sub,
                _ => return Ok(l),
            };
            self.pos += 1;
            let r = self.p_mul()?;
            l = RE::bin(op, l, r);
        }
    }
    fn p_mul(&mut self) -> PRes {
        let mut l = self.p_bit()?;
        loop {
            let op = match self.peek() {
                Some(TK::Star) => BinOp::Mult,
                Some(TK::Slash) => BinOp::Div,
                Some(TK::Percent) => BinOp::Rem,
                _ => return Ok(l),
            };
            self.pos += 1;
            let r = self.p_bit()?;
            l = RE::bin(op, l, r);
        }
    }
    fn p_bit(&mut self) -> PRes {
        let mut l = self.p_con()?;
        loop {
            let op = match self.peek() {
                Some(TK::Amp) => BinOp::BitAnd,
                Some(TK::Pipe) => BinOp::BitOr,
                Some(TK::Caret) => BinOp::BitXor,
                _ => return Ok(l),
            };
            self.pos += 1;
            let r = self.p_con()?;
            l = RE::bin(op, l, r);
        }
    }
    fn p_con(&mut self) -> PRes {
        if matches!(self.peek(), Some(TK::Minus) | Some(TK::Bang)) {
            return self.p_un();
        }
        let l = self.p_idx()?;
        match self.peek() {
            Some(TK::Contains) => {
                self.pos += 1;
                let r = self.p_idx()?;
                Ok(RE::bin(BinOp::Contains, l, r))
            }
            Some(TK::In) => {
                self.pos += 1;
                let r = self.p_idx()?;
                Ok(RE::bin(BinOp::Contains, r, l))
            }
            _ => Ok(l),
        }
    }
    fn p_un(&mut self) -> PRes {
        match self.peek() {
            Some(TK::Minus) => {
                self.pos += 1;
                Ok(RE::un(UnOp::Neg, self.p_un()?))
            }
            Some(TK::Bang) => {
                self.pos += 1;
                Ok(RE::un(UnOp::Not, self.p_un()?))
            }
            _ => self.p_idx(),
        }
    }
    fn p_idx(&mut self) -> PRes {
        let mut e = self.p_term()?;
        while self.peek() == Some(TK::Dot) {
            self.pos += 1;
            match self.peek() {
                Some(TK::Ident) => {
                    e = RE::idxf(e, self.txt(self.pos));
                    self.pos += 1;
                }
                Some(TK::Index) => {
                    let t = self.txt(self.pos);
                    match index_literal(t) {
                        Some(n) => e = RE::idxn(e, n),
                        None => return Err(TreeErr::Literal(format!("list index {t} does not fit the index type"))),
                    }
                    self.pos += 1;
                }
                _ => return self.fail(),
            }
        }
        Ok(e)
    }
    fn lit(&self, l: Lit) -> PRes {
        match l {
            Lit::Value(v) => Ok(RE::Val(v)),
            Lit::Invalid(m) => Err(TreeErr::Literal(m)),
            Lit::Unspecified(m) => Err(TreeErr::Unspecified(m)),
        }
    }
    fn p_term(&mut self) -> PRes {
        let k = match self.peek() {
            Some(k) => k,
            None => return self.fail(),
        };
        let i = self.pos;
        if let Some((_, op)) = FUNC_KEYWORDS.iter().find(|(t, _)| *t == k) {
            if k == TK::NoneKw && self.toks.get(i + 1).map(|t| t.kind) != Some(TK::LParen) {
                self.pos += 1;
                return Ok(RE::Val(RV::None));
            }
            self.pos += 1;
            self.expect(TK::LParen)?;
            let e = self.p_if()?;
            self.expect(TK::RParen)?;
            return Ok(RE::un(*op, e));
        }
        match k {
            TK::Ident => {
                self.pos += 1;
                if self.peek() == Some(TK::LParen) {
                    self.pos += 1;
                    let e = self.p_if()?;
                    self.expect(TK::RParen)?;
                    Ok(RE::Call(self.txt(i).to_string(), Box::new(e)))
                } else {
                    Ok(RE::Ref(self.txt(i).to_string()))
                }
            }
            TK::Colon => {
                self.pos += 1;
                let n = self.expect(TK::Ident)?;
                Ok(RE::Sym(self.txt(n).to_string()))
            }
            TK::Str => {
                self.pos += 1;
                self.lit(string_literal(self.txt(i)))
            }
            TK::Int => {
                self.pos += 1;
                self.lit(int_literal(self.txt(i)))
            }
            TK::Hex => {
                self.pos += 1;
                self.lit(radix_literal(self.txt(i), 16))
            }
            TK::Oct => {
                self.pos += 1;
                self.lit(radix_literal(self.txt(i), 8))
            }
            TK::Bin => {
                self.pos += 1;
                self.lit(radix_literal(self.txt(i), 2))
            }
            TK::Float => {
                self.pos += 1;
                self.lit(float_literal(self.txt(i)))
            }
            TK::Decimal => {
                self.pos += 1;
                self.lit(decimal_literal(self.txt(i)))
            }
            TK::True => {
                self.pos += 1;
                Ok(RE::Val(RV::Bool(true)))
            }
            TK::False => {
                self.pos += 1;
                Ok(RE::Val(RV::Bool(false)))
            }
            TK::LBracket => {
                self.pos += 1;
                let mut items = Vec::new();
                loop {
                    if self.peek() == Some(TK::RBracket) {
                        self.pos += 1;
                        return Ok(RE::List(items));
                    }
                    items.push(self.p_if()?);
                    match self.peek() {
                        Some(TK::Comma) => self.pos += 1,
                        Some(TK::RBracket) => {}
                        _ => return self.fail(),
                    }
                }
            }
            TK::LBrace => {
                self.pos += 1;
                let mut m = BTreeMap::new();
                loop {
                    if self.peek() == Some(TK::RBrace) {
                        self.pos += 1;
                        return Ok(RE::Map(m));
                    }
                    let k = self.expect(TK::Ident)?;
                    self.expect(TK::Colon)?;
                    let v = self.p_if()?;
                    // a repeated key keeps the last value
                    m.insert(self.txt(k).to_string(), v);
                    match self.peek() {
                        Some(TK::Comma) => self.pos += 1,
                        Some(TK::RBrace) => {}
                        _ => return self.fail(),
                    }
                }
            }
            TK::LParen => {
                self.pos += 1;
                let e = self.p_if()?;
                self.expect(TK::RParen)?;
                Ok(e)
            }
            _ => self.fail(),
        }
    }
}

// -----------------------------------------------------------------------------------------------
// Text-level reference: lex + recognise + build.

#[derive(Clone, Debug, PartialEq)]
pub enum Reject {
    /// invalid token at byte offset
    Lex(usize),
    /// token [start, end) cannot continue any sentence
    Token(usize, usize),
    /// input ended inside a sentence
    Eof,
    /// grammatical, but a literal denotes nothing
    Literal(String),
}

#[derive(Clone, Debug, PartialEq)]
pub enum RefParse<T> {
    Accept(T),
    Reject {
        reason: Reject,
        /// false when an earlier literal is itself invalid/unspecified, so the implementation may
        /// legitimately report that instead
        position_reliable: bool,
    },
    Unspecified(String),
    /// the two reference parsers disagree: a bug in the reference, never a verdict
    Inconsistent(String),
}

fn literal_status(text: &str, t: &Token, prev: Option<TK>) -> Lit {
    let s = &text[t.start..t.end];
    match t.kind {
        TK::Str => string_literal(s),
        TK::Int => int_literal(s),
        TK::Hex => radix_literal(s, 16),
        TK::Oct => radix_literal(s, 8),
        TK::Bin => radix_literal(s, 2),
        TK::Float => float_literal(s),
        TK::Decimal => decimal_literal(s),
        TK::Index if prev == Some(TK::Dot) => match index_literal(s) {
            Some(_) => Lit::Value(RV::None),
            None => Lit::Invalid("index out of range".into()),
        },
        _ => Lit::Value(RV::None),
    }
}

fn reference_parse<T>(g: &Grammar, text: &str, start: NT, build: impl Fn(Builder) -> Result<T, TreeErr>) -> RefParse<T> {
    let mut e = Earley::new(g, start);
    let mut toks: Vec<Token> = Vec::new();
    let mut pos = 0usize;
    let mut clean = true; // no invalid / unspecified literal so far
    loop {
        match super::lex::next_token(text, pos) {
            super::lex::LexStep::Invalid(p) => return RefParse::Reject { reason: Reject::Lex(p), position_reliable: clean },
            super::lex::LexStep::Eof => break,
            super::lex::LexStep::Tok(t) => {
                if !e.push(t.kind) {
                    return RefParse::Reject { reason: Reject::Token(t.start, t.end), position_reliable: clean };
                }
                let prev = toks.last().map(|p| p.kind);
                if !matches!(literal_status(text, &t, prev), Lit::Value(_)) {
                    clean = false;
                }
                pos = t.end;
                toks.push(t);
            }
        }
    }
    let accepted = e.accepts();
    let built = build(Builder::new(text, &toks));
    match (accepted, built) {
        (false, Err(_)) => RefParse::Reject { reason: Reject::Eof, position_reliable: clean },
        (false, Ok(_)) => RefParse::Inconsistent("recogniser rejects at end of input but the tree builder accepts".into()),
        (true, Ok(t)) => RefParse::Accept(t),
        (true, Err(TreeErr::Literal(m))) => RefParse::Reject { reason: Reject::Literal(m), position_reliable: false },
        (true, Err(TreeErr::Unspecified(m))) => RefParse::Unspecified(m),
        (true, Err(TreeErr::Syntax(i))) => RefParse::Inconsistent(format!("recogniser accepts but the tree builder fails at token {i}")),
    }
}

pub fn reference_parse_expr(g: &Grammar, text: &str) -> RefParse<RE> {
    reference_parse(g, text, NT::If, |b| b.parse_expr_all())
}

pub fn reference_parse_rule(g: &Grammar, text: &str) -> RefParse<RuleTree> {
    reference_parse(g, text, NT::Rule, |b| b.parse_rule_all())
}

#[cfg(test)]
mod tests {
    use super::*;
    #[test]
    fn basics() {
        let g = Grammar::new();
        let t = |s: &str| reference_parse_expr(&g, s);
        assert!(matches!(t("a + b * c"), RefParse::Accept(_)));
        assert!(matches!(t("-a contains b"), RefParse::Reject { reason: Reject::Token(3, 11), .. }));
        assert!(matches!(t("(-a) contains b"), RefParse::Accept(_)));
        assert!(matches!(t("a +"), RefParse::Reject { reason: Reject::Eof, .. }));
        assert!(matches!(t("a $ b"), RefParse::Reject { reason: Reject::Lex(2), .. }));
        assert!(matches!(t("x.99999999999999999999"), RefParse::Reject { reason: Reject::Literal(_), .. }));
        assert!(matches!(t("none(x)"), RefParse::Accept(RE::Un(UnOp::IsNone, _))));
        assert!(matches!(t("[a, b,]"), RefParse::Accept(RE::List(_))));
        assert!(matches!(t("[,]"), RefParse::Reject { .. }));
        assert!(matches!(reference_parse_rule(&g, "@k: i1; a"), RefParse::Accept(_)));
    }
}
