//! Literal denotation, independent of `from_str`, `from_str_radix`, rust_decimal's parser and
//! reval's unescape: digit arithmetic for integers and decimals, Clinger's fast path for floats.
use super::rv::{RDec, RV};

#[derive(Clone, Debug, PartialEq)]
pub enum Lit {
    Value(RV),
    /// the literal denotes nothing (out of range, bad escape): a parse error is required
    Invalid(String),
    /// behaviour left open (DESIGN §5 U3–U5): accept or reject, value not compared
    Unspecified(String),
}

pub fn int_literal(text: &str) -> Lit {
    // i sign? D+
    let body = &text[1..];
    let (neg, ds) = match body.as_bytes()[0] {
        b'+' => (false, &body[1..]),
        b'-' => (true, &body[1..]),
        _ => (false, body),
    };
    let mut acc: i128 = 0;
    for b in ds.bytes() {
        let d = (b - b'0') as i128;
        let next = acc.checked_mul(10).and_then(|a| if neg { a.checked_sub(d) } else { a.checked_add(d) });
        match next {
            Some(n) => acc = n,
            None => return Lit::Invalid(format!("integer literal {text} is outside the 128-bit range")),
        }
    }
    Lit::Value(RV::Int(acc))
}

pub fn radix_literal(text: &str, radix: u32) -> Lit {
    let ds = &text[2..];
    let mut acc: i128 = 0;
    for c in ds.chars() {
        let d = match c.to_digit(16) {
            Some(d) if d < radix => d as i128,
            _ => return Lit::Invalid(format!("digit {c:?} is not valid in radix {radix}")),
        };
        match acc.checked_mul(radix as i128).and_then(|a| a.checked_add(d)) {
            Some(n) => acc = n,
            None => return Lit::Invalid(format!("literal {text} exceeds i128::MAX")),
        }
    }
    Lit::Value(RV::Int(acc))
}

pub fn index_literal(text: &str) -> Option<usize> {
    let mut acc: usize = 0;
    for b in text.bytes() {
        acc = acc.checked_mul(10)?.checked_add((b - b'0') as usize)?;
    }
    Some(acc)
}

/// split `sign? D* ('.' D+)?` into (neg, integer digits, fraction digits)
fn split_number(body: &str) -> (bool, &str, &str) {
    let (neg, rest) = match body.as_bytes().first() {
        Some(b'+') => (false, &body[1..]),
        Some(b'-') => (true, &body[1..]),
        _ => (false, body),
    };
    match rest.find('.') {
        Some(p) => (neg, &rest[..p], &rest[p + 1..]),
        None => (neg, rest, ""),
    }
}

pub fn decimal_literal(text: &str) -> Lit {
    let (neg, ip, fp) = split_number(&text[1..]);
    // "rounded only beyond the type's 28 fractional digits": the rounding mode is not stated, so a
    // literal with further non-zero digits is left open; when everything beyond the 28th digit is
    // a zero nothing is rounded and the value (with scale 28) is fixed
    let fp = if fp.len() > 28 {
        if fp[28..].bytes().all(|b| b == b'0') {
            &fp[..28]
        } else {
            return Lit::Unspecified("more than 28 fractional digits".into());
        }
    } else {
        fp
    };
    let mut mant: u128 = 0;
    for b in ip.bytes().chain(fp.bytes()) {
        match mant.checked_mul(10).and_then(|m| m.checked_add((b - b'0') as u128)) {
            Some(m) if m < (1u128 << 96) => mant = m,
            _ => {
                return if fp.is_empty() {
                    Lit::Invalid(format!("decimal literal {text} exceeds 96 bits"))
                } else {
                    Lit::Unspecified("mantissa beyond 96 bits with fractional digits (rounded or rejected)".into())
                }
            }
        }
    }
    Lit::Value(RV::Dec(RDec { neg: neg && mant != 0, mant, scale: fp.len() as u32 }))
}

const POW10: [f64; 23] = [
    1e0, 1e1, 1e2, 1e3, 1e4, 1e5, 1e6, 1e7, 1e8, 1e9, 1e10, 1e11, 1e12, 1e13, 1e14, 1e15, 1e16, 1e17, 1e18, 1e19, 1e20, 1e21, 1e22,
];

/// Correctly rounded value by one IEEE operation (Clinger's fast path) when the decimal mantissa is
/// at most 2^53 and the decimal exponent within ±22; None otherwise.
pub fn float_fast_path(text_after_f: &str) -> Option<f64> {
    let (mant_part, exp_part) = match text_after_f.find(|c| c == 'e' || c == 'E') {
        Some(p) => (&text_after_f[..p], Some(&text_after_f[p + 1..])),
        None => (text_after_f, None),
    };
    let (neg, ip, fp) = split_number(mant_part);
    let mut mant: u64 = 0;
    for b in ip.bytes().chain(fp.bytes()) {
        mant = mant.checked_mul(10)?.checked_add((b - b'0') as u64)?;
    }
    if mant > (1u64 << 53) {
        return None;
    }
    let mut e10: i64 = -(fp.len() as i64);
    if let Some(e) = exp_part {
        let (eneg, ds) = match e.as_bytes().first()? {
            b'+' => (false, &e[1..]),
            b'-' => (true, &e[1..]),
            _ => (false, e),
        };
        let mut v: i64 = 0;
        for b in ds.bytes() {
            v = v.checked_mul(10)?.checked_add((b - b'0') as i64)?;
            if v > 10_000 {
                return None;
            }
        }
        e10 += if eneg { -v } else { v };
    }
    let m = mant as f64;
    let v = if mant == 0 {
        0.0
    } else if (0..=22).contains(&e10) {
        m * POW10[e10 as usize]
    } else if (-22..0).contains(&e10) {
        m / POW10[(-e10) as usize]
    } else {
        return None;
    };
    Some(if neg { -v } else { v })
}

pub fn float_literal(text: &str) -> Lit {
    match float_fast_path(&text[1..]) {
        Some(v) => Lit::Value(RV::float(v)),
        None => {
            // outside the exactly-checkable family: std's parser is the trusted base
            match text[1..].parse::<f64>() {
                Ok(v) if v.is_finite() => Lit::Value(RV::float(v)),
                Ok(_) => Lit::Unspecified("magnitude overflows to infinity".into()),
                Err(_) => Lit::Unspecified("not parsed by the trusted float parser".into()),
            }
        }
    }
}

/// contents of a STRING token (including the quotes) -> the string it denotes
pub fn string_literal(token: &str) -> Lit {
    let inner = &token[1..token.len() - 1];
    let mut out = String::new();
    let mut it = inner.chars();
    while let Some(c) = it.next() {
        if c != '\\' {
            out.push(c);
            continue;
        }
        match it.next() {
            Some('n') => out.push('\n'),
            Some('r') => out.push('\r'),
            Some('t') => out.push('\t'),
            Some('\\') => out.push('\\'),
            Some('\'') => out.push('\''),
            Some('"') => out.push('"'),
            Some('u') => {
                if it.next() != Some('{') {
                    return Lit::Invalid("\\u not followed by {".into());
                }
                let mut hex = String::new();
                let mut closed = false;
                for h in it.by_ref() {
                    if h == '}' {
                        closed = true;
                        break;
                    }
                    hex.push(h);
                }
                if !closed {
                    return Lit::Unspecified("unterminated \\u{".into());
                }
                if hex.starts_with('+') {
                    return Lit::Unspecified("\\u{+..}".into());
                }
                if hex.is_empty() || !hex.chars().all(|h| h.is_ascii_hexdigit()) {
                    return Lit::Invalid(format!("\\u{{{hex}}} is not hexadecimal"));
                }
                let mut v: u32 = 0;
                for h in hex.chars() {
                    v = match v.checked_mul(16).and_then(|x| x.checked_add(h.to_digit(16).unwrap())) {
                        Some(x) => x,
                        None => return Lit::Invalid("\\u value too large".into()),
                    };
                }
                if v > 0x10FFFF || (0xD800..=0xDFFF).contains(&v) {
                    return Lit::Invalid(format!("\\u{{{hex}}} denotes no Unicode scalar value"));
                }
                out.push(char::from_u32(v).unwrap());
            }
            Some(o) => return Lit::Invalid(format!("unknown escape \\{o}")),
            None => return Lit::Invalid("dangling backslash".into()),
        }
    }
    Lit::Value(RV::Str(out))
}
