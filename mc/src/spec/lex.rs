//! Reference lexer: hand-coded maximal-munch scanner over an explicit token table, written from
//! the lexical table in DESIGN §3 C08.  Does not use regexes.
#[derive(Clone, Copy, Debug, PartialEq, Eq, Hash, PartialOrd, Ord)]
pub enum TK {
    // operators and punctuation
    Eq1, Eq2, Neq, Gt, Lt, Gte, Lte, Plus, Minus, Star, Slash, Percent, Bang, Amp, Pipe, Caret, At,
    Comma, Colon, Semi, Dot, LParen, RParen, LBracket, RBracket, LBrace, RBrace,
    // keywords
    And, Or, If, Then, Else, IsSome, IsNone, NoneKw, SomeKw, IntKw, FloatKw, DecKw, Contains, In,
    DateTime_, DateTime, Duration, ToUpper, ToLower, Uppercase, Lowercase, Trim, Round, Floor, Fract,
    Year, Month, Week, Day, Hour, Minute, Second, True, False,
    // literal classes
    Str, Int, Hex, Oct, Bin, Float, Decimal,
    // low priority
    Ident, Index,
}

pub const KEYWORDS: [(&str, TK); 34] = [
    ("and", TK::And), ("or", TK::Or), ("if", TK::If), ("then", TK::Then), ("else", TK::Else),
    ("is_some", TK::IsSome), ("is_none", TK::IsNone), ("none", TK::NoneKw), ("some", TK::SomeKw),
    ("int", TK::IntKw), ("float", TK::FloatKw), ("dec", TK::DecKw), ("contains", TK::Contains), ("in", TK::In),
    ("date_time", TK::DateTime_), ("datetime", TK::DateTime), ("duration", TK::Duration),
    ("to_upper", TK::ToUpper), ("to_lower", TK::ToLower), ("uppercase", TK::Uppercase), ("lowercase", TK::Lowercase),
    ("trim", TK::Trim), ("round", TK::Round), ("floor", TK::Floor), ("fract", TK::Fract),
    ("year", TK::Year), ("month", TK::Month), ("week", TK::Week), ("day", TK::Day), ("hour", TK::Hour),
    ("minute", TK::Minute), ("second", TK::Second), ("true", TK::True), ("false", TK::False),
];

pub const PUNCT: [(&str, TK); 27] = [
    ("==", TK::Eq2), ("!=", TK::Neq), (">=", TK::Gte), ("<=", TK::Lte),
    ("=", TK::Eq1), (">", TK::Gt), ("<", TK::Lt), ("+", TK::Plus), ("-", TK::Minus), ("*", TK::Star), ("/", TK::Slash),
    ("%", TK::Percent), ("!", TK::Bang), ("&", TK::Amp), ("|", TK::Pipe), ("^", TK::Caret), ("@", TK::At),
    (",", TK::Comma), (":", TK::Colon), (";", TK::Semi), (".", TK::Dot), ("(", TK::LParen), (")", TK::RParen),
    ("[", TK::LBracket), ("]", TK::RBracket), ("{", TK::LBrace), ("}", TK::RBrace),
];

#[derive(Clone, Debug, PartialEq, Eq)]
pub struct Token {
    pub kind: TK,
    pub start: usize,
    pub end: usize,
}

#[derive(Clone, Debug, PartialEq, Eq)]
pub enum LexStep {
    Tok(Token),
    Eof,
    /// invalid token at this byte offset
    Invalid(usize),
}

fn digits(b: &[u8], mut i: usize, pred: impl Fn(u8) -> bool) -> usize {
    while i < b.len() && pred(b[i]) {
        i += 1;
    }
    i
}

/// `sign? (D+ | D* '.' D+)` starting at i; returns end or None
fn number_body(b: &[u8], mut i: usize) -> Option<usize> {
    if i < b.len() && (b[i] == b'+' || b[i] == b'-') {
        i += 1;
    }
    let d1 = digits(b, i, |c| c.is_ascii_digit());
    let mut best = if d1 > i { Some(d1) } else { None };
    if d1 < b.len() && b[d1] == b'.' {
        let d2 = digits(b, d1 + 1, |c| c.is_ascii_digit());
        if d2 > d1 + 1 {
            best = Some(d2);
        }
    }
    best
}

/// length (in bytes) of the longest STRING token at the start of `s`, if any
fn string_token(s: &str) -> Option<usize> {
    let mut it = s.char_indices();
    match it.next() {
        Some((_, '"')) => {}
        _ => return None,
    }
    while let Some((i, c)) = it.next() {
        match c {
            '"' => return Some(i + 1),
            '\\' => match it.next() {
                Some((_, e)) if e != '\n' => {}
                _ => return None,
            },
            _ => {}
        }
    }
    None
}

/// next token of `text` at byte offset `pos` (skipping whitespace and comments first)
pub fn next_token(text: &str, mut pos: usize) -> LexStep {
    let b = text.as_bytes();
    loop {
        if pos >= b.len() {
            return LexStep::Eof;
        }
        let rest = &text[pos..];
        // skip whitespace
        let ws: usize = rest.chars().take_while(|c| c.is_whitespace()).map(|c| c.len_utf8()).sum();
        if ws > 0 {
            pos += ws;
            continue;
        }
        // comment
        if rest.starts_with("//") {
            let body: usize = rest.chars().take_while(|c| *c != '\n' && *c != '\r').map(|c| c.len_utf8()).sum();
            let tail: usize = rest[body..].chars().take_while(|c| *c == '\n' || *c == '\r').count();
            pos += body + tail;
            continue;
        }
        break;
    }
    let rest = &text[pos..];
    let rb = rest.as_bytes();
    // candidates: (length, priority) — longest wins, ties by priority (higher wins)
    let mut best: Option<(usize, u8, TK)> = None;
    let mut cand = |len: usize, prio: u8, kind: TK| {
        if len == 0 {
            return;
        }
        match best {
            Some((l, p, _)) if l > len || (l == len && p >= prio) => {}
            _ => best = Some((len, prio, kind)),
        }
    };
    for (s, k) in PUNCT {
        if rest.starts_with(s) {
            cand(s.len(), 3, k);
        }
    }
    for (s, k) in KEYWORDS {
        if rest.starts_with(s) {
            cand(s.len(), 3, k);
        }
    }
    if let Some(n) = string_token(rest) {
        cand(n, 2, TK::Str);
    }
    match rb[0] {
        b'i' => {
            // i sign? D+
            let mut i = 1;
            if i < rb.len() && (rb[i] == b'+' || rb[i] == b'-') {
                i += 1;
            }
            let e = digits(rb, i, |c| c.is_ascii_digit());
            if e > i {
                cand(e, 2, TK::Int);
            }
        }
        b'f' => {
            if let Some(e) = number_body(rb, 1) {
                let mut end = e;
                if end < rb.len() && (rb[end] == b'e' || rb[end] == b'E') {
                    let mut j = end + 1;
                    if j < rb.len() && (rb[j] == b'+' || rb[j] == b'-') {
                        j += 1;
                    }
                    let k = digits(rb, j, |c| c.is_ascii_digit());
                    if k > j {
                        end = k;
                    }
                }
                cand(end, 2, TK::Float);
            }
        }
        b'd' => {
            if let Some(e) = number_body(rb, 1) {
                cand(e, 2, TK::Decimal);
            }
        }
        b'0' if rb.len() > 1 => {
            let (pred, kind): (fn(u8) -> bool, TK) = match rb[1] {
                b'x' => (|c: u8| c.is_ascii_hexdigit(), TK::Hex),
                b'o' => (|c: u8| (b'0'..=b'8').contains(&c), TK::Oct),
                b'b' => (|c: u8| c == b'0' || c == b'1', TK::Bin),
                _ => (|_| false, TK::Index),
            };
            let e = digits(rb, 2, pred);
            if e > 2 {
                cand(e, 2, kind);
            }
        }
        _ => {}
    }
    if rb[0].is_ascii_alphabetic() {
        let e = digits(rb, 1, |c| c.is_ascii_alphanumeric() || c == b'_');
        cand(e, 1, TK::Ident);
    }
    if rb[0].is_ascii_digit() {
        let e = digits(rb, 0, |c| c.is_ascii_digit());
        cand(e, 1, TK::Index);
    }
    match best {
        Some((len, _, kind)) => LexStep::Tok(Token { kind, start: pos, end: pos + len }),
        None => LexStep::Invalid(pos),
    }
}

/// lex the whole text; Err(offset) at the first invalid token
pub fn lex_all(text: &str) -> Result<Vec<Token>, (Vec<Token>, usize)> {
    let mut out = Vec::new();
    let mut pos = 0;
    loop {
        match next_token(text, pos) {
            LexStep::Eof => return Ok(out),
            LexStep::Invalid(p) => return Err((out, p)),
            LexStep::Tok(t) => {
                pos = t.end;
                out.push(t);
            }
        }
    }
}

#[cfg(test)]
mod tests {
    use super::*;
    fn kinds(s: &str) -> Vec<TK> {
        lex_all(s).unwrap().into_iter().map(|t| t.kind).collect()
    }
    #[test]
    fn munch() {
        assert_eq!(kinds("int inty i5 i5x f1e f1e5 i-5 i- 0x1g"), vec![TK::IntKw, TK::Ident, TK::Int, TK::Ident, TK::Ident, TK::Float, TK::Int, TK::Ident, TK::Minus, TK::Hex, TK::Ident]);
        assert_eq!(kinds("f1.5e f.5 d1. 1.5 //c\n\r\n x"), vec![TK::Float, TK::Ident, TK::Float, TK::Decimal, TK::Dot, TK::Index, TK::Dot, TK::Index, TK::Ident]);
        assert_eq!(kinds("a==b=c>=d"), vec![TK::Ident, TK::Eq2, TK::Ident, TK::Eq1, TK::Ident, TK::Gte, TK::Ident]);
        assert!(lex_all("\"abc").is_err());
        assert_eq!(kinds("\"a\\\"b\" x"), vec![TK::Str, TK::Ident]);
    }
}
