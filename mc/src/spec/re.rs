//! `RE` — mirror of `reval::expr::Expr` (47 node kinds: 8 structural + 22 unary + 17 binary).
use super::rv::{is_ident, RV};
use reval::expr::{Expr, Index};
use std::collections::BTreeMap;

#[derive(Clone, Copy, Debug, PartialEq, Eq, Hash, PartialOrd, Ord)]
pub enum UnOp {
    Not,
    Neg,
    IsSome,
    IsNone,
    Int,
    Float,
    Dec,
    DateTime,
    Duration,
    Upper,
    Lower,
    Trim,
    Floor,
    Round,
    Fract,
    Year,
    Month,
    Week,
    Day,
    Hour,
    Minute,
    Second,
}

pub const ALL_UNOPS: [UnOp; 22] = [
    UnOp::Not,
    UnOp::Neg,
    UnOp::IsSome,
    UnOp::IsNone,
    UnOp::Int,
    UnOp::Float,
    UnOp::Dec,
    UnOp::DateTime,
    UnOp::Duration,
    UnOp::Upper,
    UnOp::Lower,
    UnOp::Trim,
    UnOp::Floor,
    UnOp::Round,
    UnOp::Fract,
    UnOp::Year,
    UnOp::Month,
    UnOp::Week,
    UnOp::Day,
    UnOp::Hour,
    UnOp::Minute,
    UnOp::Second,
];

#[derive(Clone, Copy, Debug, PartialEq, Eq, Hash, PartialOrd, Ord)]
pub enum BinOp {
    Mult,
    Div,
    Rem,
    Add,
    Sub,
    Eq,
    Neq,
    Gt,
    Gte,
    Lt,
    Lte,
    And,
    Or,
    BitAnd,
    BitOr,
    BitXor,
    Contains,
}

pub const ALL_BINOPS: [BinOp; 17] = [
    BinOp::Mult,
    BinOp::Div,
    BinOp::Rem,
    BinOp::Add,
    BinOp::Sub,
    BinOp::Eq,
    BinOp::Neq,
    BinOp::Gt,
    BinOp::Gte,
    BinOp::Lt,
    BinOp::Lte,
    BinOp::And,
    BinOp::Or,
    BinOp::BitAnd,
    BinOp::BitOr,
    BinOp::BitXor,
    BinOp::Contains,
];

impl UnOp {
    /// canonical keyword / symbol used by the reference unparser
    pub fn text(self) -> &'static str {
        match self {
            UnOp::Not => "!",
            UnOp::Neg => "-",
            UnOp::IsSome => "is_some",
            UnOp::IsNone => "is_none",
            UnOp::Int => "int",
            UnOp::Float => "float",
            UnOp::Dec => "dec",
            UnOp::DateTime => "datetime",
            UnOp::Duration => "duration",
            UnOp::Upper => "uppercase",
            UnOp::Lower => "lowercase",
            UnOp::Trim => "trim",
            UnOp::Floor => "floor",
            UnOp::Round => "round",
            UnOp::Fract => "fract",
            UnOp::Year => "year",
            UnOp::Month => "month",
            UnOp::Week => "week",
            UnOp::Day => "day",
            UnOp::Hour => "hour",
            UnOp::Minute => "minute",
            UnOp::Second => "second",
        }
    }
    pub fn is_prefix(self) -> bool {
        matches!(self, UnOp::Not | UnOp::Neg)
    }
}

impl BinOp {
    pub fn text(self) -> &'static str {
        match self {
            BinOp::Mult => "*",
            BinOp::Div => "/",
            BinOp::Rem => "%",
            BinOp::Add => "+",
            BinOp::Sub => "-",
            BinOp::Eq => "==",
            BinOp::Neq => "!=",
            BinOp::Gt => ">",
            BinOp::Gte => ">=",
            BinOp::Lt => "<",
            BinOp::Lte => "<=",
            BinOp::And => "and",
            BinOp::Or => "or",
            BinOp::BitAnd => "&",
            BinOp::BitOr => "|",
            BinOp::BitXor => "^",
            BinOp::Contains => "contains",
        }
    }
    /// binding level, loosest = 1 (and/or) .. 6 (contains); `if` is 0, unary 7, access 8, atoms 9
    pub fn level(self) -> u8 {
        match self {
            BinOp::And | BinOp::Or => 1,
            BinOp::Eq | BinOp::Neq | BinOp::Gt | BinOp::Gte | BinOp::Lt | BinOp::Lte => 2,
            BinOp::Add | BinOp::Sub => 3,
            BinOp::Mult | BinOp::Div | BinOp::Rem => 4,
            BinOp::BitAnd | BinOp::BitOr | BinOp::BitXor => 5,
            BinOp::Contains => 6,
        }
    }
}

#[derive(Clone, Debug, PartialEq, Eq, Hash, PartialOrd, Ord)]
pub enum RE {
    Val(RV),
    Ref(String),
    Sym(String),
    Call(String, Box<RE>),
    IdxF(Box<RE>, String),
    IdxN(Box<RE>, usize),
    If(Box<RE>, Box<RE>, Box<RE>),
    Map(BTreeMap<String, RE>),
    List(Vec<RE>),
    Un(UnOp, Box<RE>),
    Bin(BinOp, Box<RE>, Box<RE>),
}

/// `x.f.0` lexes as `x . f.0` (a float literal): a field named like a float/decimal prefix must be
/// separated from a following numeric index
fn field_merges_with_index(f: &str) -> bool {
    let b = f.as_bytes();
    (b[0] == b'f' || b[0] == b'd') && b[1..].iter().all(|c| c.is_ascii_digit())
}

impl RE {
    pub fn un(op: UnOp, e: RE) -> RE {
        RE::Un(op, Box::new(e))
    }
    pub fn bin(op: BinOp, l: RE, r: RE) -> RE {
        RE::Bin(op, Box::new(l), Box::new(r))
    }
    pub fn iff(c: RE, t: RE, e: RE) -> RE {
        RE::If(Box::new(c), Box::new(t), Box::new(e))
    }
    pub fn call(n: &str, a: RE) -> RE {
        RE::Call(n.to_string(), Box::new(a))
    }
    pub fn reff(n: &str) -> RE {
        RE::Ref(n.to_string())
    }
    pub fn idxf(e: RE, f: &str) -> RE {
        RE::IdxF(Box::new(e), f.to_string())
    }
    pub fn idxn(e: RE, n: usize) -> RE {
        RE::IdxN(Box::new(e), n)
    }
    pub fn size(&self) -> usize {
        match self {
            RE::Val(_) | RE::Ref(_) | RE::Sym(_) => 1,
            RE::Call(_, a) | RE::IdxF(a, _) | RE::IdxN(a, _) | RE::Un(_, a) => 1 + a.size(),
            RE::If(a, b, c) => 1 + a.size() + b.size() + c.size(),
            RE::Map(m) => 1 + m.values().map(|v| v.size()).sum::<usize>(),
            RE::List(v) => 1 + v.iter().map(|v| v.size()).sum::<usize>(),
            RE::Bin(_, a, b) => 1 + a.size() + b.size(),
        }
    }

    /// exhaustive conversion from reval's tree
    pub fn from_expr(e: &Expr) -> RE {
        let u = |op: UnOp, x: &Expr| RE::Un(op, Box::new(RE::from_expr(x)));
        let b = |op: BinOp, l: &Expr, r: &Expr| RE::Bin(op, Box::new(RE::from_expr(l)), Box::new(RE::from_expr(r)));
        match e {
            Expr::Value(v) => RE::Val(RV::from_value(v)),
            Expr::Reference(n) => RE::Ref(n.clone()),
            Expr::Symbol(n) => RE::Sym(n.clone()),
            Expr::Function(n, a) => RE::Call(n.clone(), Box::new(RE::from_expr(a))),
            Expr::Index(x, Index::Map(f)) => RE::IdxF(Box::new(RE::from_expr(x)), f.clone()),
            Expr::Index(x, Index::Vec(n)) => RE::IdxN(Box::new(RE::from_expr(x)), *n),
            Expr::If(c, t, f) => RE::If(Box::new(RE::from_expr(c)), Box::new(RE::from_expr(t)), Box::new(RE::from_expr(f))),
            Expr::Map(m) => RE::Map(m.iter().map(|(k, v)| (k.clone(), RE::from_expr(v))).collect()),
            Expr::Vec(v) => RE::List(v.iter().map(RE::from_expr).collect()),
            Expr::Not(x) => u(UnOp::Not, x),
            Expr::Neg(x) => u(UnOp::Neg, x),
            Expr::Some(x) => u(UnOp::IsSome, x),
            Expr::None(x) => u(UnOp::IsNone, x),
            Expr::Int(x) => u(UnOp::Int, x),
            Expr::Float(x) => u(UnOp::Float, x),
            Expr::Dec(x) => u(UnOp::Dec, x),
            Expr::DateTime(x) => u(UnOp::DateTime, x),
            Expr::Duration(x) => u(UnOp::Duration, x),
            Expr::UpperCase(x) => u(UnOp::Upper, x),
            Expr::LowerCase(x) => u(UnOp::Lower, x),
            Expr::Trim(x) => u(UnOp::Trim, x),
            Expr::Floor(x) => u(UnOp::Floor, x),
            Expr::Round(x) => u(UnOp::Round, x),
            Expr::Fract(x) => u(UnOp::Fract, x),
            Expr::Year(x) => u(UnOp::Year, x),
            Expr::Month(x) => u(UnOp::Month, x),
            Expr::Week(x) => u(UnOp::Week, x),
            Expr::Day(x) => u(UnOp::Day, x),
            Expr::Hour(x) => u(UnOp::Hour, x),
            Expr::Minute(x) => u(UnOp::Minute, x),
            Expr::Second(x) => u(UnOp::Second, x),
            Expr::Mult(l, r) => b(BinOp::Mult, l, r),
            Expr::Div(l, r) => b(BinOp::Div, l, r),
            Expr::Rem(l, r) => b(BinOp::Rem, l, r),
            Expr::Add(l, r) => b(BinOp::Add, l, r),
            Expr::Sub(l, r) => b(BinOp::Sub, l, r),
            Expr::Equals(l, r) => b(BinOp::Eq, l, r),
            Expr::NotEquals(l, r) => b(BinOp::Neq, l, r),
            Expr::GreaterThan(l, r) => b(BinOp::Gt, l, r),
            Expr::GreaterThanEquals(l, r) => b(BinOp::Gte, l, r),
            Expr::LessThan(l, r) => b(BinOp::Lt, l, r),
            Expr::LessThanEquals(l, r) => b(BinOp::Lte, l, r),
            Expr::And(l, r) => b(BinOp::And, l, r),
            Expr::Or(l, r) => b(BinOp::Or, l, r),
            Expr::BitAnd(l, r) => b(BinOp::BitAnd, l, r),
            Expr::BitOr(l, r) => b(BinOp::BitOr, l, r),
            Expr::BitXor(l, r) => b(BinOp::BitXor, l, r),
            Expr::Contains(l, r) => b(BinOp::Contains, l, r),
        }
    }

    /// like `to_expr`, but a panic inside one of reval's constructors is returned as an error
    pub fn try_to_expr(&self) -> Result<Expr, String> {
        crate::engine::panic::catch(|| self.to_expr())
    }

    /// build the real tree through reval's public constructors
    pub fn to_expr(&self) -> Expr {
        match self {
            RE::Val(v) => Expr::value(v.to_value()),
            RE::Ref(n) => Expr::reff(n),
            RE::Sym(n) => Expr::symbol(n),
            RE::Call(n, a) => Expr::func(n.clone(), a.to_expr()),
            RE::IdxF(x, f) => Expr::index(x.to_expr(), Index::from(f.as_str())),
            RE::IdxN(x, n) => Expr::index(x.to_expr(), Index::from(*n)),
            RE::If(c, t, f) => Expr::iif(c.to_expr(), t.to_expr(), f.to_expr()),
            RE::Map(m) => Expr::Map(m.iter().map(|(k, v)| (k.clone(), v.to_expr())).collect()),
            RE::List(v) => Expr::Vec(v.iter().map(|x| x.to_expr()).collect()),
            RE::Un(op, x) => {
                let x = x.to_expr();
                match op {
                    UnOp::Not => Expr::not(x),
                    UnOp::Neg => Expr::neg(x),
                    UnOp::IsSome => Expr::some(x),
                    UnOp::IsNone => Expr::none(x),
                    UnOp::Int => Expr::int(x),
                    UnOp::Float => Expr::float(x),
                    UnOp::Dec => Expr::dec(x),
                    UnOp::DateTime => Expr::datetime(x),
                    UnOp::Duration => Expr::duration(x),
                    UnOp::Upper => Expr::uppercase(x),
                    UnOp::Lower => Expr::lowercase(x),
                    UnOp::Trim => Expr::trim(x),
                    UnOp::Floor => Expr::floor(x),
                    UnOp::Round => Expr::round(x),
                    UnOp::Fract => Expr::fract(x),
                    UnOp::Year => Expr::year(x),
                    UnOp::Month => Expr::month(x),
                    UnOp::Week => Expr::week(x),
                    UnOp::Day => Expr::day(x),
                    UnOp::Hour => Expr::hour(x),
                    UnOp::Minute => Expr::minute(x),
                    UnOp::Second => Expr::second(x),
                }
            }
            RE::Bin(op, l, r) => {
                let (l, r) = (l.to_expr(), r.to_expr());
                match op {
                    BinOp::Mult => Expr::mult(l, r),
                    BinOp::Div => Expr::div(l, r),
                    BinOp::Rem => Expr::rem(l, r),
                    BinOp::Add => Expr::add(l, r),
                    BinOp::Sub => Expr::sub(l, r),
                    BinOp::Eq => Expr::eq(l, r),
                    BinOp::Neq => Expr::neq(l, r),
                    BinOp::Gt => Expr::gt(l, r),
                    BinOp::Gte => Expr::gte(l, r),
                    BinOp::Lt => Expr::lt(l, r),
                    BinOp::Lte => Expr::lte(l, r),
                    BinOp::And => Expr::and(l, r),
                    BinOp::Or => Expr::or(l, r),
                    BinOp::BitAnd => Expr::bitwise_and(l, r),
                    BinOp::BitOr => Expr::bitwise_or(l, r),
                    BinOp::BitXor => Expr::bitwise_xor(l, r),
                    BinOp::Contains => Expr::contains(l, r),
                }
            }
        }
    }

    /// binding level of the root for the reference unparser (higher binds tighter)
    fn level(&self) -> u8 {
        match self {
            RE::If(..) => 0,
            RE::Bin(op, ..) => op.level(),
            RE::Un(op, _) if op.is_prefix() => 7,
            RE::IdxF(..) | RE::IdxN(..) => 8,
            _ => 9,
        }
    }

    /// Reference unparser, minimal parentheses (None if some leaf has no literal syntax or a name
    /// is not an identifier).
    pub fn unparse(&self) -> Option<String> {
        let mut s = String::new();
        self.unparse_into(&mut s, false)?;
        Some(s)
    }
    /// Reference unparser with parentheses around every compound sub-expression.
    pub fn unparse_full(&self) -> Option<String> {
        let mut s = String::new();
        self.unparse_into(&mut s, true)?;
        Some(s)
    }

    /// number of nodes (preorder positions) that can carry an extra pair of parentheses
    pub fn paren_positions(&self) -> usize {
        self.size()
    }

    /// minimal parentheses plus one extra pair around every node whose preorder index is set in
    /// `mask` (parentheses only group, so the tree is unchanged)
    pub fn unparse_with_extra(&self, mask: u64) -> Option<String> {
        let mut s = String::new();
        let mut idx = 0usize;
        self.unparse_masked(&mut s, mask, &mut idx, 0)?;
        Some(s)
    }

    fn unparse_masked(&self, out: &mut String, mask: u64, idx: &mut usize, min_level: u8) -> Option<()> {
        let me = *idx;
        *idx += 1;
        let extra = me < 64 && (mask >> me) & 1 == 1;
        let need = self.level() < min_level;
        if extra {
            out.push('(');
        }
        if need {
            out.push('(');
        }
        // inside parentheses any expression is allowed
        match self {
            RE::Val(_) | RE::Ref(_) | RE::Sym(_) => {
                self.unparse_into(out, false)?;
            }
            RE::Call(n, a) => {
                if !is_ident(n) {
                    return None;
                }
                out.push_str(n);
                out.push('(');
                a.unparse_masked(out, mask, idx, 0)?;
                out.push(')');
            }
            RE::IdxF(x, f) => {
                if !is_ident(f) {
                    return None;
                }
                x.unparse_masked(out, mask, idx, 8)?;
                out.push('.');
                out.push_str(f);
            }
            RE::IdxN(x, n) => {
                let lit = matches!(**x, RE::Val(RV::Float(_)) | RE::Val(RV::Dec(_)))
                    || matches!(&**x, RE::IdxF(_, f) | RE::Ref(f) | RE::Sym(f) if !f.is_empty() && field_merges_with_index(f));
                x.unparse_masked(out, mask, idx, if lit { 10 } else { 8 })?;
                out.push('.');
                out.push_str(&n.to_string());
            }
            RE::If(c, t, e) => {
                out.push_str("if ");
                c.unparse_masked(out, mask, idx, 0)?;
                out.push_str(" then ");
                t.unparse_masked(out, mask, idx, 0)?;
                out.push_str(" else ");
                e.unparse_masked(out, mask, idx, 0)?;
            }
            RE::Map(m) => {
                out.push('{');
                for (i, (k, v)) in m.iter().enumerate() {
                    if !is_ident(k) {
                        return None;
                    }
                    if i > 0 {
                        out.push_str(", ");
                    }
                    out.push_str(k);
                    out.push_str(": ");
                    v.unparse_masked(out, mask, idx, 0)?;
                }
                out.push('}');
            }
            RE::List(v) => {
                out.push('[');
                for (i, x) in v.iter().enumerate() {
                    if i > 0 {
                        out.push_str(", ");
                    }
                    x.unparse_masked(out, mask, idx, 0)?;
                }
                out.push(']');
            }
            RE::Un(op, x) => {
                out.push_str(op.text());
                if op.is_prefix() {
                    x.unparse_masked(out, mask, idx, 7)?;
                } else {
                    out.push('(');
                    x.unparse_masked(out, mask, idx, 0)?;
                    out.push(')');
                }
            }
            RE::Bin(op, l, r) => {
                let lv = op.level();
                if *op == BinOp::Contains {
                    l.unparse_masked(out, mask, idx, 8)?;
                    out.push_str(" contains ");
                    r.unparse_masked(out, mask, idx, 8)?;
                } else {
                    l.unparse_masked(out, mask, idx, lv)?;
                    out.push(' ');
                    out.push_str(op.text());
                    out.push(' ');
                    r.unparse_masked(out, mask, idx, lv + 1)?;
                }
            }
        }
        if need {
            out.push(')');
        }
        if extra {
            out.push(')');
        }
        Some(())
    }

    fn child(&self, out: &mut String, min_level: u8, full: bool) -> Option<()> {
        let compound = self.level() < 9;
        if self.level() < min_level || (full && compound) {
            out.push('(');
            self.unparse_into(out, full)?;
            out.push(')');
        } else {
            self.unparse_into(out, full)?;
        }
        Some(())
    }

    fn unparse_into(&self, out: &mut String, full: bool) -> Option<()> {
        match self {
            RE::Val(v) => out.push_str(&v.literal_text()?),
            RE::Ref(n) => {
                if !is_ident(n) {
                    return None;
                }
                out.push_str(n)
            }
            RE::Sym(n) => {
                if !is_ident(n) {
                    return None;
                }
                out.push(':');
                out.push_str(n)
            }
            RE::Call(n, a) => {
                if !is_ident(n) {
                    return None;
                }
                out.push_str(n);
                out.push('(');
                a.unparse_into(out, full)?;
                out.push(')');
            }
            RE::IdxF(x, f) => {
                if !is_ident(f) {
                    return None;
                }
                x.child(out, 8, full)?;
                out.push('.');
                out.push_str(f);
            }
            RE::IdxN(x, n) => {
                // `f1.0` / `d1.0` would lex as one literal
                if (matches!(**x, RE::Val(RV::Float(_)) | RE::Val(RV::Dec(_))) || matches!(&**x, RE::IdxF(_, f) | RE::Ref(f) | RE::Sym(f) if !f.is_empty() && field_merges_with_index(f))) && !full {
                    out.push('(');
                    x.unparse_into(out, full)?;
                    out.push(')');
                } else {
                    x.child(out, 8, full)?;
                }
                out.push('.');
                out.push_str(&n.to_string());
            }
            RE::If(c, t, e) => {
                out.push_str("if ");
                c.child(out, 0, full)?;
                out.push_str(" then ");
                t.child(out, 0, full)?;
                out.push_str(" else ");
                e.child(out, 0, full)?;
            }
            RE::Map(m) => {
                out.push('{');
                for (i, (k, v)) in m.iter().enumerate() {
                    if !is_ident(k) {
                        return None;
                    }
                    if i > 0 {
                        out.push_str(", ");
                    }
                    out.push_str(k);
                    out.push_str(": ");
                    v.unparse_into(out, full)?;
                }
                out.push('}');
            }
            RE::List(v) => {
                out.push('[');
                for (i, x) in v.iter().enumerate() {
                    if i > 0 {
                        out.push_str(", ");
                    }
                    x.unparse_into(out, full)?;
                }
                out.push(']');
            }
            RE::Un(op, x) => {
                if op.is_prefix() {
                    out.push_str(op.text());
                    // `-` followed by a literal is still two tokens (literals start with a letter)
                    x.child(out, 7, full)?;
                } else {
                    out.push_str(op.text());
                    out.push('(');
                    x.unparse_into(out, full)?;
                    out.push(')');
                }
            }
            RE::Bin(op, l, r) => {
                let lv = op.level();
                if *op == BinOp::Contains {
                    // operands are access expressions; not chainable
                    l.child(out, 8, full)?;
                    out.push_str(" contains ");
                    r.child(out, 8, full)?;
                } else {
                    // left-associative: left child may be the same level, right must be tighter
                    l.child(out, lv, full)?;
                    out.push(' ');
                    out.push_str(op.text());
                    out.push(' ');
                    r.child(out, lv + 1, full)?;
                }
            }
        }
        Some(())
    }
}
