//! Reference models.  Own value/expression types so that neither reval's derived `PartialEq` nor its
//! `Display` can influence a verdict; conversions are exhaustive matches.
pub mod civil;
pub mod eval;
pub mod grammar;
pub mod lex;
pub mod literal;
pub mod re;
pub mod rv;
