//! Reference evaluator: the operator table of DESIGN §2, written from the property statements.
//! Never calls reval's evaluator.  Trusted base: Rust integer/IEEE primitives, rust_decimal's
//! checked arithmetic / float conversions / parser, `f64::from_str`, chrono's RFC 3339 parser and its
//! range constants, std's Unicode case mapping and `trim`.
use super::civil;
use super::re::{BinOp, UnOp, RE};
use super::rv::{fbits, RDec, RV};
use chrono::{DateTime, Utc};
use rust_decimal::prelude::*;
use std::collections::BTreeMap;
use std::str::FromStr;

#[derive(Clone, Debug, PartialEq, Eq, Hash, PartialOrd, Ord)]
pub enum RErr {
    InvalidType,
    InvalidCast,
    UnknownRef(String),
    UnknownUserFunction(String),
    /// function name, token identifying the injected error
    UserFunctionError(String, u64),
    ValueOutOfBounds,
    DivisionByZero,
    InvalidSymbol(String),
    /// result not representable: any error except DivisionByZero / InvalidType is accepted
    Overflow,
    /// behaviour left open (DESIGN §5): any outcome accepted, composite expectations unknown
    Unspecified,
}

pub type RRes = Result<RV, RErr>;

pub const NS: i128 = 1_000_000_000;
/// TimeDelta::MAX = i64::MAX milliseconds, MIN = -MAX
pub const DUR_MAX_NS: i128 = i64::MAX as i128 * 1_000_000;

pub fn dt_min() -> (i64, u32) {
    let d = DateTime::<Utc>::MIN_UTC;
    (d.timestamp(), d.timestamp_subsec_nanos())
}
pub fn dt_max() -> (i64, u32) {
    let d = DateTime::<Utc>::MAX_UTC;
    (d.timestamp(), d.timestamp_subsec_nanos())
}

fn dt_total(s: i64, n: u32) -> i128 {
    s as i128 * NS + n as i128
}

fn dt_from_total(t: i128) -> RRes {
    let (mins, minn) = dt_min();
    let (maxs, maxn) = dt_max();
    if t < dt_total(mins, minn) || t > dt_total(maxs, maxn) {
        return Err(RErr::Overflow);
    }
    Ok(RV::Dt(t.div_euclid(NS) as i64, t.rem_euclid(NS) as u32))
}

fn dur_checked(ns: i128) -> RRes {
    if ns.abs() > DUR_MAX_NS {
        Err(RErr::Overflow)
    } else {
        Ok(RV::Dur(ns))
    }
}

fn pow10(n: u32) -> u128 {
    10u128.pow(n)
}

/// integer part (toward zero) and whether a non-zero fraction exists
fn dec_split(d: &RDec) -> (u128, u128) {
    let p = pow10(d.scale);
    (d.mant / p, d.mant % p)
}

fn mk_dec(neg: bool, mant: u128, scale: u32) -> RV {
    RV::Dec(RDec { neg: neg && mant != 0, mant, scale })
}

fn trunc_f(f: f64) -> f64 {
    if !f.is_finite() || f.abs() >= 9.0e18 {
        f
    } else {
        ((f as i64) as f64).copysign(f)
    }
}

fn parse_i128_ref(s: &str) -> Option<i128> {
    let (neg, digits) = match s.as_bytes().first()? {
        b'+' => (false, &s[1..]),
        b'-' => (true, &s[1..]),
        _ => (false, s),
    };
    if digits.is_empty() || !digits.bytes().all(|b| b.is_ascii_digit()) {
        return None;
    }
    let mut acc: i128 = 0;
    for b in digits.bytes() {
        let d = (b - b'0') as i128;
        acc = acc.checked_mul(10)?;
        acc = if neg { acc.checked_sub(d)? } else { acc.checked_add(d)? };
    }
    Some(acc)
}

/// structural equality as the language defines it (`==` on evaluated operands)
pub fn req(l: &RV, r: &RV) -> bool {
    match (l, r) {
        (RV::Float(a), RV::Float(b)) => f64::from_bits(*a) == f64::from_bits(*b),
        (RV::Dec(a), RV::Dec(b)) => a.to_decimal().cmp(&b.to_decimal()) == std::cmp::Ordering::Equal,
        (RV::List(a), RV::List(b)) => a.len() == b.len() && a.iter().zip(b).all(|(x, y)| req(x, y)),
        (RV::Map(a), RV::Map(b)) => {
            a.len() == b.len() && a.iter().zip(b).all(|((ka, va), (kb, vb))| ka == kb && req(va, vb))
        }
        (RV::Str(a), RV::Str(b)) => a == b,
        (RV::Int(a), RV::Int(b)) => a == b,
        (RV::Bool(a), RV::Bool(b)) => a == b,
        (RV::Dt(a, b), RV::Dt(c, d)) => (a, b) == (c, d),
        (RV::Dur(a), RV::Dur(b)) => a == b,
        (RV::None, RV::None) => true,
        _ => false,
    }
}

pub fn apply_un(op: UnOp, v: &RV) -> RRes {
    use UnOp::*;
    // is_some / is_none are total
    match op {
        IsSome => return Ok(RV::Bool(!matches!(v, RV::None))),
        IsNone => return Ok(RV::Bool(matches!(v, RV::None))),
        _ => {}
    }
    if matches!(v, RV::None) {
        return Ok(RV::None);
    }
    match (op, v) {
        (Not, RV::Bool(b)) => Ok(RV::Bool(!b)),
        (Neg, RV::Int(i)) => i.checked_neg().map(RV::Int).ok_or(RErr::Overflow),
        (Neg, RV::Float(b)) => Ok(RV::float(-f64::from_bits(*b))),
        (Neg, RV::Dec(d)) => Ok(mk_dec(!d.neg, d.mant, d.scale)),

        (Int, RV::Int(_)) => Ok(v.clone()),
        (Int, RV::Float(b)) => {
            let f = f64::from_bits(*b);
            if f.is_nan() {
                // not a number: an undefined case of the cast, hence an error (never a silent 0)
                Err(RErr::Overflow)
            } else if f >= -170141183460469231731687303715884105728.0 && f < 170141183460469231731687303715884105728.0 {
                Ok(RV::Int(f as i128))
            } else {
                Err(RErr::Overflow)
            }
        }
        (Int, RV::Dec(d)) => {
            let (ip, _) = dec_split(d);
            let i = ip as i128; // < 2^96
            Ok(RV::Int(if d.neg { -i } else { i }))
        }
        (Int, RV::Str(s)) => parse_i128_ref(s).map(RV::Int).ok_or(RErr::InvalidCast),

        (Float, RV::Int(i)) => Ok(RV::float(*i as f64)),
        (Float, RV::Float(_)) => Ok(v.clone()),
        (Float, RV::Dec(d)) => d.to_decimal().to_f64().map(RV::float).ok_or(RErr::InvalidCast),
        (Float, RV::Str(s)) => f64::from_str(s).map(RV::float).map_err(|_| RErr::InvalidCast),

        (Dec, RV::Int(i)) => {
            if i.unsigned_abs() < (1u128 << 96) {
                Ok(mk_dec(*i < 0, i.unsigned_abs(), 0))
            } else {
                Err(RErr::Overflow)
            }
        }
        (Dec, RV::Float(b)) => Decimal::try_from(f64::from_bits(*b)).map(RV::dec).map_err(|_| RErr::InvalidCast),
        (Dec, RV::Dec(_)) => Ok(v.clone()),
        (Dec, RV::Str(s)) => Decimal::from_str(s).map(RV::dec).map_err(|_| RErr::InvalidCast),

        (DateTime, RV::Str(s)) => s.parse::<chrono::DateTime<Utc>>().map(|d| RV::dt(&d)).map_err(|_| RErr::InvalidCast),
        (DateTime, RV::Int(i)) => {
            let (mins, _) = dt_min();
            let (maxs, _) = dt_max();
            match i64::try_from(*i) {
                Err(_) => Err(RErr::Overflow),
                Ok(s) if s < mins || s > maxs => Err(RErr::InvalidCast),
                Ok(s) => Ok(RV::Dt(s, 0)),
            }
        }
        (DateTime, RV::Dt(..)) => Ok(v.clone()),

        (Duration, RV::Int(i)) => match i64::try_from(*i) {
            Err(_) => Err(RErr::Overflow),
            Ok(s) => {
                let ns = s as i128 * NS;
                if ns.abs() > DUR_MAX_NS {
                    Err(RErr::InvalidCast)
                } else {
                    Ok(RV::Dur(ns))
                }
            }
        },
        (Duration, RV::Dur(_)) => Ok(v.clone()),

        (Upper, RV::Str(s)) => Ok(RV::Str(s.to_uppercase())),
        (Lower, RV::Str(s)) => Ok(RV::Str(s.to_lowercase())),
        (Trim, RV::Str(s)) => Ok(RV::Str(s.trim().to_string())),

        (Floor, RV::Float(b)) => {
            let f = f64::from_bits(*b);
            let t = trunc_f(f);
            Ok(RV::float(if t == f || !f.is_finite() { f } else if t > f { t - 1.0 } else { t }))
        }
        (Round, RV::Float(b)) => {
            let f = f64::from_bits(*b);
            let t = trunc_f(f);
            if !f.is_finite() || t == f {
                Ok(RV::float(f))
            } else {
                let r = if (f - t).abs() >= 0.5 { t + 1.0f64.copysign(f) } else { t };
                Ok(RV::float(if r == 0.0 { 0.0f64.copysign(f) } else { r }))
            }
        }
        (Fract, RV::Float(b)) => {
            let f = f64::from_bits(*b);
            Ok(RV::float(f - trunc_f(f)))
        }
        (Floor, RV::Dec(d)) => {
            let (ip, fp) = dec_split(d);
            if d.neg && fp != 0 {
                Ok(mk_dec(true, ip + 1, 0))
            } else {
                Ok(mk_dec(d.neg, ip, 0))
            }
        }
        (Round, RV::Dec(d)) => {
            // half to even, zero decimal places
            if d.scale == 0 {
                return Ok(v.clone());
            }
            let (ip, fp) = dec_split(d);
            let half = pow10(d.scale) / 2;
            let up = fp > half || (fp == half && ip % 2 == 1);
            Ok(mk_dec(d.neg, if up { ip + 1 } else { ip }, 0))
        }
        (Fract, RV::Dec(d)) => {
            let (_, fp) = dec_split(d);
            Ok(mk_dec(d.neg, fp, d.scale))
        }

        (Year, RV::Dt(s, _)) => Ok(RV::Int(civil::components(*s).0 as i128)),
        (Month, RV::Dt(s, _)) => Ok(RV::Int(civil::components(*s).1 as i128)),
        (Day, RV::Dt(s, _)) => Ok(RV::Int(civil::components(*s).2 as i128)),
        (Hour, RV::Dt(s, _)) => Ok(RV::Int(civil::components(*s).3 as i128)),
        (Minute, RV::Dt(s, _)) => Ok(RV::Int(civil::components(*s).4 as i128)),
        (Second, RV::Dt(s, _)) => Ok(RV::Int(civil::components(*s).5 as i128)),

        (Week | Day | Hour | Minute | Second, RV::Int(i)) => {
            let unit: i128 = unit_secs(op);
            if i64::try_from(*i).is_err() {
                return Err(RErr::Overflow);
            }
            match i.checked_mul(unit).and_then(|s| s.checked_mul(NS)) {
                Some(ns) if ns.abs() <= DUR_MAX_NS => Ok(RV::Dur(ns)),
                _ => Err(RErr::ValueOutOfBounds),
            }
        }
        (Week | Day | Hour | Minute | Second, RV::Dur(ns)) => Ok(RV::Int(ns / (unit_secs(op) * NS))),

        _ => Err(RErr::InvalidType),
    }
}

fn unit_secs(op: UnOp) -> i128 {
    match op {
        UnOp::Week => 604_800,
        UnOp::Day => 86_400,
        UnOp::Hour => 3_600,
        UnOp::Minute => 60,
        UnOp::Second => 1,
        _ => unreachable!(),
    }
}

fn dec_arith(op: BinOp, a: &RDec, b: &RDec) -> RRes {
    let (x, y) = (a.to_decimal(), b.to_decimal());
    let r = match op {
        BinOp::Add => x.checked_add(y),
        BinOp::Sub => x.checked_sub(y),
        BinOp::Mult => x.checked_mul(y),
        BinOp::Div => {
            if b.mant == 0 {
                return Err(RErr::DivisionByZero);
            }
            x.checked_div(y)
        }
        BinOp::Rem => {
            if b.mant == 0 {
                return Err(RErr::DivisionByZero);
            }
            return dec_rem_exact(a, b);
        }
        _ => unreachable!(),
    };
    r.map(RV::dec).ok_or(RErr::Overflow)
}

/// Exact decimal remainder (sign of the dividend), independent of rust_decimal: both mantissas are
/// brought to the larger scale as arbitrary-precision integers (base 10^9 limbs, schoolbook), the
/// remainder is taken there.  When it does not fit 96 bits at that scale the cell is left open.
fn dec_rem_exact(a: &RDec, b: &RDec) -> RRes {
    const BASE: u64 = 1_000_000_000;
    fn from_u128(mut v: u128) -> Vec<u64> {
        let mut out = Vec::new();
        while v > 0 {
            out.push((v % BASE as u128) as u64);
            v /= BASE as u128;
        }
        out
    }
    fn mul_small(x: &mut Vec<u64>, m: u64) {
        let mut carry = 0u64;
        for limb in x.iter_mut() {
            let t = *limb * m + carry;
            *limb = t % BASE;
            carry = t / BASE;
        }
        while carry > 0 {
            x.push(carry % BASE);
            carry /= BASE;
        }
    }
    fn cmp(x: &[u64], y: &[u64]) -> std::cmp::Ordering {
        let lx = x.iter().rposition(|l| *l != 0).map(|i| i + 1).unwrap_or(0);
        let ly = y.iter().rposition(|l| *l != 0).map(|i| i + 1).unwrap_or(0);
        lx.cmp(&ly).then_with(|| x[..lx].iter().rev().cmp(y[..ly].iter().rev()))
    }
    fn sub_assign(x: &mut Vec<u64>, y: &[u64]) {
        let mut borrow = 0i64;
        for i in 0..x.len() {
            let mut t = x[i] as i64 - borrow - *y.get(i).unwrap_or(&0) as i64;
            borrow = 0;
            if t < 0 {
                t += BASE as i64;
                borrow = 1;
            }
            x[i] = t as u64;
        }
    }
    fn to_u128(x: &[u64]) -> Option<u128> {
        let mut v: u128 = 0;
        for limb in x.iter().rev() {
            v = v.checked_mul(BASE as u128)?.checked_add(*limb as u128)?;
        }
        Some(v)
    }
    let scale = a.scale.max(b.scale);
    let mut x = from_u128(a.mant);
    for _ in 0..(scale - a.scale) {
        mul_small(&mut x, 10);
    }
    let mut y = from_u128(b.mant);
    for _ in 0..(scale - b.scale) {
        mul_small(&mut y, 10);
    }
    // x mod y by shift-and-subtract in base 10: y * 10^k for decreasing k
    let mut shifted: Vec<Vec<u64>> = vec![y.clone()];
    while cmp(shifted.last().unwrap(), &x) != std::cmp::Ordering::Greater {
        let mut n = shifted.last().unwrap().clone();
        mul_small(&mut n, 10);
        shifted.push(n);
    }
    for d in shifted.iter().rev() {
        while cmp(&x, d) != std::cmp::Ordering::Less {
            sub_assign(&mut x, d);
        }
    }
    match to_u128(&x) {
        Some(m) if m < (1u128 << 96) => Ok(RV::Dec(RDec { neg: a.neg && m != 0, mant: m, scale })),
        _ => Err(RErr::Unspecified),
    }
}

fn float_arith(op: BinOp, a: f64, b: f64) -> f64 {
    match op {
        BinOp::Add => a + b,
        BinOp::Sub => a - b,
        BinOp::Mult => a * b,
        BinOp::Div => a / b,
        BinOp::Rem => a % b,
        _ => unreachable!(),
    }
}

fn int_arith(op: BinOp, a: i128, b: i128) -> RRes {
    let r = match op {
        BinOp::Add => a.checked_add(b),
        BinOp::Sub => a.checked_sub(b),
        BinOp::Mult => a.checked_mul(b),
        BinOp::Div => {
            if b == 0 {
                return Err(RErr::DivisionByZero);
            }
            a.checked_div(b)
        }
        BinOp::Rem => {
            if b == 0 {
                return Err(RErr::DivisionByZero);
            }
            // i128::MIN % -1 is 0 mathematically
            Some(a.wrapping_rem(b))
        }
        _ => unreachable!(),
    };
    r.map(RV::Int).ok_or(RErr::Overflow)
}

fn is_leap_dt(v: &RV) -> bool {
    matches!(v, RV::Dt(_, n) if *n >= 1_000_000_000)
}

/// Apply a binary operator to two evaluated operands (laziness is the evaluator's business).
pub fn apply_bin(op: BinOp, l: &RV, r: &RV) -> RRes {
    use BinOp::*;
    let none_l = matches!(l, RV::None);
    let none_r = matches!(r, RV::None);
    match op {
        Mult | Div | Rem | Add | Sub => {
            match (l, r) {
                (RV::Int(a), RV::Int(b)) => return int_arith(op, *a, *b),
                (RV::Float(a), RV::Float(b)) => {
                    return Ok(RV::float(float_arith(op, f64::from_bits(*a), f64::from_bits(*b))))
                }
                (RV::Dec(a), RV::Dec(b)) => return dec_arith(op, a, b),
                _ => {}
            }
            if matches!(op, Add | Sub) {
                if let (RV::Dt(s, n), RV::Dur(d)) = (l, r) {
                    if is_leap_dt(l) {
                        return Err(RErr::Unspecified);
                    }
                    let t = dt_total(*s, *n);
                    return dt_from_total(if op == Add { t + d } else { t - d });
                }
            }
            if op == Sub {
                if let (RV::Dt(s1, n1), RV::Dt(s2, n2)) = (l, r) {
                    if is_leap_dt(l) || is_leap_dt(r) {
                        return Err(RErr::Unspecified);
                    }
                    return dur_checked(dt_total(*s1, *n1) - dt_total(*s2, *n2));
                }
                if let (RV::Dur(a), RV::Dur(b)) = (l, r) {
                    return dur_checked(a - b);
                }
            }
            if none_l || none_r {
                Ok(RV::None)
            } else {
                Err(RErr::InvalidType)
            }
        }
        Eq | Neq => {
            let e = if none_l { false } else { req(l, r) };
            Ok(RV::Bool(if op == Eq { e } else { !e }))
        }
        Gt | Gte | Lt | Lte => {
            use std::cmp::Ordering as O;
            let ord: Option<O> = match (l, r) {
                (RV::Int(a), RV::Int(b)) => Some(a.cmp(b)),
                (RV::Float(a), RV::Float(b)) => {
                    let (a, b) = (f64::from_bits(*a), f64::from_bits(*b));
                    match a.partial_cmp(&b) {
                        Some(o) => Some(o),
                        None => return Ok(RV::Bool(false)), // NaN: every ordering is false
                    }
                }
                (RV::Dec(a), RV::Dec(b)) => Some(a.to_decimal().cmp(&b.to_decimal())),
                (RV::Dt(a, b), RV::Dt(c, d)) => Some((a, b).cmp(&(c, d))),
                (RV::Dur(a), RV::Dur(b)) => Some(a.cmp(b)),
                _ => None,
            };
            match ord {
                Some(o) => Ok(RV::Bool(match op {
                    Gt => o == O::Greater,
                    Gte => o != O::Less,
                    Lt => o == O::Less,
                    Lte => o != O::Greater,
                    _ => unreachable!(),
                })),
                None if none_l || none_r => Ok(RV::Bool(false)),
                None => Err(RErr::InvalidType),
            }
        }
        And | Or => {
            let lb = match l {
                RV::Bool(b) => *b,
                _ => return Err(RErr::InvalidType),
            };
            if (op == And && !lb) || (op == Or && lb) {
                return Ok(RV::Bool(lb));
            }
            match r {
                RV::Bool(b) => Ok(RV::Bool(*b)),
                _ => Err(RErr::InvalidType),
            }
        }
        BitAnd | BitOr | BitXor => match (l, r) {
            (RV::Int(a), RV::Int(b)) => Ok(RV::Int(match op {
                BitAnd => a & b,
                BitOr => a | b,
                _ => a ^ b,
            })),
            (RV::Bool(a), RV::Bool(b)) => Ok(RV::Bool(match op {
                BitAnd => a & b,
                BitOr => a | b,
                _ => a ^ b,
            })),
            _ if none_l || none_r => Ok(RV::None),
            _ => Err(RErr::InvalidType),
        },
        Contains => match (l, r) {
            (RV::Map(m), RV::Str(k)) => Ok(RV::Bool(m.contains_key(k))),
            (RV::List(v), x) => Ok(RV::Bool(v.iter().any(|e| req(e, x)))),
            (RV::Str(c), RV::Str(x)) => Ok(RV::Bool(c.contains(x.as_str()))),
            (RV::Int(c), RV::Int(x)) => Ok(RV::Bool(c & x != 0)),
            (RV::None, _) => Ok(RV::Bool(false)),
            _ => Err(RErr::InvalidType),
        },
    }
}

pub fn apply_index_field(v: &RV, f: &str) -> RRes {
    match v {
        RV::Map(m) => Ok(m.get(f).cloned().unwrap_or(RV::None)),
        RV::None => Ok(RV::None),
        _ => Err(RErr::InvalidType),
    }
}

pub fn apply_index_pos(v: &RV, n: usize) -> RRes {
    match v {
        RV::List(l) => Ok(l.get(n).cloned().unwrap_or(RV::None)),
        RV::None => Ok(RV::None),
        _ => Err(RErr::InvalidType),
    }
}

/// Environment of an evaluation: input, symbols, user functions (which may log and script answers).
pub trait Env {
    fn facts(&self) -> &RV;
    fn symbol(&self, name: &str) -> Option<RV>;
    fn call(&mut self, name: &str, arg: &RV) -> RRes;
}

pub struct PlainEnv {
    pub facts: RV,
    pub symbols: BTreeMap<String, RV>,
}

impl Env for PlainEnv {
    fn facts(&self) -> &RV {
        &self.facts
    }
    fn symbol(&self, name: &str) -> Option<RV> {
        self.symbols.get(name).cloned()
    }
    fn call(&mut self, name: &str, _arg: &RV) -> RRes {
        Err(RErr::UnknownUserFunction(name.to_string()))
    }
}

/// Reference evaluation: lazy where the language says so, otherwise once, left to right, first
/// error wins.
pub fn eval(e: &RE, env: &mut dyn Env) -> RRes {
    match e {
        RE::Val(v) => Ok(v.clone()),
        RE::Ref(name) => {
            if name == "facts" {
                return Ok(env.facts().clone());
            }
            match env.facts() {
                RV::Map(m) => m.get(name).cloned().ok_or_else(|| RErr::UnknownRef(name.clone())),
                _ => Err(RErr::InvalidType),
            }
        }
        RE::Sym(name) => env.symbol(name).ok_or_else(|| RErr::InvalidSymbol(name.clone())),
        RE::Call(name, arg) => {
            let a = eval(arg, env)?;
            env.call(name, &a)
        }
        RE::IdxF(x, f) => apply_index_field(&eval(x, env)?, f),
        RE::IdxN(x, n) => apply_index_pos(&eval(x, env)?, *n),
        RE::If(c, t, f) => match eval(c, env)? {
            RV::Bool(true) => eval(t, env),
            RV::Bool(false) => eval(f, env),
            _ => Err(RErr::InvalidType),
        },
        RE::Map(m) => {
            let mut out = BTreeMap::new();
            for (k, v) in m {
                out.insert(k.clone(), eval(v, env)?);
            }
            Ok(RV::Map(out))
        }
        RE::List(v) => {
            let mut out = Vec::new();
            for x in v {
                out.push(eval(x, env)?);
            }
            Ok(RV::List(out))
        }
        RE::Un(op, x) => apply_un(*op, &eval(x, env)?),
        RE::Bin(op, l, r) => {
            let lv = eval(l, env)?;
            match op {
                BinOp::And | BinOp::Or => {
                    let lb = match lv {
                        RV::Bool(b) => b,
                        _ => return Err(RErr::InvalidType),
                    };
                    if (*op == BinOp::And && !lb) || (*op == BinOp::Or && lb) {
                        return Ok(RV::Bool(lb));
                    }
                    match eval(r, env)? {
                        RV::Bool(b) => Ok(RV::Bool(b)),
                        _ => Err(RErr::InvalidType),
                    }
                }
                BinOp::Eq | BinOp::Neq if matches!(lv, RV::None) => Ok(RV::Bool(*op == BinOp::Neq)),
                _ => {
                    let rv = eval(r, env)?;
                    apply_bin(*op, &lv, &rv)
                }
            }
        }
    }
}

/// What the implementation was observed to do.
#[derive(Clone, Debug, PartialEq, Eq, Hash, PartialOrd, Ord)]
pub enum Obs {
    Ok(RV),
    Err(OErr),
    Panic(String),
}

/// Observed error: variant + the payloads the properties speak about.
#[derive(Clone, Debug, PartialEq, Eq, Hash, PartialOrd, Ord)]
pub enum OErr {
    InvalidType,
    InvalidCast(RV),
    UnknownRef(String),
    UnknownIndex(String),
    UnknownUserFunction(String),
    UserFunctionError(String, Option<u64>, String),
    ValueOutOfBounds(RV),
    DivisionByZero,
    InvalidSymbol(String),
    NumericOverflow,
    UnexpectedValueType(RV),
    Other(String),
}

/// marker error type injected by harness user functions; found again by downcast
#[derive(Debug)]
pub struct Injected(pub u64);
impl std::fmt::Display for Injected {
    fn fmt(&self, f: &mut std::fmt::Formatter<'_>) -> std::fmt::Result {
        write!(f, "injected failure #{}", self.0)
    }
}
impl std::error::Error for Injected {}

pub fn observe_err(e: &reval::Error) -> OErr {
    use reval::Error as E;
    match e {
        E::InvalidType => OErr::InvalidType,
        E::InvalidCast(v, _) => OErr::InvalidCast(RV::from_value(v)),
        E::UnknownRef(n) => OErr::UnknownRef(n.clone()),
        E::UnknownIndex(n) => OErr::UnknownIndex(n.clone()),
        E::UnknownUserFunction(n) => OErr::UnknownUserFunction(n.clone()),
        E::UserFunctionError { function, error } => OErr::UserFunctionError(
            function.clone(),
            // the injected error is found again by downcast: either the harness's own error type or
            // a reval error of an inner ruleset, whose function name carries the token
            error.downcast_ref::<Injected>().map(|i| i.0).or_else(|| error.downcast_ref::<std::io::Error>().and_then(|e| e.get_ref()).and_then(|i| i.downcast_ref::<Injected>()).map(|i| i.0)).or_else(|| match error.downcast_ref::<reval::Error>() {
                Some(E::UserFunctionError { function: inner, .. }) => inner.strip_prefix("inner#").and_then(|t| t.parse().ok()),
                // a failed conversion inside the user function (`param.try_into()?`), token in the value
                Some(E::UnexpectedValueType(reval::value::Value::Int(t), who)) if who == "harness" => u64::try_from(*t).ok(),
                Some(E::UnexpectedValueType(reval::value::Value::None, who)) => who.strip_prefix("harness#").and_then(|t| t.parse().ok()),
                _ => None,
            }),
            // the message and what the carried error still *is* (a caller may downcast it)
            format!(
                "{error} <{}>",
                if error.is::<Injected>() {
                    "harness error".to_string()
                } else if let Some(io) = error.downcast_ref::<std::io::Error>() {
                    format!("io::Error {:?}", io.kind())
                } else if let Some(r) = error.downcast_ref::<reval::Error>() {
                    format!("reval::Error::{}", format!("{r:?}").split(['(', ' ', '{']).next().unwrap_or(""))
                } else {
                    "opaque".to_string()
                }
            ),
        ),
        E::ValueOutOfBounds(v, _) => OErr::ValueOutOfBounds(RV::from_value(v)),
        E::DivisionByZero => OErr::DivisionByZero,
        E::InvalidSymbol(n) => OErr::InvalidSymbol(n.clone()),
        E::NumericOverflow(_) => OErr::NumericOverflow,
        E::UnexpectedValueType(v, _) => OErr::UnexpectedValueType(RV::from_value(v)),
        E::InvalidFunctionName(n) => OErr::Other(format!("InvalidFunctionName({n})")),
        E::DuplicateFunctionName(n) => OErr::Other(format!("DuplicateFunctionName({n})")),
        E::DuplicateRuleName(n) => OErr::Other(format!("DuplicateRuleName({n})")),
        E::ValueSerializationError(n) => OErr::Other(format!("ValueSerializationError({n})")),
        // a variant added by a later version of reval
        #[allow(unreachable_patterns)]
        other => OErr::Other(format!("{other:?}")),
    }
}

pub fn observe(r: Result<Result<reval::value::Value, reval::Error>, String>) -> Obs {
    match r {
        Err(p) => Obs::Panic(p),
        Ok(Ok(v)) => Obs::Ok(RV::from_value(&v)),
        Ok(Err(e)) => Obs::Err(observe_err(&e)),
    }
}

impl OErr {
    pub fn class(&self) -> &'static str {
        match self {
            OErr::InvalidType => "InvalidType",
            OErr::InvalidCast(_) => "InvalidCast",
            OErr::UnknownRef(_) => "UnknownRef",
            OErr::UnknownIndex(_) => "UnknownIndex",
            OErr::UnknownUserFunction(_) => "UnknownUserFunction",
            OErr::UserFunctionError(..) => "UserFunctionError",
            OErr::ValueOutOfBounds(_) => "ValueOutOfBounds",
            OErr::DivisionByZero => "DivisionByZero",
            OErr::InvalidSymbol(_) => "InvalidSymbol",
            OErr::NumericOverflow => "NumericOverflow",
            OErr::UnexpectedValueType(_) => "UnexpectedValueType",
            OErr::Other(_) => "Other",
        }
    }
}

impl Obs {
    pub fn class(&self) -> String {
        match self {
            Obs::Ok(v) => format!("Ok:{}", v.ty().name()),
            Obs::Err(e) => format!("Err:{}", e.class()),
            Obs::Panic(_) => "Panic".into(),
        }
    }
    pub fn show(&self) -> String {
        match self {
            Obs::Ok(v) => format!("Ok({})", v.show()),
            Obs::Err(e) => format!("Err({e:?})"),
            Obs::Panic(m) => format!("PANIC({m})"),
        }
    }
}

pub fn show_exp(e: &RRes) -> String {
    match e {
        Ok(v) => format!("Ok({})", v.show()),
        Err(RErr::Overflow) => "Err(<any error: result not representable>)".into(),
        Err(RErr::Unspecified) => "<unspecified>".into(),
        Err(e) => format!("Err({e:?})"),
    }
}

/// Does the observation satisfy the expectation?  `None` = expectation is unspecified (skip).
pub fn conforms(exp: &RRes, obs: &Obs) -> Option<bool> {
    Some(match (exp, obs) {
        (_, Obs::Panic(_)) => false,
        (Err(RErr::Unspecified), _) => return None,
        (Ok(a), Obs::Ok(b)) => a.canon() == b.canon(),
        (Ok(_), Obs::Err(_)) => false,
        (Err(_), Obs::Ok(_)) => false,
        (Err(e), Obs::Err(o)) => match (e, o) {
            (RErr::Overflow, OErr::DivisionByZero | OErr::InvalidType) => false,
            (RErr::Overflow, _) => true,
            (RErr::InvalidType, OErr::InvalidType) => true,
            (RErr::InvalidCast, OErr::InvalidCast(_)) => true,
            (RErr::ValueOutOfBounds, OErr::ValueOutOfBounds(_)) => true,
            (RErr::DivisionByZero, OErr::DivisionByZero) => true,
            (RErr::UnknownRef(a), OErr::UnknownRef(b)) => a == b,
            (RErr::InvalidSymbol(a), OErr::InvalidSymbol(b)) => a == b,
            (RErr::UnknownUserFunction(a), OErr::UnknownUserFunction(b)) => a == b,
            (RErr::UserFunctionError(f, t), OErr::UserFunctionError(g, u, _)) => f == g && Some(*t) == *u,
            _ => false,
        },
    })
}

pub fn f64_of(v: &RV) -> f64 {
    match v {
        RV::Float(b) => f64::from_bits(*b),
        _ => f64::NAN,
    }
}

#[allow(dead_code)]
fn _unused(_: u64) -> u64 {
    fbits(0.0)
}
