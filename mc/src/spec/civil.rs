//! Days-since-epoch → civil date (Howard Hinnant's algorithm), so calendar components are computed
//! without chrono.
pub fn civil_from_days(z: i64) -> (i64, u32, u32) {
    let z = z + 719_468;
    let era = z.div_euclid(146_097);
    let doe = z.rem_euclid(146_097); // [0, 146096]
    let yoe = (doe - doe / 1_460 + doe / 36_524 - doe / 146_096) / 365; // [0, 399]
    let y = yoe + era * 400;
    let doy = doe - (365 * yoe + yoe / 4 - yoe / 100); // [0, 365]
    let mp = (5 * doy + 2) / 153; // [0, 11]
    let d = (doy - (153 * mp + 2) / 5 + 1) as u32; // [1, 31]
    let m = if mp < 10 { mp + 3 } else { mp - 9 } as u32; // [1, 12]
    (if m <= 2 { y + 1 } else { y }, m, d)
}

/// (year, month, day, hour, minute, second) of a UTC timestamp
pub fn components(secs: i64) -> (i64, u32, u32, u32, u32, u32) {
    let days = secs.div_euclid(86_400);
    let sod = secs.rem_euclid(86_400);
    let (y, m, d) = civil_from_days(days);
    (y, m, d, (sod / 3600) as u32, ((sod % 3600) / 60) as u32, (sod % 60) as u32)
}

#[cfg(test)]
mod tests {
    use super::*;
    #[test]
    fn known_dates() {
        assert_eq!(components(0), (1970, 1, 1, 0, 0, 0));
        assert_eq!(components(1438226773), (2015, 7, 30, 3, 26, 13));
        assert_eq!(components(-1), (1969, 12, 31, 23, 59, 59));
        assert_eq!(components(951782400), (2000, 2, 29, 0, 0, 0));
    }
}
