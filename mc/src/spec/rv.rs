//! `RV` — mirror of `reval::value::Value` with canonical, hashable payloads.
use chrono::{DateTime, TimeDelta, Utc};
use reval::value::Value;
use rust_decimal::Decimal;
use serde_json::{json, Value as J};
use std::collections::BTreeMap;

#[derive(Clone, Debug, PartialEq, Eq, Hash, PartialOrd, Ord)]
pub struct RDec {
    pub neg: bool,
    pub mant: u128,
    pub scale: u32,
}

impl RDec {
    pub fn from_decimal(d: &Decimal) -> RDec {
        let m = d.mantissa();
        RDec { neg: d.is_sign_negative() && m != 0, mant: m.unsigned_abs(), scale: d.scale() }
    }
    pub fn to_decimal(&self) -> Decimal {
        let lo = (self.mant & 0xffff_ffff) as u32;
        let mid = ((self.mant >> 32) & 0xffff_ffff) as u32;
        let hi = ((self.mant >> 64) & 0xffff_ffff) as u32;
        Decimal::from_parts(lo, mid, hi, self.neg, self.scale)
    }
    /// digits as written in a literal (no prefix)
    pub fn to_text(&self) -> String {
        let digits = self.mant.to_string();
        let s = self.scale as usize;
        let body = if s == 0 {
            digits
        } else if digits.len() > s {
            format!("{}.{}", &digits[..digits.len() - s], &digits[digits.len() - s..])
        } else {
            format!("0.{}{}", "0".repeat(s - digits.len()), digits)
        };
        if self.neg {
            format!("-{body}")
        } else {
            body
        }
    }
}

pub const NAN_BITS: u64 = 0x7ff8_0000_0000_0000;

#[derive(Clone, Debug, PartialEq, Eq, Hash, PartialOrd, Ord)]
pub enum RV {
    Str(String),
    Int(i128),
    /// IEEE bits; every NaN is canonicalised to NAN_BITS
    Float(u64),
    Dec(RDec),
    Bool(bool),
    /// seconds since the epoch, sub-second nanoseconds (may be >= 1e9 for a leap second)
    Dt(i64, u32),
    /// total nanoseconds
    Dur(i128),
    List(Vec<RV>),
    Map(BTreeMap<String, RV>),
    None,
}

#[derive(Clone, Copy, Debug, PartialEq, Eq, Hash, PartialOrd, Ord)]
pub enum Ty {
    Str,
    Int,
    Float,
    Dec,
    Bool,
    Dt,
    Dur,
    List,
    Map,
    None,
}

pub const ALL_TYPES: [Ty; 10] =
    [Ty::Str, Ty::Int, Ty::Float, Ty::Dec, Ty::Bool, Ty::Dt, Ty::Dur, Ty::List, Ty::Map, Ty::None];

impl Ty {
    pub fn name(self) -> &'static str {
        match self {
            Ty::Str => "Str",
            Ty::Int => "Int",
            Ty::Float => "Float",
            Ty::Dec => "Dec",
            Ty::Bool => "Bool",
            Ty::Dt => "DateTime",
            Ty::Dur => "Duration",
            Ty::List => "List",
            Ty::Map => "Map",
            Ty::None => "None",
        }
    }
}

pub fn fbits(f: f64) -> u64 {
    if f.is_nan() {
        NAN_BITS
    } else {
        f.to_bits()
    }
}

impl RV {
    pub fn float(f: f64) -> RV {
        RV::Float(fbits(f))
    }
    pub fn dec(d: Decimal) -> RV {
        RV::Dec(RDec::from_decimal(&d))
    }
    pub fn str(s: &str) -> RV {
        RV::Str(s.to_string())
    }
    pub fn dt(d: &DateTime<Utc>) -> RV {
        RV::Dt(d.timestamp(), d.timestamp_subsec_nanos())
    }
    pub fn dur(d: &TimeDelta) -> RV {
        RV::Dur(d.num_seconds() as i128 * 1_000_000_000 + d.subsec_nanos() as i128)
    }
    pub fn map(items: &[(&str, RV)]) -> RV {
        RV::Map(items.iter().map(|(k, v)| (k.to_string(), v.clone())).collect())
    }
    pub fn ty(&self) -> Ty {
        match self {
            RV::Str(_) => Ty::Str,
            RV::Int(_) => Ty::Int,
            RV::Float(_) => Ty::Float,
            RV::Dec(_) => Ty::Dec,
            RV::Bool(_) => Ty::Bool,
            RV::Dt(..) => Ty::Dt,
            RV::Dur(_) => Ty::Dur,
            RV::List(_) => Ty::List,
            RV::Map(_) => Ty::Map,
            RV::None => Ty::None,
        }
    }
    /// numeric canonical form: decimals lose trailing fractional zeros (d1.50 == d1.5), recursively.
    /// Used where the language only defines the *number* (operator results), not its scale.
    pub fn canon(&self) -> RV {
        match self {
            RV::Dec(d) => {
                let (mut m, mut s) = (d.mant, d.scale);
                while s > 0 && m % 10 == 0 {
                    m /= 10;
                    s -= 1;
                }
                RV::Dec(RDec { neg: d.neg && m != 0, mant: m, scale: s })
            }
            RV::List(v) => RV::List(v.iter().map(|x| x.canon()).collect()),
            RV::Map(m) => RV::Map(m.iter().map(|(k, v)| (k.clone(), v.canon())).collect()),
            other => other.clone(),
        }
    }
    pub fn as_f64(&self) -> Option<f64> {
        match self {
            RV::Float(b) => Some(f64::from_bits(*b)),
            _ => None,
        }
    }

    /// exhaustive conversion from reval's value
    pub fn from_value(v: &Value) -> RV {
        match v {
            Value::String(s) => RV::Str(s.clone()),
            Value::Int(i) => RV::Int(*i),
            Value::Float(f) => RV::float(*f),
            Value::Decimal(d) => RV::dec(*d),
            Value::Bool(b) => RV::Bool(*b),
            Value::DateTime(d) => RV::dt(d),
            Value::Duration(d) => RV::dur(d),
            Value::Vec(v) => RV::List(v.iter().map(RV::from_value).collect()),
            Value::Map(m) => RV::Map(m.iter().map(|(k, v)| (k.clone(), RV::from_value(v))).collect()),
            Value::None => RV::None,
        }
    }

    pub fn to_value(&self) -> Value {
        match self {
            RV::Str(s) => Value::String(s.clone()),
            RV::Int(i) => Value::Int(*i),
            RV::Float(b) => Value::Float(f64::from_bits(*b)),
            RV::Dec(d) => Value::Decimal(d.to_decimal()),
            RV::Bool(b) => Value::Bool(*b),
            RV::Dt(s, n) => Value::DateTime(DateTime::from_timestamp(*s, *n).expect("RV::Dt out of chrono range")),
            RV::Dur(ns) => Value::Duration(dur_from_ns(*ns).expect("RV::Dur out of chrono range")),
            RV::List(v) => Value::Vec(v.iter().map(RV::to_value).collect()),
            RV::Map(m) => Value::Map(m.iter().map(|(k, v)| (k.clone(), v.to_value())).collect()),
            RV::None => Value::None,
        }
    }

    /// DSL text denoting this value, if a literal (or literal list/map) syntax exists.
    pub fn literal_text(&self) -> Option<String> {
        match self {
            RV::Str(s) => Some(quote_string(s)),
            RV::Int(i) => Some(format!("i{i}")),
            RV::Float(b) => {
                let f = f64::from_bits(*b);
                if f.is_finite() {
                    Some(format!("f{}", f))
                } else {
                    None
                }
            }
            RV::Dec(d) => Some(format!("d{}", d.to_text())),
            RV::Bool(b) => Some(format!("{b}")),
            RV::None => Some("none".to_string()),
            RV::List(v) => {
                let parts: Option<Vec<String>> = v.iter().map(|x| x.literal_text()).collect();
                parts.map(|p| format!("[{}]", p.join(", ")))
            }
            RV::Map(m) => {
                let mut parts = Vec::new();
                for (k, v) in m {
                    if !is_ident(k) {
                        return None;
                    }
                    parts.push(format!("{k}: {}", v.literal_text()?));
                }
                Some(format!("{{{}}}", parts.join(", ")))
            }
            RV::Dt(..) | RV::Dur(_) => None,
        }
    }

    pub fn to_json(&self) -> J {
        match self {
            RV::Str(s) => json!({"str": s}),
            RV::Int(i) => json!({"int": i.to_string()}),
            RV::Float(b) => json!({"float_bits": format!("{b:016x}"), "approx": format!("{:?}", f64::from_bits(*b))}),
            RV::Dec(d) => json!({"dec": d.to_text(), "neg": d.neg, "mant": d.mant.to_string(), "scale": d.scale}),
            RV::Bool(b) => json!({"bool": b}),
            RV::Dt(s, n) => json!({"dt_secs": s, "dt_nanos": n}),
            RV::Dur(ns) => json!({"dur_ns": ns.to_string()}),
            RV::List(v) => json!({"list": v.iter().map(|x| x.to_json()).collect::<Vec<_>>()}),
            RV::Map(m) => json!({"map": m.iter().map(|(k, v)| (k.clone(), v.to_json())).collect::<serde_json::Map<_, _>>()}),
            RV::None => json!("none"),
        }
    }

    pub fn from_json(j: &J) -> Option<RV> {
        if j.as_str() == Some("none") {
            return Some(RV::None);
        }
        let o = j.as_object()?;
        if let Some(s) = o.get("str") {
            return Some(RV::Str(s.as_str()?.to_string()));
        }
        if let Some(s) = o.get("int") {
            return Some(RV::Int(s.as_str()?.parse().ok()?));
        }
        if let Some(s) = o.get("float_bits") {
            return Some(RV::Float(u64::from_str_radix(s.as_str()?, 16).ok()?));
        }
        if o.contains_key("dec") {
            return Some(RV::Dec(RDec {
                neg: o.get("neg")?.as_bool()?,
                mant: o.get("mant")?.as_str()?.parse().ok()?,
                scale: o.get("scale")?.as_u64()? as u32,
            }));
        }
        if let Some(b) = o.get("bool") {
            return Some(RV::Bool(b.as_bool()?));
        }
        if let Some(s) = o.get("dt_secs") {
            return Some(RV::Dt(s.as_i64()?, o.get("dt_nanos")?.as_u64()? as u32));
        }
        if let Some(s) = o.get("dur_ns") {
            return Some(RV::Dur(s.as_str()?.parse().ok()?));
        }
        if let Some(l) = o.get("list") {
            return l.as_array()?.iter().map(RV::from_json).collect::<Option<Vec<_>>>().map(RV::List);
        }
        if let Some(m) = o.get("map") {
            let mut out = BTreeMap::new();
            for (k, v) in m.as_object()? {
                out.insert(k.clone(), RV::from_json(v)?);
            }
            return Some(RV::Map(out));
        }
        None
    }

    /// short human-readable form for signatures and messages
    pub fn show(&self) -> String {
        match self {
            RV::Str(s) => format!("{s:?}"),
            RV::Int(i) => format!("i{i}"),
            RV::Float(b) => format!("f{:?}", f64::from_bits(*b)),
            RV::Dec(d) => format!("d{}", d.to_text()),
            RV::Bool(b) => format!("{b}"),
            RV::Dt(s, n) => format!("dt({s}s+{n}ns)"),
            RV::Dur(ns) => format!("dur({ns}ns)"),
            RV::List(v) => format!("[{}]", v.iter().map(|x| x.show()).collect::<Vec<_>>().join(", ")),
            RV::Map(m) => format!(
                "{{{}}}",
                m.iter().map(|(k, v)| format!("{k}: {}", v.show())).collect::<Vec<_>>().join(", ")
            ),
            RV::None => "none".into(),
        }
    }
}

pub fn dur_from_ns(ns: i128) -> Option<TimeDelta> {
    let secs = ns.div_euclid(1_000_000_000);
    let nanos = ns.rem_euclid(1_000_000_000) as u32;
    let secs = i64::try_from(secs).ok()?;
    TimeDelta::new(secs, nanos)
}

pub fn is_ident(s: &str) -> bool {
    let mut c = s.chars();
    match c.next() {
        Some(f) if f.is_ascii_alphabetic() => c.all(|x| x.is_ascii_alphanumeric() || x == '_'),
        _ => false,
    }
}

/// reference quoting: escape exactly `"` and `\`; everything else verbatim
pub fn quote_string(s: &str) -> String {
    let mut out = String::with_capacity(s.len() + 2);
    out.push('"');
    for c in s.chars() {
        match c {
            '"' => out.push_str("\\\""),
            '\\' => out.push_str("\\\\"),
            c => out.push(c),
        }
    }
    out.push('"');
    out
}
