mod checks;
mod engine;
mod spec;

use engine::report::Tier;

fn usage() -> ! {
    eprintln!("usage: mc <C01..C19> <quick|thorough> | mc replay <file>");
    std::process::exit(2)
}

fn main() {
    // anyhow captures a backtrace (global lock, slow) for every injected error when this is on
    let args: Vec<String> = std::env::args().collect();
    // context children keep the environment they were given (that is what they are run for)
    if args.len() >= 3 && args[1] == "ctx-child" {
        checks::context::child(&args[2..]);
    }
    std::env::set_var("RUST_LIB_BACKTRACE", "0");
    engine::panic::install_hook();
    if args.len() >= 6 && args[1] == "c19-child" {
        checks::c19::child(&args[2..]);
    }
    if args.len() < 3 {
        usage();
    }
    let code = if args[1] == "replay" {
        replay(&args[2])
    } else {
        let tier = match args[2].as_str() {
            "quick" => Tier::Quick,
            "thorough" => Tier::Thorough,
            _ => usage(),
        };
        run(&args[1], tier)
    };
    std::process::exit(code)
}

fn run(prop: &str, tier: Tier) -> i32 {
    use checks::valuespace::Prop;
    match prop {
        "C01" => checks::valuespace::run(Prop::C01, tier),
        "C02" => checks::valuespace::run(Prop::C02, tier),
        "C03" => checks::valuespace::run(Prop::C03, tier),
        "C04" => checks::valuespace::run(Prop::C04, tier),
        "C05" => checks::c05::run(tier),
        "C06" => checks::c06::run(tier),
        "C07" => checks::c07::run(tier),
        "C08" => checks::c08::run(tier),
        "C09" => checks::c09::run(tier),
        "C10" => checks::c10::run(tier),
        "C11" => checks::c11::run(tier),
        "C12" => checks::c12::run(tier),
        "C13" => checks::c13::run(tier),
        "C14" => checks::c14::run(tier),
        "C15" => checks::c15::run(tier),
        "C16" => checks::c16::run(tier),
        "C17" => checks::c17::run(tier),
        "C18" => checks::c18::run(tier),
        "C19" => checks::c19::run(tier),
        _ => {
            eprintln!("unknown property {prop}");
            2
        }
    }
}

fn replay(path: &str) -> i32 {
    use checks::valuespace::Prop;
    let text = match std::fs::read_to_string(path) {
        Ok(t) => t,
        Err(e) => {
            eprintln!("cannot read {path}: {e}");
            return 2;
        }
    };
    let j: serde_json::Value = match serde_json::from_str(&text) {
        Ok(j) => j,
        Err(e) => {
            eprintln!("cannot parse {path}: {e}");
            return 2;
        }
    };
    let prop = j.get("property").and_then(|p| p.as_str()).unwrap_or("");
    let case = j.get("case").cloned().unwrap_or(serde_json::Value::Null);
    match prop {
        "C01" => checks::valuespace::replay(Prop::C01, &case),
        "C02" => checks::valuespace::replay(Prop::C02, &case),
        "C03" => checks::valuespace::replay(Prop::C03, &case),
        "C04" => checks::valuespace::replay(Prop::C04, &case),
        "C05" => checks::c05::replay(&case),
        "C06" | "C07" => checks::c07::replay(&case),
        "C08" => checks::c08::replay(&case),
        "C09" => checks::c09::replay(&case),
        "C10" => checks::c10::replay(&case),
        "C11" => checks::c11::replay(&case),
        "C12" => checks::c12::replay(&case),
        "C13" => checks::c13::replay(&case),
        "C14" => checks::c14::replay(&case),
        "C15" => checks::c15::replay(&case),
        "C16" => checks::c16::replay(&case),
        "C17" => checks::c17::replay(&case),
        "C18" => checks::c18::replay(&case),
        "C19" => checks::c19::replay(&case),
        _ => {
            eprintln!("unknown property in replay file");
            2
        }
    }
}
