//! Exploration engines and plumbing shared by all checks.
pub mod choice;
pub mod exec;
pub mod panic;
pub mod report;
