//! Evidence, violations, known findings, replay files, exit codes.
use serde_json::{json, Map, Value as J};
use std::collections::{BTreeMap, BTreeSet};
use std::path::PathBuf;
use std::io::Write;
use std::time::Instant;

/// println! that does not panic when stdout has been closed
macro_rules! out {
    ($($arg:tt)*) => {{
        let _ = writeln!(std::io::stdout(), $($arg)*);
    }};
}

/// root of the verification tree (evidence, replays, known findings); `/verif` unless a
/// background run points the harness at a snapshot
pub fn verif_dir() -> String {
    std::env::var("VERIF_DIR").unwrap_or_else(|_| "/verif".to_string())
}
pub fn repo_dir() -> String {
    std::env::var("VERIF_REPO").unwrap_or_else(|_| "/repo".to_string())
}
pub fn target_dir() -> String {
    std::env::var("VERIF_TARGET").unwrap_or_else(|_| "/verif/target".to_string())
}

#[derive(Clone, Copy, PartialEq, Eq, Debug)]
pub enum Tier {
    Quick,
    Thorough,
}
impl Tier {
    pub fn name(self) -> &'static str {
        match self {
            Tier::Quick => "quick",
            Tier::Thorough => "thorough",
        }
    }
    pub fn pick<T>(self, quick: T, thorough: T) -> T {
        match self {
            Tier::Quick => quick,
            Tier::Thorough => thorough,
        }
    }
}

#[derive(Clone, Debug)]
pub struct Violation {
    /// canonical signature: identifies the violation across runs and in KNOWN_FINDINGS.txt
    pub sig: String,
    /// one-line human description (observed vs expected)
    pub what: String,
    /// replayable case (check-specific JSON, must contain "kind")
    pub case: J,
    /// size used to keep the smallest case per signature
    pub size: usize,
}

/// Mergeable accumulator used by parallel workers.
#[derive(Default, Clone)]
pub struct Acc {
    pub counters: BTreeMap<String, u64>,
    pub outcomes: BTreeSet<String>,
    pub samples: BTreeMap<String, Vec<J>>,
    pub violations: BTreeMap<String, Violation>,
    pub machinery_errors: Vec<String>,
}

pub const MAX_VIOLATION_SIGS: usize = 400;
const MAX_OUTCOMES: usize = 5000;

impl Acc {
    pub fn new() -> Self {
        Self::default()
    }
    pub fn count(&mut self, key: &str, n: u64) {
        *self.counters.entry(key.to_string()).or_insert(0) += n;
    }
    pub fn get(&self, key: &str) -> u64 {
        self.counters.get(key).copied().unwrap_or(0)
    }
    pub fn outcome(&mut self, class: impl Into<String>) {
        if self.outcomes.len() < MAX_OUTCOMES {
            self.outcomes.insert(class.into());
        }
    }
    /// keep up to `cap` samples per group
    pub fn sample(&mut self, group: &str, cap: usize, make: impl FnOnce() -> J) {
        let v = self.samples.entry(group.to_string()).or_default();
        if v.len() < cap {
            v.push(make());
        }
    }
    pub fn violation(&mut self, v: Violation) {
        match self.violations.get(&v.sig) {
            Some(old) if old.size <= v.size => {}
            _ => {
                if self.violations.len() < MAX_VIOLATION_SIGS || self.violations.contains_key(&v.sig) {
                    self.violations.insert(v.sig.clone(), v);
                } else {
                    self.count("violations_beyond_signature_cap", 1);
                }
            }
        }
        self.count("violating_cases", 1);
    }
    pub fn machinery(&mut self, msg: impl Into<String>) {
        if self.machinery_errors.len() < 20 {
            self.machinery_errors.push(msg.into());
        }
    }
    pub fn merge(mut self, o: Acc) -> Acc {
        for (k, n) in o.counters {
            *self.counters.entry(k).or_insert(0) += n;
        }
        for c in o.outcomes {
            if self.outcomes.len() < MAX_OUTCOMES {
                self.outcomes.insert(c);
            }
        }
        for (g, s) in o.samples {
            let v = self.samples.entry(g).or_default();
            for x in s {
                if v.len() < 6 {
                    v.push(x);
                }
            }
        }
        for (_, v) in o.violations {
            // do not double count
            let before = self.get("violating_cases");
            self.violation(v);
            self.counters.insert("violating_cases".into(), before);
        }
        for m in o.machinery_errors {
            self.machinery(m);
        }
        self
    }
}

pub struct KnownFindings {
    /// (property, key) -> description
    pub findings: BTreeMap<(String, String), String>,
    pub fixed: Vec<(String, String)>,
}

impl KnownFindings {
    pub fn load() -> Self {
        let mut findings = BTreeMap::new();
        let mut fixed = Vec::new();
        let text = std::fs::read_to_string(format!("{}/KNOWN_FINDINGS.txt", verif_dir())).unwrap_or_default();
        for line in text.lines() {
            let line = line.trim();
            if let Some(rest) = line.strip_prefix("finding:") {
                let rest = rest.trim();
                let mut prop = String::new();
                let mut key = String::new();
                let mut desc = Vec::new();
                for tok in rest.split(' ') {
                    if let Some(p) = tok.strip_prefix("property=") {
                        if prop.is_empty() {
                            prop = p.to_string();
                            continue;
                        }
                    }
                    if let Some(k) = tok.strip_prefix("key=") {
                        if key.is_empty() {
                            key = k.to_string();
                            continue;
                        }
                    }
                    desc.push(tok);
                }
                findings.insert((prop, key), desc.join(" "));
            } else if let Some(rest) = line.strip_prefix("fixed:") {
                let rest = rest.trim();
                let prop = rest
                    .split(' ')
                    .find_map(|t| t.strip_prefix("property="))
                    .unwrap_or("")
                    .to_string();
                fixed.push((prop, rest.to_string()));
            }
        }
        KnownFindings { findings, fixed }
    }
    pub fn lookup(&self, prop: &str, key: &str) -> Option<&String> {
        self.findings.get(&(prop.to_string(), key.to_string()))
    }
}

pub struct Report {
    pub prop: &'static str,
    pub tier: Tier,
    pub start: Instant,
    pub acc: Acc,
    pub states: u64,
    pub transitions: u64,
    pub traces: u64,
    pub exhaustive: bool,
    pub bounds: Map<String, J>,
    pub assumptions: Vec<String>,
    pub notes: Vec<String>,
    pub rule: String,
    pub extra: Map<String, J>,
}

impl Report {
    pub fn new(prop: &'static str, tier: Tier) -> Self {
        Report {
            prop,
            tier,
            start: Instant::now(),
            acc: Acc::new(),
            states: 0,
            transitions: 0,
            traces: 0,
            exhaustive: true,
            bounds: Map::new(),
            assumptions: Vec::new(),
            notes: Vec::new(),
            rule: String::new(),
            extra: Map::new(),
        }
    }
    pub fn bound(&mut self, k: &str, v: impl Into<J>) {
        self.bounds.insert(k.to_string(), v.into());
    }
    pub fn assume(&mut self, s: &str) {
        self.assumptions.push(s.to_string());
    }
    pub fn note(&mut self, s: impl Into<String>) {
        self.notes.push(s.into());
    }
    pub fn absorb(&mut self, a: Acc) {
        let cur = std::mem::take(&mut self.acc);
        self.acc = cur.merge(a);
    }

    /// Write evidence + replay files, print verdict lines, return the process exit code.
    pub fn finish(mut self) -> i32 {
        let known = KnownFindings::load();
        let wall = self.start.elapsed().as_secs_f64();
        let mut exit = 0;

        let replay_dir = PathBuf::from(format!("{}/replays/{}", verif_dir(), self.prop));
        // replay files of earlier runs are stale
        let _ = std::fs::remove_dir_all(&replay_dir);
        let mut reported = 0usize;
        let mut known_hits = Vec::new();
        let mut viol_list = Vec::new();
        let mut sigs: Vec<String> = self.acc.violations.keys().cloned().collect();
        // smallest cases first
        sigs.sort_by_key(|s| (self.acc.violations[s].size, s.clone()));
        for sig in sigs {
            let v = self.acc.violations.get(&sig).unwrap().clone();
            if let Some(desc) = known.lookup(self.prop, &v.sig) {
                out!("KNOWN-FINDING: property={} key={} {}", self.prop, v.sig, desc);
                known_hits.push(json!({"key": v.sig, "what": v.what}));
                continue;
            }
            let _ = std::fs::create_dir_all(&replay_dir);
            let fname = format!("{}.json", sanitize(&v.sig));
            let path = replay_dir.join(fname);
            let body = json!({
                "property": self.prop,
                "signature": v.sig,
                "what": v.what,
                "case": v.case,
            });
            let _ = std::fs::write(&path, serde_json::to_string_pretty(&body).unwrap());
            if reported < 60 {
                out!("VIOLATION property={} replay={}", self.prop, path.display());
                out!("  {}", v.what);
            }
            reported += 1;
            viol_list.push(json!({"signature": v.sig, "what": v.what, "replay": path.display().to_string()}));
            exit = 1;
        }
        if reported > 60 {
            out!("... {} more violation signatures (see evidence file)", reported - 60);
        }
        if !self.acc.machinery_errors.is_empty() {
            for m in &self.acc.machinery_errors {
                out!("MACHINERY-ERROR property={} {}", self.prop, m);
            }
            if exit == 0 {
                exit = 2;
            }
        }
        // vacuity guard
        let distinct_outcomes = self.acc.outcomes.len();
        if distinct_outcomes <= 1 && exit == 0 {
            out!(
                "MACHINERY-ERROR property={} vacuous run: {} distinct outcome classes observed",
                self.prop, distinct_outcomes
            );
            exit = 2;
        }
        if self.states == 0 || self.transitions == 0 {
            if exit == 0 {
                out!("MACHINERY-ERROR property={} nothing explored", self.prop);
                exit = 2;
            }
        }

        let mut samples: Vec<J> = Vec::new();
        for (g, ss) in &self.acc.samples {
            for s in ss {
                samples.push(json!({"group": g, "case": s}));
            }
        }
        if samples.is_empty() {
            samples.push(json!("no sample recorded"));
        }
        let mut coverage = Map::new();
        coverage.insert("states".into(), json!(self.states.max(1)));
        coverage.insert("transitions".into(), json!(self.transitions.max(1)));
        coverage.insert("traces_validated_against_impl".into(), json!(self.traces));
        coverage.insert("evaluations".into(), json!(self.traces.max(1)));
        coverage.insert("distinct_nontrivial".into(), json!(distinct_outcomes.max(0)));
        coverage.insert(
            "rule".into(),
            json!(if self.rule.is_empty() {
                "exhaustive enumeration within the stated bounds; distinct_nontrivial counts distinct observed outcome classes".to_string()
            } else {
                self.rule.clone()
            }),
        );
        coverage.insert("samples".into(), J::Array(samples));
        coverage.insert("exhaustive".into(), json!(self.exhaustive));
        coverage.insert("bounds".into(), J::Object(self.bounds.clone()));
        coverage.insert(
            "counters".into(),
            J::Object(self.acc.counters.iter().map(|(k, v)| (k.clone(), json!(v))).collect()),
        );
        coverage.insert("distinct_outcome_classes".into(), json!(distinct_outcomes));
        let oc: Vec<&String> = self.acc.outcomes.iter().take(40).collect();
        coverage.insert("outcome_classes_sample".into(), json!(oc));
        coverage.insert("known_findings_hit".into(), J::Array(known_hits));
        coverage.insert("violation_list".into(), J::Array(viol_list));
        coverage.insert("notes".into(), json!(self.notes));
        coverage.insert("machinery_errors".into(), json!(self.acc.machinery_errors));
        for (k, v) in std::mem::take(&mut self.extra) {
            coverage.insert(k, v);
        }
        let seed: i64 = std::env::var("VERIF_SEED").ok().and_then(|s| s.parse().ok()).unwrap_or(0);
        let ev = json!({
            "property_id": self.prop,
            "tier": self.tier.name(),
            "seed": seed,
            "level": "model_checking",
            "coverage": J::Object(coverage),
            "assumptions": self.assumptions,
            "wall_s": wall,
            "violations": reported,
            "exit_code": exit,
        });
        let _ = std::fs::create_dir_all(format!("{}/evidence", verif_dir()));
        let path = format!("{}/evidence/{}.json", verif_dir(), self.prop);
        if let Err(e) = std::fs::write(&path, serde_json::to_string_pretty(&ev).unwrap()) {
            out!("MACHINERY-ERROR property={} cannot write evidence: {e}", self.prop);
            if exit == 0 {
                exit = 2;
            }
        }
        out!(
            "{} {} states={} transitions={} executions={} outcome_classes={} exhaustive={} violations={} wall={:.1}s exit={}",
            self.prop,
            self.tier.name(),
            self.states,
            self.transitions,
            self.traces,
            distinct_outcomes,
            self.exhaustive,
            reported,
            wall,
            exit
        );
        exit
    }
}

pub fn sanitize(s: &str) -> String {
    let mut out: String = s
        .chars()
        .map(|c| if c.is_ascii_alphanumeric() || c == '-' || c == '_' || c == '.' { c } else { '_' })
        .collect();
    if out.len() > 120 {
        // keep names short but distinct
        let mut h: u64 = 0xcbf29ce484222325;
        for b in s.bytes() {
            h ^= b as u64;
            h = h.wrapping_mul(0x100000001b3);
        }
        out.truncate(100);
        out.push_str(&format!("_{h:016x}"));
    }
    out
}
