//! E1 — stateless depth-first explorer over a tree of explicit choice points.
//!
//! The body is re-executed once per leaf.  A state is the choice prefix that reaches it; a replayed
//! prefix that meets a different arity is nondeterminism the harness does not own and is a hard
//! (machinery) error.
use std::sync::{Arc, Mutex};

#[derive(Default, Debug)]
pub struct Chooser {
    prefix: Vec<u32>,
    pub trail: Vec<(u32, u32)>,
    /// arities seen on the previous run for the forced prefix (divergence detection)
    expect_arity: Vec<u32>,
    pub diverged: Option<String>,
    /// number of non-default choices allowed (None = unbounded)
    pub deviation_bound: Option<u32>,
}

impl Chooser {
    pub fn with_prefix(prefix: Vec<u32>) -> Self {
        Chooser { prefix, ..Default::default() }
    }
    /// Pick one of `n` alternatives (n >= 1).
    pub fn choose(&mut self, n: u32) -> u32 {
        assert!(n >= 1, "choose(0)");
        let pos = self.trail.len();
        let c = if pos < self.prefix.len() {
            if let Some(&a) = self.expect_arity.get(pos) {
                if a != n && self.diverged.is_none() {
                    self.diverged = Some(format!(
                        "choice point {pos}: arity {n} on replay, {a} when first visited"
                    ));
                }
            }
            let c = self.prefix[pos];
            if c >= n {
                if self.diverged.is_none() {
                    self.diverged = Some(format!("choice point {pos}: forced choice {c} >= arity {n}"));
                }
                0
            } else {
                c
            }
        } else {
            0
        };
        self.trail.push((c, n));
        c
    }
    pub fn deviations(&self) -> u32 {
        self.trail.iter().filter(|(c, _)| *c != 0).count() as u32
    }
}

pub type SharedChooser = Arc<Mutex<Chooser>>;

#[derive(Default, Debug, Clone, Copy)]
pub struct TreeStats {
    pub leaves: u64,
    pub nodes: u64,
    pub edges: u64,
    pub max_depth: u64,
}

impl TreeStats {
    pub fn add(&mut self, o: &TreeStats) {
        self.leaves += o.leaves;
        self.nodes += o.nodes;
        self.edges += o.edges;
        self.max_depth = self.max_depth.max(o.max_depth);
    }
}

/// Explore every leaf of the choice tree below `root` (a fixed prefix that is never backtracked).
/// `body` gets a shared chooser and returns nothing; observations are taken by the caller inside
/// `body`.  `max_leaves` is a safety cap; hitting it returns Err(stats) (not exhaustive).
pub fn explore(
    root: &[u32],
    deviation_bound: Option<u32>,
    max_leaves: u64,
    mut body: impl FnMut(&SharedChooser, &[u32]),
) -> Result<TreeStats, (TreeStats, String)> {
    let mut stats = TreeStats::default();
    let mut prefix: Vec<u32> = root.to_vec();
    let mut expect: Vec<u32> = Vec::new();
    let mut new_from = 0usize; // trail positions >= new_from are new nodes
    loop {
        let ch = Arc::new(Mutex::new(Chooser {
            prefix: prefix.clone(),
            expect_arity: expect.clone(),
            deviation_bound,
            ..Default::default()
        }));
        body(&ch, &prefix);
        let c = ch.lock().unwrap();
        if let Some(d) = &c.diverged {
            return Err((stats, format!("nondeterministic replay: {d}")));
        }
        if c.trail.len() < prefix.len() {
            return Err((
                stats,
                format!(
                    "nondeterministic replay: run ended after {} choice points, prefix has {}",
                    c.trail.len(),
                    prefix.len()
                ),
            ));
        }
        stats.leaves += 1;
        stats.max_depth = stats.max_depth.max(c.trail.len() as u64);
        for (_, n) in &c.trail[new_from.min(c.trail.len())..] {
            stats.nodes += 1;
            stats.edges += *n as u64;
        }
        if stats.leaves >= max_leaves {
            return Err((stats, format!("leaf cap {max_leaves} reached")));
        }
        // backtrack: deepest position >= root.len() with an untried alternative
        let trail = c.trail.clone();
        drop(c);
        let mut i = trail.len();
        let mut next: Option<Vec<u32>> = None;
        while i > root.len() {
            i -= 1;
            let (ch_i, n_i) = trail[i];
            if ch_i + 1 < n_i {
                // deviation bound: count non-default choices in trail[..i] plus this one
                if let Some(b) = deviation_bound {
                    let dev = trail[..i].iter().filter(|(c, _)| *c != 0).count() as u32 + 1;
                    if dev > b {
                        continue;
                    }
                }
                let mut p: Vec<u32> = trail[..i].iter().map(|(c, _)| *c).collect();
                p.push(ch_i + 1);
                next = Some(p);
                break;
            }
        }
        match next {
            None => return Ok(stats),
            Some(p) => {
                new_from = p.len();
                expect = trail[..p.len()].iter().map(|(_, n)| *n).collect();
                prefix = p;
            }
        }
    }
}

#[cfg(test)]
mod tests {
    use super::*;
    #[test]
    fn counts_full_tree() {
        let mut seen = Vec::new();
        let st = explore(&[], None, 1000, |ch, _| {
            let a = ch.lock().unwrap().choose(2);
            let b = if a == 1 { ch.lock().unwrap().choose(3) } else { 0 };
            seen.push((a, b));
        })
        .unwrap();
        assert_eq!(st.leaves, 4);
        assert_eq!(seen, vec![(0, 0), (1, 0), (1, 1), (1, 2)]);
        assert_eq!(st.nodes, 2);
        assert_eq!(st.edges, 5);
    }
}
