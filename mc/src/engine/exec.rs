//! Minimal executors.  `block_on_ready` drives a future that must not suspend (used wherever the
//! harness's user functions never return `Pending`); `poll_once` is the primitive the schedule
//! explorer (E5) is built from.
use std::future::Future;
use std::pin::Pin;
use std::sync::atomic::{AtomicUsize, Ordering};
use std::sync::Arc;
use std::task::{Context, Poll, RawWaker, RawWakerVTable, Waker};

/// A waker that counts how often it was woken.
#[derive(Default)]
pub struct WakeCount(pub AtomicUsize);

fn vt_clone(p: *const ()) -> RawWaker {
    unsafe { Arc::increment_strong_count(p as *const WakeCount) };
    RawWaker::new(p, &VTABLE)
}
fn vt_wake(p: *const ()) {
    let a = unsafe { Arc::from_raw(p as *const WakeCount) };
    a.0.fetch_add(1, Ordering::SeqCst);
}
fn vt_wake_by_ref(p: *const ()) {
    let a = unsafe { &*(p as *const WakeCount) };
    a.0.fetch_add(1, Ordering::SeqCst);
}
fn vt_drop(p: *const ()) {
    unsafe { drop(Arc::from_raw(p as *const WakeCount)) };
}
static VTABLE: RawWakerVTable = RawWakerVTable::new(vt_clone, vt_wake, vt_wake_by_ref, vt_drop);

pub fn counting_waker(c: &Arc<WakeCount>) -> Waker {
    let p = Arc::into_raw(c.clone()) as *const ();
    unsafe { Waker::from_raw(RawWaker::new(p, &VTABLE)) }
}

/// Poll a pinned future once with a counting waker.
pub fn poll_once<F: Future + ?Sized>(f: Pin<&mut F>, wc: &Arc<WakeCount>) -> Poll<F::Output> {
    let w = counting_waker(wc);
    let mut cx = Context::from_waker(&w);
    f.poll(&mut cx)
}

/// Drive a future to completion by polling; `Pending` without a wake is reported as `Err`.
pub fn block_on<F: Future>(f: F) -> Result<F::Output, String> {
    let mut f = Box::pin(f);
    let wc = Arc::new(WakeCount::default());
    let mut polls = 0usize;
    loop {
        let before = wc.0.load(Ordering::SeqCst);
        match poll_once(f.as_mut(), &wc) {
            Poll::Ready(v) => return Ok(v),
            Poll::Pending => {
                polls += 1;
                if wc.0.load(Ordering::SeqCst) == before {
                    return Err("future returned Pending without waking (lost wake-up)".into());
                }
                if polls > 1_000_000 {
                    return Err("future still pending after 1e6 polls".into());
                }
            }
        }
    }
}
