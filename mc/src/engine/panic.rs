//! Panic boundary: every call into reval runs under `catch`, so an unwinding panic becomes an
//! observation instead of killing the harness.
use std::cell::RefCell;
use std::panic::{catch_unwind, AssertUnwindSafe};
use std::sync::Once;

thread_local! {
    static LAST: RefCell<Option<String>> = const { RefCell::new(None) };
    static QUIET: RefCell<u32> = const { RefCell::new(0) };
}

static INSTALL: Once = Once::new();

/// Install a panic hook that records message and location for panics raised inside `catch`
/// (and prints nothing for them), and behaves like the default hook elsewhere.
pub fn install_hook() {
    INSTALL.call_once(|| {
        let default = std::panic::take_hook();
        std::panic::set_hook(Box::new(move |info| {
            let quiet = QUIET.with(|q| *q.borrow() > 0);
            if quiet {
                let msg = if let Some(s) = info.payload().downcast_ref::<&str>() {
                    (*s).to_string()
                } else if let Some(s) = info.payload().downcast_ref::<String>() {
                    s.clone()
                } else {
                    "<non-string panic payload>".to_string()
                };
                let loc = info
                    .location()
                    .map(|l| {
                        // keep the path relative to the crate so signatures are stable
                        let f = l.file();
                        let f = f.rsplit_once("/src/").map(|(_, r)| r).unwrap_or(f);
                        format!("{}:{}", f, l.line())
                    })
                    .unwrap_or_default();
                LAST.with(|c| *c.borrow_mut() = Some(format!("{msg} @ {loc}")));
            } else {
                default(info);
            }
        }));
    });
}

/// Run `f`; an unwinding panic is returned as `Err(message @ file:line)`.
pub fn catch<T>(f: impl FnOnce() -> T) -> Result<T, String> {
    install_hook();
    QUIET.with(|q| *q.borrow_mut() += 1);
    let r = catch_unwind(AssertUnwindSafe(f));
    QUIET.with(|q| *q.borrow_mut() -= 1);
    match r {
        Ok(v) => Ok(v),
        Err(_) => Err(LAST
            .with(|c| c.borrow_mut().take())
            .unwrap_or_else(|| "<panic without message>".to_string())),
    }
}
