//! C18, behavioural half: all interleavings (within a preemption bound) of loom threads evaluating
//! one shared `Arc<RuleSet>`.  reval contains no synchronisation primitive for loom to intercept;
//! the scheduling points are the loom mutex / atomics inside the harness's user functions and the
//! yield in `block_on`, i.e. exactly the places where concurrent evaluations can meet.
//!
//! usage: c18loom <scenario> <preemption bound | "none">     prints one JSON line
use async_trait::async_trait;
use loom::sync::atomic::{AtomicUsize, Ordering};
use loom::sync::{Arc, Mutex};
use reval::prelude::*;
use std::collections::BTreeMap;
use std::future::Future;
use std::pin::Pin;
use std::sync::atomic::AtomicU64;
use std::task::{Context, Poll, RawWaker, RawWakerVTable, Waker};

// ---- a waker that does nothing (the executor below re-polls after yielding) -----------------
fn noop_raw() -> RawWaker {
    fn no(_: *const ()) {}
    fn cl(_: *const ()) -> RawWaker {
        noop_raw()
    }
    static VT: RawWakerVTable = RawWakerVTable::new(cl, no, no, no);
    RawWaker::new(std::ptr::null(), &VT)
}
fn noop_waker() -> Waker {
    unsafe { Waker::from_raw(noop_raw()) }
}

/// poll to completion, yielding to the loom scheduler whenever the future is pending
fn block_on<T>(mut f: Pin<Box<dyn Future<Output = T> + Send + '_>>) -> T {
    let w = noop_waker();
    let mut cx = Context::from_waker(&w);
    loop {
        match f.as_mut().poll(&mut cx) {
            Poll::Ready(v) => return v,
            Poll::Pending => loom::thread::yield_now(),
        }
    }
}

struct YieldOnce(bool);
impl Future for YieldOnce {
    type Output = ();
    fn poll(mut self: Pin<&mut Self>, cx: &mut Context<'_>) -> Poll<()> {
        if self.0 {
            Poll::Ready(())
        } else {
            self.0 = true;
            cx.waker().wake_by_ref();
            Poll::Pending
        }
    }
}

struct Shared {
    log: Mutex<Vec<String>>,
    calls: AtomicUsize,
}

struct F {
    name: &'static str,
    cacheable: bool,
    suspend: bool,
    shared: Arc<Shared>,
}

#[async_trait]
impl UserFunction for F {
    async fn call(&self, p: Value) -> FunctionResult {
        // scheduling points: an atomic, a mutex, optionally a suspension
        SYNC_OPS.fetch_add(if self.suspend { 4 } else { 3 }, std::sync::atomic::Ordering::Relaxed);
        self.shared.calls.fetch_add(1, Ordering::SeqCst);
        {
            let mut g = self.shared.log.lock().unwrap();
            g.push(format!("{}({:?})", self.name, p));
        }
        if self.suspend {
            YieldOnce(false).await;
        }
        self.shared.calls.fetch_add(1, Ordering::SeqCst);
        if self.name == "bad" {
            return Err(anyhow::anyhow!("injected"));
        }
        Ok(Value::Vec(vec![Value::String(self.name.to_string()), p]))
    }
    fn name(&self) -> &'static str {
        self.name
    }
    fn cacheable(&self) -> bool {
        self.cacheable
    }
}

fn build(rules: &[Expr], shared: &Arc<Shared>, suspend: bool) -> RuleSet {
    let mut b = ruleset();
    for (i, e) in rules.iter().enumerate() {
        b = b.with_rule(Rule::new(format!("r{i}"), BTreeMap::new(), e.clone())).unwrap();
    }
    for (n, c) in [("c", true), ("n", false), ("bad", true)] {
        b = b.with_function(F { name: n, cacheable: c, suspend, shared: shared.clone() }).unwrap();
    }
    b.build()
}

type Outs = Vec<String>;

fn render(out: reval::Result<Vec<reval::ruleset::Outcome<'_>>>) -> Outs {
    match out {
        Err(e) => vec![format!("WHOLE-CALL-ERR {e}")],
        Ok(v) => v.into_iter().map(|o| format!("{}={:?}", o.rule.name(), o.value.map_err(|e| e.to_string()))).collect(),
    }
}

fn facts(id: i128, other: i128) -> Value {
    Value::Map([("id".to_string(), Value::Int(id)), ("other".to_string(), Value::Int(other))].into_iter().collect())
}

static EXECUTIONS: AtomicU64 = AtomicU64::new(0);
static SYNC_OPS: AtomicU64 = AtomicU64::new(0);

fn main() {
    let args: Vec<String> = std::env::args().collect();
    let scenario = args.get(1).map(|s| s.as_str()).unwrap_or("two");
    let bound: Option<usize> = args.get(2).and_then(|s| s.parse().ok());
    let texts: Vec<&str> = match scenario {
        "two-short" => vec!["c(id)", "n(id)", "c(id)"],
        _ => vec!["c(id)", "n(id)", "c(id)", "c(other)", "bad(id)"],
    };
    let rules: Vec<Expr> = texts.iter().map(|t| Expr::parse(t).unwrap()).collect();
    let inputs: Vec<Value> = vec![facts(1, 2), facts(2, 1), facts(1, 2)];
    let n_threads = if scenario == "three" { 3 } else { 2 };
    let suspend = scenario != "two-nosuspend";
    let handoff = scenario == "handoff";

    // sequential baseline (inside a trivial loom model so that the loom primitives work)
    let baseline: std::sync::Arc<std::sync::Mutex<Vec<(Outs, Vec<String>)>>> = Default::default();
    {
        let (b, rules, inputs) = (baseline.clone(), rules.clone(), inputs.clone());
        loom::model(move || {
            let mut res = Vec::new();
            for i in 0..inputs.len() {
                let shared = Arc::new(Shared { log: Mutex::new(Vec::new()), calls: AtomicUsize::new(0) });
                let rs = build(&rules, &shared, false);
                let o = block_on(Box::pin(async { render(rs.evaluate_value(&inputs[i]).await) }));
                let log = shared.log.lock().unwrap().clone();
                res.push((o, log));
            }
            *b.lock().unwrap() = res;
        });
    }
    let baseline = baseline.lock().unwrap().clone();

    let violations: std::sync::Arc<std::sync::Mutex<Vec<String>>> = Default::default();
    let mut builder = loom::model::Builder::new();
    builder.preemption_bound = bound;
    builder.max_branches = 100_000;
    let run = {
        let violations = violations.clone();
        let baseline = baseline.clone();
        std::panic::catch_unwind(std::panic::AssertUnwindSafe(move || {
            builder.check(move || {
                EXECUTIONS.fetch_add(1, std::sync::atomic::Ordering::Relaxed);
                let shared = Arc::new(Shared { log: Mutex::new(Vec::new()), calls: AtomicUsize::new(0) });
                let rs = Arc::new(build(&rules, &shared, suspend));
                let results: Arc<Mutex<Vec<Option<Outs>>>> = Arc::new(Mutex::new(vec![None; n_threads]));
                let mut handles = Vec::new();
                if handoff {
                    // thread 0 starts an evaluation, polls it once, hands the future to thread 1,
                    // which finishes it while thread 0 runs another evaluation
                    let slot: Arc<Mutex<Option<Pin<Box<dyn Future<Output = Outs> + Send>>>>> = Arc::new(Mutex::new(None));
                    let (rs0, in0, in1, slot0, res0) = (rs.clone(), inputs[0].clone(), inputs[1].clone(), slot.clone(), results.clone());
                    handles.push(loom::thread::spawn(move || {
                        let rsx = rs0.clone();
                        let mut fut: Pin<Box<dyn Future<Output = Outs> + Send>> = Box::pin(async move { render(rsx.evaluate_value(&in0).await) });
                        let w = noop_waker();
                        let mut cx = Context::from_waker(&w);
                        match fut.as_mut().poll(&mut cx) {
                            Poll::Ready(o) => res0.lock().unwrap()[0] = Some(o),
                            Poll::Pending => *slot0.lock().unwrap() = Some(fut),
                        }
                        let o = block_on(Box::pin(async { render(rs0.evaluate_value(&in1).await) }));
                        res0.lock().unwrap()[1] = Some(o);
                    }));
                    let (slot1, res1) = (slot.clone(), results.clone());
                    handles.push(loom::thread::spawn(move || {
                        // take the future if it has been handed over (otherwise thread 0 finishes it itself later)
                        let taken = slot1.lock().unwrap().take();
                        if let Some(f) = taken {
                            let o = block_on(f);
                            res1.lock().unwrap()[0] = Some(o);
                        }
                    }));
                    for h in handles {
                        h.join().unwrap();
                    }
                    // a future that was parked but never taken is finished here
                    let left = slot.lock().unwrap().take();
                    if let Some(f) = left {
                        let o = block_on(f);
                        results.lock().unwrap()[0] = Some(o);
                    }
                } else {
                    for t in 0..n_threads {
                        let (rs, input, res) = (rs.clone(), inputs[t].clone(), results.clone());
                        handles.push(loom::thread::spawn(move || {
                            let o = block_on(Box::pin(async { render(rs.evaluate_value(&input).await) }));
                            res.lock().unwrap()[t] = Some(o);
                        }));
                    }
                    for h in handles {
                        h.join().unwrap();
                    }
                }
                // oracle: every evaluation's outcomes equal the sequential run; the call log is a
                // permutation of the sequential logs taken together
                let res = results.lock().unwrap().clone();
                let mut bad: Vec<String> = Vec::new();
                let mut want_log: Vec<String> = Vec::new();
                for t in 0..n_threads {
                    want_log.extend(baseline[t].1.iter().cloned());
                    match &res[t] {
                        Some(o) if *o == baseline[t].0 => {}
                        other => bad.push(format!("evaluation {t} returned {other:?}, sequentially it returns {:?}", baseline[t].0)),
                    }
                }
                let mut got_log = shared.log.lock().unwrap().clone();
                got_log.sort();
                want_log.sort();
                if got_log != want_log {
                    bad.push(format!("user-function invocations {got_log:?} differ from the sequential runs' {want_log:?}"));
                }
                if !bad.is_empty() {
                    let mut v = violations.lock().unwrap();
                    if v.len() < 5 {
                        v.push(bad.join("; "));
                    }
                }
            });
        }))
    };
    let mut viol = violations.lock().unwrap().clone();
    if let Err(p) = run {
        let msg = p.downcast_ref::<String>().cloned().or_else(|| p.downcast_ref::<&str>().map(|s| s.to_string())).unwrap_or_default();
        viol.push(format!("loom aborted the exploration: {msg}"));
    }
    let esc = |s: &str| s.replace('\\', "\\\\").replace('"', "\\\"").replace('\n', " ");
    println!(
        "{{\"scenario\":\"{}\",\"preemption_bound\":{},\"executions\":{},\"sync_ops\":{},\"violations\":[{}]}}",
        scenario,
        bound.map(|b| b.to_string()).unwrap_or("null".into()),
        EXECUTIONS.load(std::sync::atomic::Ordering::Relaxed),
        SYNC_OPS.load(std::sync::atomic::Ordering::Relaxed),
        viol.iter().map(|v| format!("\"{}\"", esc(v))).collect::<Vec<_>>().join(",")
    );
}
