#!/bin/bash
# Entry point of every check:  ./run.sh <Cnn> <quick|thorough>   |   ./run.sh replay <file>
# Rebuilds the harness (and, through cargo's fingerprints, reval from /repo's working tree) first.
# Exit codes: 0 held / 1 violation / 2 machinery problem (never a verdict).
set -u
cd /verif/mc || exit 2
export CARGO_NET_OFFLINE=true
LOG=/verif/target/build.$$.log
mkdir -p /verif/target
if ! cargo build --release --offline -q >"$LOG" 2>&1; then
  echo "MACHINERY-ERROR build of the harness against /repo failed (log: $LOG)"
  tail -30 "$LOG"
  exit 2
fi
rm -f "$LOG"
exec /verif/target/release/mc "$@"
