#!/bin/bash
# Entry point of every check:  ./run.sh <Cnn> <quick|thorough>   |   ./run.sh replay <file>
# Rebuilds the harness (and, through cargo's fingerprints, reval from /repo's working tree) first.
# Exit codes: 0 held / 1 violation / 2 machinery problem (never a verdict).
# Background runs on a snapshot may set VERIF_REPO (another checkout of reval) and VERIF_TARGET.
set -u
VDIR=$(cd "$(dirname "$0")" && pwd)
export VERIF_DIR=$VDIR
export VERIF_REPO=${VERIF_REPO:-/repo}
export VERIF_TARGET=${VERIF_TARGET:-/verif/target}
export CARGO_TARGET_DIR=$VERIF_TARGET
export CARGO_NET_OFFLINE=true
cd "$VDIR/mc" || exit 2
CFG=()
if [ "$VERIF_REPO" != "/repo" ]; then CFG=(--config "paths=[\"$VERIF_REPO\"]"); fi
mkdir -p "$VERIF_TARGET"
LOG=$VERIF_TARGET/build.$$.log
if ! cargo build --release --offline -q "${CFG[@]}" >"$LOG" 2>&1; then
  # C18's type-level half: when Send / Sync are lost the harness itself (which polls evaluation
  # futures on several threads) stops compiling; the gate crate then gives the verdict
  if [ "${1:-}" = replay ] && grep -q '"kind": "gate"' "${2:-/dev/null}" 2>/dev/null; then
    python3 "$VDIR/tools/c18_gate_fallback.py" quick "$LOG"; RC=$?
    if [ $RC -eq 1 ]; then rm -f "$LOG"; exit 1; fi
  fi
  if [ "${1:-}" = C18 ] && grep -qE 'cannot be (sent|shared) between threads safely|is not `(Send|Sync)`' "$LOG"; then
    python3 "$VDIR/tools/c18_gate_fallback.py" "${2:-quick}" "$LOG"; RC=$?
    if [ $RC -eq 1 ]; then rm -f "$LOG"; exit 1; fi
  fi
  echo "MACHINERY-ERROR build of the harness against $VERIF_REPO failed (log: $LOG)"
  tail -30 "$LOG"
  exit 2
fi
rm -f "$LOG"
exec "$VERIF_TARGET/release/mc" "$@"
