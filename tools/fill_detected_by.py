#!/usr/bin/env python3
"""Merge seed_detect.jsonl files (tools/seed_detect.sh) into seeded/*/meta.json (`detected_by`) and
print a summary.  usage: fill_detected_by.py <jsonl>... [--override SEED=Cnn ...]"""
import glob, json, os, sys
files = [a for a in sys.argv[1:] if not a.startswith("--") and "=" not in a]
over = dict(a.split("=", 1) for a in sys.argv[1:] if "=" in a and not a.startswith("--"))
best = {}
for f in files:
    for line in open(f):
        r = json.loads(line)
        if "own" not in r:
            continue
        cur = best.get(r["seed"])
        if cur is None or (not cur["detected_by"] and r["detected_by"]):
            best[r["seed"]] = r
for seed, chk in over.items():
    best[seed] = {"seed": seed, "own": seed.split("-")[0], "detected_by": chk, "tried": " " + chk, "note": "verified by hand after a repair of the machinery"}
own = other = none = 0
lines = []
for d in sorted(glob.glob("/verif/seeded/*")):
    seed = os.path.basename(d)
    mp = os.path.join(d, "meta.json")
    if not os.path.exists(mp):
        continue
    m = json.load(open(mp))
    r = best.get(seed)
    if r is None:
        # no record in the files given: keep what an earlier run filled in
        cur = m.get("detected_by") or {}
        first = cur.get("first_detecting_check")
        if first and first == cur.get("own_property_check"):
            own += 1
        elif first:
            other += 1
            lines.append(f"{seed}: {first}")
        else:
            none += 1
            lines.append(f"{seed}: NOT DETECTED / not run")
        continue
    else:
        m["detected_by"] = {"first_detecting_check": r["detected_by"] or None, "own_property_check": r["own"], "checks_tried_in_order": r["tried"].split(), "tier": "quick"}
        if r.get("note"):
            m["detected_by"]["note"] = r["note"]
        if r["detected_by"] == r["own"]:
            own += 1
        elif r["detected_by"]:
            other += 1
            lines.append(f"{seed}: {r['detected_by']}")
        else:
            none += 1
            lines.append(f"{seed}: NOT DETECTED")
    json.dump(m, open(mp, "w"), indent=1)
print(f"own check: {own}, neighbouring check: {other}, none / not run: {none}")
print("\n".join(lines))
