#!/usr/bin/env python3
"""Called by run.sh when the harness no longer builds against reval and the property is C18.

The harness polls reval's evaluation futures on several OS threads, so it stops compiling as soon
as those futures (or the public types) lose Send / Sync.  That is exactly the type-level half of
C18, decided by rustc: compile the small gate crate (which depends on reval only) and, if rustc
refuses it for an auto-trait reason, report the violation; anything else stays a machinery error.
usage: c18_gate_fallback.py <tier> <build-log>      exit 1 = violation reported, 2 = not a gate matter
"""
import json, os, subprocess, sys, time

tier = sys.argv[1] if len(sys.argv) > 1 and sys.argv[1] in ("quick", "thorough") else "quick"
vdir = os.environ.get("VERIF_DIR", "/verif")
repo = os.environ.get("VERIF_REPO", "/repo")
t0 = time.time()
cmd = ["cargo", "check", "-q", "-p", "c18gate", "--offline"]
if repo != "/repo":
    cmd += ["--config", 'paths=["%s"]' % repo]
p = subprocess.run(cmd, cwd=os.path.join(vdir, "mc"), capture_output=True, text=True)
out = p.stderr + p.stdout
markers = ("cannot be sent between threads safely", "cannot be shared between threads safely", "is not `Send`", "is not `Sync`")
if p.returncode == 0 or not any(m in out for m in markers):
    sys.exit(2)
first = [l.strip() for l in out.splitlines() if l.startswith("error")][:6]
os.makedirs(os.path.join(vdir, "replays", "C18"), exist_ok=True)
os.makedirs(os.path.join(vdir, "evidence"), exist_ok=True)
replay = os.path.join(vdir, "replays", "C18", "type-level_send-sync.json")
json.dump({"property": "C18", "case": {"kind": "gate", "compiler_output": out[:6000]}}, open(replay, "w"), indent=1)
what = "the Send/Sync gate no longer compiles: " + " | ".join(first)
evidence = {
    "property_id": "C18",
    "tier": tier,
    "seed": int(os.environ.get("VERIF_SEED", "0") or 0),
    "level": "model_checking",
    "coverage": {
        "evaluations": 1,
        "distinct_nontrivial": 1,
        "states": 1,
        "transitions": 1,
        "traces_validated_against_impl": 1,
        "exhaustive": False,
        "rule": "type-level half only: rustc compiling mc/c18gate (explicit Send/Sync assertions for the public types and the evaluation futures); the behavioural exploration was skipped because the harness, which polls those futures on several threads, cannot be built against this tree",
        "samples": [{"gate": "cargo check -p c18gate", "first_errors": first}],
        "violation_list": [{"signature": "type-level/send-sync", "what": what, "replay": replay}],
        "notes": ["written by tools/c18_gate_fallback.py: the harness binary could not be built"],
    },
    "assumptions": ["rustc's auto-trait checking"],
    "wall_s": round(time.time() - t0, 3),
    "violations": 1,
}
json.dump(evidence, open(os.path.join(vdir, "evidence", "C18.json"), "w"), indent=1)
print("VIOLATION property=C18 replay=%s" % replay)
print("  " + what)
print("C18 %s states=1 transitions=1 executions=1 exhaustive=false violations=1 exit=1 (gate only: the harness does not build against this tree)" % tier)
sys.exit(1)
