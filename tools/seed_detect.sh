#!/bin/bash
# For every seed / mutant: run its own property's quick check against a private checkout of reval
# with the patch applied; if that does not report a violation, try the neighbouring checks in turn.
# Writes one JSON line per seed to seed_detect.jsonl (in the directory this script's repo copy lives in).
# usage: [ORDER=reverse] [ONLY=<regex on the patch path>] tools/seed_detect.sh [repo-checkout]   ($VP_RUN_REPO from `vp run --with-repo` by default)
set -u
VDIR=$(cd "$(dirname "$0")/.." && pwd)
REPO=${1:-${VP_RUN_REPO:?need a private checkout of reval}}
export VERIF_REPO=$REPO VERIF_TARGET=$VDIR/target_detect
OUT=$VDIR/seed_detect.jsonl
: > "$OUT"
ALL="C11 C12 C05 C09 C13 C15 C17 C10 C16 C08 C06 C02 C03 C18 C14 C07 C19"
cd "$REPO" || exit 2
LIST=$(ls "$VDIR"/seeded/*/patch.diff "$VDIR"/mutants/*.diff)
[ "${ORDER:-}" = reverse ] && LIST=$(echo "$LIST" | tac)
[ -n "${ONLY:-}" ] && LIST=$(echo "$LIST" | grep -E -- "$ONLY")
for P in $LIST; do
  NAME=$(basename "$(dirname "$P")"); [ "$NAME" = mutants ] && NAME=$(basename "$P" .diff)
  git -C "$REPO" checkout -q -- . 2>/dev/null; git -C "$REPO" clean -qfd src 2>/dev/null
  if ! git -C "$REPO" apply "$P" 2>/dev/null; then echo "{\"seed\":\"$NAME\",\"error\":\"patch does not apply\"}" >> "$OUT"; continue; fi
  OWN=$(echo "$NAME" | grep -oE '^C[0-9]+' || true)
  case "$NAME" in prefix-D1-*) OWN=C01;; prefix-D4*) OWN=C06;; prefix-D5*|prefix-D6*) OWN=C13;; prefix-D7*) OWN=C15;; prefix-D8*|prefix-D9*|prefix-D10*) OWN=C16;; esac
  TRIED=""; HIT=""
  for PR in $OWN $ALL; do
    case " $TRIED " in *" $PR "*) continue;; esac
    TRIED="$TRIED $PR"
    RES=$("$VDIR/run.sh" $PR quick 2>&1); RC=$?
    if [ $RC -eq 1 ] && echo "$RES" | grep -q '^VIOLATION'; then HIT=$PR; break; fi
    if [ $RC -eq 2 ]; then echo "{\"seed\":\"$NAME\",\"check\":\"$PR\",\"machinery\":true}" >> "$OUT"; fi
  done
  echo "{\"seed\":\"$NAME\",\"own\":\"$OWN\",\"detected_by\":\"$HIT\",\"tried\":\"$TRIED\"}" >> "$OUT"
  git -C "$REPO" checkout -q -- . ; git -C "$REPO" clean -qfd src
done
echo done
