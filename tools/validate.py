#!/usr/bin/env python3-vt
"""Validate MANIFEST.json and every evidence file against the harness schemas."""
import json, sys, glob, jsonschema
ok = True
try:
    jsonschema.validate(json.load(open('/verif/MANIFEST.json')), json.load(open('/root/.vp/MANIFEST.schema.json')))
    print("MANIFEST ok")
except Exception as e:
    ok = False; print("MANIFEST INVALID:", str(e)[:400])
es = json.load(open('/root/.vp/EVIDENCE.schema.json'))
for f in sorted(glob.glob('/verif/evidence/*.json')):
    try:
        jsonschema.validate(json.load(open(f)), es); print(f, "ok")
    except Exception as e:
        ok = False; print(f, "INVALID:", str(e)[:300])
sys.exit(0 if ok else 1)
