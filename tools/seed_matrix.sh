#!/bin/bash
# Detection matrix: every seeded defect (and pre-fix reverse patch) x every check, quick tier, on a
# private checkout of reval ($VP_RUN_REPO from `vp run --with-repo`, or $1) with a private target
# directory.  Writes seed_matrix.jsonl next to this tree (one line per seed).
set -u
VDIR=$(cd "$(dirname "$0")/.." && pwd)
REPO=${1:-${VP_RUN_REPO:?need a checkout of reval}}
export VERIF_REPO=$REPO
export VERIF_TARGET=${VERIF_TARGET:-$VDIR/target_matrix}
OUT=$VDIR/seed_matrix.jsonl
: > "$OUT"
CHEAP="C05 C09 C11 C12 C13 C15 C17"
cd "$REPO" || exit 2
for P in "$VDIR"/seeded/*/patch.diff "$VDIR"/mutants/*.diff; do
  NAME=$(basename "$(dirname "$P")"); [ "$NAME" = mutants ] && NAME=$(basename "$P" .diff)
  git -C "$REPO" checkout -q -- . 2>/dev/null; git -C "$REPO" clean -qfd src 2>/dev/null
  if ! git -C "$REPO" apply "$P" 2>/dev/null; then echo "{\"seed\":\"$NAME\",\"error\":\"patch does not apply\"}" >> "$OUT"; continue; fi
  LINE="{\"seed\":\"$NAME\""
  OWN=$(echo "$NAME" | grep -oE '^C[0-9]+' || true)
  case "$NAME" in prefix-D1*) OWN="C01 C02";; prefix-D4*) OWN=C06;; prefix-D5*|prefix-D6*) OWN=C13;; prefix-D7*) OWN=C15;; prefix-D8*|prefix-D9*) OWN=C16;; esac
  EXTRA=""
  case "$NAME" in C07*|C10*|C15*|C06*) EXTRA="C08";; C03*|C09*) EXTRA="C11";; C11-B|C18*) EXTRA="C12 C18";; C04*) EXTRA="C10";; C16*) EXTRA="C07";; esac
  PROPS=$(echo "$OWN $CHEAP $EXTRA" | tr ' ' '\n' | sort -u | tr '\n' ' ')
  for PR in $PROPS; do
    RES=$("$VDIR/run.sh" $PR quick 2>&1); RC=$?
    NV=$(echo "$RES" | grep -c '^VIOLATION')
    LINE="$LINE,\"$PR\":{\"exit\":$RC,\"violations\":$NV}"
  done
  echo "$LINE}" >> "$OUT"
  git -C "$REPO" checkout -q -- . ; git -C "$REPO" clean -qfd src
done
echo done
