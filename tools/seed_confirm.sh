#!/bin/bash
# Confirm a sub-agent's seeded defect in its scratch worktree and file it under /verif/seeded.
# usage: seed_confirm.sh C06 A
set -u
ID=$1; V=$2
W=${SEEDROOT:-/tmp/seed}/$ID
OUT=$W/out
export CARGO_NET_OFFLINE=true CARGO_TARGET_DIR=$W/target
cd $W || exit 2
git checkout -q -- src
res() { echo "$1" ; }
[ -f $OUT/$V.patch.diff ] || { echo "no patch"; exit 2; }
cp $OUT/seed_demo_$V.rs examples/seed_demo_$V.rs
# 1. demo passes without change
cargo run -q --offline --example seed_demo_$V >${SEEDROOT:-/tmp/seed}/$ID.$V.demo_clean.log 2>&1; DC=$?
# 2. apply
git apply $OUT/$V.patch.diff || { echo "patch does not apply"; exit 2; }
cargo test --workspace --no-fail-fast --offline >${SEEDROOT:-/tmp/seed}/$ID.$V.tests.log 2>&1; T=$?
PASSED=$(grep -E '^test result' ${SEEDROOT:-/tmp/seed}/$ID.$V.tests.log | awk '{s+=$4} END{print s}')
FAILED=$(grep -E '^test result' ${SEEDROOT:-/tmp/seed}/$ID.$V.tests.log | awk '{s+=$6} END{print s}')
cargo run -q --offline --example seed_demo_$V >${SEEDROOT:-/tmp/seed}/$ID.$V.demo_mut.log 2>&1; DM=$?
git checkout -q -- src
echo "$ID/$V demo_clean_exit=$DC tests_exit=$T passed=$PASSED failed=$FAILED demo_mutant_exit=$DM"
if [ $DC -eq 0 ] && [ $T -eq 0 ] && [ "$FAILED" = "0" ] && [ $DM -ne 0 ]; then
  D=/verif/seeded/$ID-${TAG:-}$V
  mkdir -p $D
  cp $OUT/$V.patch.diff $D/patch.diff
  cp $OUT/seed_demo_$V.rs $D/demo.rs
  python3 - "$OUT/$V.meta.json" "$D/meta.json" "$ID" "$V" "$PASSED" "$DM" <<'PY'
import json,sys
src,dst,pid,v,passed,dm=sys.argv[1:]
try: m=json.load(open(src))
except Exception as e: m={"note":"agent meta unreadable: %s"%e}
out={"property":pid,"variant":v,
 "summary":m.get("summary"),"breaks":m.get("breaks"),"needs_to_manifest":m.get("needs_to_manifest"),
 "confirmed_by_me":{"worktree":"scratch worktree of %s (removed afterwards)"%pid,
   "commands":["git apply patch.diff","cargo test --workspace --no-fail-fast --offline  -> %s passed, 0 failed"%passed,
               "cargo run --offline --example seed_demo_%s  -> exit %s with the change, exit 0 without"%(v,dm)]},
 "agent_commands":m.get("commands_run"),
 "detected_by":None}
json.dump(out,open(dst,'w'),indent=1)
PY
  echo "KEPT $D"
else
  echo "REJECTED $ID/$V"
fi
