#!/bin/bash
# Run checks against a seeded defect: apply /verif/seeded/<name>/patch.diff to /repo, run the given
# checks, revert.   usage: seed_try.sh <seed-name> <Cnn>[,<Cnn>...] [quick|thorough]
set -u
NAME=$1; PROPS=$2; TIER=${3:-quick}
P=/verif/seeded/$NAME/patch.diff
[ -f "$P" ] || P=$NAME   # also accept a path to a patch
cd /repo || exit 2
if [ -n "$(git status --porcelain --untracked-files=no)" ]; then echo "/repo not clean"; exit 2; fi
trap 'git -C /repo apply -R "$P" 2>/dev/null; git -C /repo checkout -q -- . ; git -C /repo status --porcelain | head -3' EXIT
git apply "$P" || { echo "patch does not apply to /repo HEAD"; exit 2; }
for PR in ${PROPS//,/ }; do
  OUT=$(cd /verif && ./run.sh $PR $TIER 2>&1); RC=$?
  NV=$(echo "$OUT" | grep -c '^VIOLATION')
  echo "== $NAME vs $PR $TIER: exit=$RC violations=$NV"
  echo "$OUT" | grep -A1 '^VIOLATION' | head -8
  echo "$OUT" | grep -E 'MACHINERY' | head -3
done
